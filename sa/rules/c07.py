"""C07 -- composite pools conserve demand and aggregate faithfully (agreement clauses only)."""
import ast

from .. import util
from ..interp import alpha, Interp, Path, exc_value, show, strip_sites, subterms, NONE
from .. import slots
from ..report import Undecided

SELF = ("sym", "self")
CHILDREN = ("attr", SELF, "children")
UNIFORM = "cobald.composite.uniform:UniformComposite"
WEIGHTED = "cobald.composite.weighted:WeightedComposite"
ZDE = exc_value("ext:builtins.ZeroDivisionError", "injected")
SUM = ("glob", "ext:builtins.sum")
LEN = ("glob", "ext:builtins.len")
GETATTR = ("glob", "ext:builtins.getattr")
COUNT = ("call", LEN, (CHILDREN,), ())


def make_interp(chk, fi, zde=False, **kw):
    prog = chk.program
    cls = fi.cls

    def attr_hook(it, path, base, attr, node):
        # inline the class's own property getters (self._total_weight, self.supply)
        if base == SELF and attr != "children":
            g = prog.lookup_method(cls, attr, kind="getter")
            if g is not None and g is not it._cur() and it.depth < 2:
                res = it.inline(g, ("attr", SELF, attr), (), (), path.fork(), node)
                if res is not None and len(res) == 1 and res[0][0] == "value":
                    return res[0][2]
        return None

    def binop_hook(it, path, op, l, r, node):
        if zde and op in ("/", "//", "%"):
            if strip_sites(r) == COUNT and any(e[0] == "loop-iter" for e in path.events):
                return None  # inside an iteration over the children their number is >= 1
            return [("raise", ZDE), ("value", ("binop", op, l, r))]
        return None

    pkg = cls.module.name.rpartition(".")[0]
    # own methods, and the private module-level helpers of the composite package (one shared share formula, ...)
    return Interp(prog, fi, attr_hook=attr_hook, binop_hook=binop_hook, inline=lambda f, ct: f.cls is cls or (f.cls is None and not f.is_async and f.module.name.startswith(pkg)), **kw)


_PROG = {}


def _norm_map(t):
    """sum(map(self.helper, xs)) -> sum(helper-body(x) for x in xs) when helper is a one-expression own method"""
    if t[0] == "call" and t[1] == SUM and len(t[2]) == 1 and t[2][0][0] == "call" and t[2][0][1] == ("glob", "ext:builtins.map") and len(t[2][0][2]) == 2:
        f, xs = t[2][0][2]
        prog, cls = _PROG.get("prog"), _PROG.get("cls")
        if f[0] == "call" and f[1][0] == "glob" and f[1][1] in ("ext:operator.attrgetter",) and len(f[2]) == 1 and f[2][0][0] == "const" and isinstance(f[2][0][1], str) and "." not in f[2][0][1]:
            return ("call", SUM, (("comp", "gen", ("attr", ("bound", "x"), f[2][0][1]), ((("bound", "x"), xs, ()),)),), ())
        if f[0] == "attr" and f[1] == SELF and prog is not None:
            m = prog.lookup_method(cls, f[2])
            if m is not None and len(m.params()) == 1:
                it = Interp(prog, m)
                outs = it.run(env={("sym", m.params()[0]): ("bound", "x")})
                if len(outs) == 1 and outs[0].kind == "return":
                    return ("call", SUM, (("comp", "gen", strip_sites(outs[0].value), ((("bound", "x"), xs, ()),)),), ())
    # sum(gen())  where gen is a local generator function `for x in xs: yield elt`
    if t[0] == "call" and t[1] == SUM and len(t[2]) == 1 and t[2][0][0] == "call" and t[2][0][1][0] == "glob" and not t[2][0][2]:
        prog = _PROG.get("prog")
        g = prog.functions.get(t[2][0][1][1]) if prog is not None else None
        if g is not None and g.parent is not None:
            body = [st for st in g.node.body if not (isinstance(st, ast.Expr) and isinstance(st.value, ast.Constant))]
            if len(body) == 1 and isinstance(body[0], ast.For) and len(body[0].body) == 1 and isinstance(body[0].body[0], ast.Expr) and isinstance(body[0].body[0].value, ast.Yield) and isinstance(body[0].target, ast.Name):
                loop = body[0]
                it = Interp(prog, g.parent)
                it._funcstack.append(g)
                p = Path()
                p.env[("sym", loop.target.id)] = ("bound", loop.target.id)
                try:
                    src = it.eval(loop.iter, p)
                    elt = it.eval(loop.body[0].value.value, p)
                except Undecided:
                    return t
                if len(src) == 1 and len(elt) == 1 and src[0][0] == "value" and elt[0][0] == "value":
                    return ("call", SUM, (("comp", "gen", strip_sites(elt[0][2]), ((("bound", loop.target.id), strip_sites(src[0][2]), ()),)),), ())
    return t


def N(t):
    """strip call-site numbers and normalise sum(map(helper, xs)) everywhere inside the term"""
    t = strip_sites(t)

    def rec(x):
        if not isinstance(x, tuple):
            return x
        x = tuple(rec(y) for y in x)
        if x and x[0] == "call":
            x = _norm_map(x)
        return x

    return rec(t)


def sum_over_children(t):
    """sum(<elt> for x in self.children) -> (elt, bound var) or None"""
    t = N(t)
    if not (t[0] == "call" and t[1] == SUM and len(t[2]) == 1 and t[2][0][0] == "comp"):
        return None
    comp = t[2][0]
    if len(comp[3]) != 1:
        return None
    target, it, conds = comp[3][0]
    if target[0] != "bound":
        return None
    return comp[2], target, it, conds


def check_domain(chk, rule, name, t, what, node):
    """the aggregate ranges over the unfiltered self.children"""
    s = sum_over_children(t)
    if s is None:
        return None
    elt, var, it, conds = s
    if it != CHILDREN:
        chk.bad(rule, name, "%s ranges over %s instead of the composite's children" % (what, show(it)), node=node, stmt="%s domain" % what)
        return False
    if conds:
        chk.bad(rule, name, "%s skips children (%s): sums and counts no longer range over the same children" % (what, " and ".join(show(c) for c in conds)), node=node, stmt="%s filtered" % what)
        return False
    return True


def weight_attr():
    """the attribute holding the name of the weighting property (assigned from the constructor's `weight`)"""
    prog, cls = _PROG["prog"], _PROG["wcls"]
    return slots.attr_from_param(prog, cls, "weight")


def weight_of(x):
    return ("call", GETATTR, (x, ("attr", SELF, weight_attr())), ())


def total_weight_getter(prog, cls):
    """the private property that sums the children's weights"""
    for nm, fis in cls.methods.items():
        if nm in ("supply", "demand", "utilisation", "allocation", "children"):
            continue
        g = prog.pick(fis, "getter")
        if g is not None and "sum(" in ast.unparse(g.node) and weight_attr() in ast.unparse(g.node):
            return g
    # written out at its uses:  ... / sum(getattr(child, self._weight) for child in self.children)
    # -> read as the getter it would be (every later rule compares the share / fitness terms against this one term)
    from ..index import FuncInfo

    dens = []
    for fis in cls.methods.values():
        for fi in fis:
            for n in ast.walk(fi.node):
                if isinstance(n, ast.BinOp) and isinstance(n.op, (ast.Div, ast.FloorDiv)) and isinstance(n.right, ast.Call) and util.dotted(n.right.func) == "sum" and weight_attr() in ast.unparse(n.right) and "children" in ast.unparse(n.right):
                    dens.append(n.right)
    if dens and len({ast.dump(d) for d in dens}) == 1:
        fn = ast.FunctionDef(name="_total_weight", args=ast.arguments(posonlyargs=[], args=[ast.arg(arg="self")], vararg=None, kwonlyargs=[], kw_defaults=[], kwarg=None, defaults=[]), body=[ast.Return(value=dens[0])], decorator_list=[ast.Name(id="property", ctx=ast.Load())], returns=None, type_comment=None)
        if hasattr(fn, "type_params"):
            fn.type_params = []
        ast.copy_location(fn, dens[0])
        ast.fix_missing_locations(fn)
        return FuncInfo("%s.<total weight>" % cls.qual, fn, cls.module, cls)
    return None


def mul_set(t):
    """factors of a product term"""
    if t[0] == "binop" and t[1] == "*":
        return mul_set(t[2]) + mul_set(t[3])
    return [t]


def composite_rules(chk, qual, weighted):
    prog = chk.program
    cls = prog.cls(qual)
    _PROG.update(prog=prog, cls=cls)
    if weighted:
        _PROG["wcls"] = cls
    getter = prog.pick(cls.methods.get("demand", []), "getter")
    setter = prog.pick(cls.methods.get("demand", []), "setter")
    if getter is None or setter is None:
        raise Undecided("%s.demand is not a property with setter" % qual, cls.node)
    vparam = ("sym", setter.params()[0])
    name = setter.qual

    # total weight term (weighted)
    total = None
    if weighted:
        tw = total_weight_getter(prog, cls)
        if tw is None:
            raise Undecided("no private property summing the children's weights", cls.node)
        outs = make_interp(chk, tw).run()
        rets = {N(o.value) for o in outs if o.kind == "return"}
        if len(rets) > 1 and any(e[0] == "branch" and e[4] == "forked" and e[1][0] == "cmp" for o in outs for e in o.path.events):
            conds = sorted({show(e[1]) for o in outs for e in o.path.events if e[0] == "branch" and e[4] == "forked"})
            chk.bad("O7.3", tw.qual, "the total weight is not the plain sum of the children's weights but depends on %s: small positive weights are treated as zero, shares stop being proportional and the fitness leaves the children's range" % "; ".join(conds), node=tw.node, stmt="total-thresholded")
            return
        if len(outs) != 1 or outs[0].kind != "return":
            raise Undecided("the total weight is not a single expression", tw.node)
        total = N(outs[0].value)
        s = sum_over_children(total)
        chk.count()
        if s is None:
            chk.undecided("O7.3", tw.qual, "total weight is not a sum over the children: %s" % show(total), node=tw.node)
            return
        if check_domain(chk, "O7.2", tw.qual, total, "the total weight", tw.node) is False:
            return
        elt, var = s[0], s[1]
        if elt != weight_of(var):
            chk.bad("O7.3", tw.qual, "the total weight sums %s, not each child's selected weight attribute" % show(elt), node=tw.node, stmt="total-summand")
            return

    # ---- O7.1 read-back identity + distribution on every path ------------------------
    r1 = "O7.1"
    it = make_interp(chk, setter, zde=True, unroll=1)
    outs = it.run()
    chk.count(len(outs))
    ok = True
    rec_attr = None
    gouts = make_interp(chk, getter).run()
    if len(gouts) == 1 and gouts[0].kind == "return" and gouts[0].value[0] == "attr" and gouts[0].value[1] == SELF:
        rec_attr = gouts[0].value
    else:
        chk.bad(r1, getter.qual, "the demand getter does not simply return the stored value: %s" % [show(o.value) for o in gouts if o.value], node=getter.node, stmt="getter")
        ok = False
    shares = {"main": set(), "fallback": set()}
    for o in outs:
        if o.kind not in ("normal", "return"):
            if o.kind == "raise" and o.value == ZDE:
                # an uncaught division by zero is only acceptable without children (uniform composite, documented n >= 1)
                iters = [e for e in o.path.events if e[0] == "loop-iter"]
                if weighted or not iters:
                    chk.bad("O7.5", name, "a ZeroDivisionError escapes the demand setter", node=setter.node, stmt="zde-escapes")
                    ok = False
                continue
            chk.bad(r1, name, "the setter ends by %s" % o.kind, node=setter.node, stmt="exit")
            ok = False
            continue
        stores = [e for e in o.path.events if e[0] == "store"]
        rec = [e for e in stores if rec_attr is not None and e[1] == rec_attr]
        if rec_attr is not None and (len(rec) != 1 or rec[0][2] != vparam):
            chk.bad(r1, name, "the written value is %s the attribute the getter returns (%s)" % ("not stored in" if not rec else "stored modified (%s) in" % show(rec[-1][2]), show(rec_attr)), node=setter.node, stmt="record")
            ok = False
        iters = [e for e in o.path.events if e[0] == "loop-iter"]
        exits = [e for e in o.path.events if e[0] in ("loop-exit", "loop-cut")]
        if not iters and not exits:
            chk.bad(
                "O7.2",
                name,
                "a demand write can complete without reaching the distribution loop (condition: %s): the children's demands then no longer sum to the written value"
                % "; ".join(show(e[1]) for e in o.path.events if e[0] == "branch" and e[4] == "forked"),
                node=setter.node,
                stmt="distribution-skipped",
            )
            ok = False
            continue
        for e in o.path.events:
            if e[0] == "bind" and e[2][0] == "item" and e[2][1] != CHILDREN:
                chk.bad("O7.2", name, "the distribution loop ranges over %s instead of the composite's children" % show(e[2][1]), node=setter.node, stmt="loop-domain")
                ok = False
        if iters:
            cd = [e for e in stores if e[1][0] == "attr" and e[1][2] == "demand" and e[1][1][0] == "item"]
            # exactly one write per iteration, each to the child of that iteration
            per_child = {}
            for e in cd:
                per_child[e[1][1]] = per_child.get(e[1][1], 0) + 1
            if len(cd) != len(iters) or any(v != 1 for v in per_child.values()):
                chk.bad("O7.2", name, "one iteration writes the child's demand %s times" % (sorted(per_child.values()) if per_child else 0), node=setter.node, stmt="child-writes")
                ok = False
                continue
            evs_ = o.path.events
            for e in cd:
                k = evs_.index(e)
                start = max([i for i, x in enumerate(evs_[:k]) if x[0] == "loop-iter"] or [0])
                after = any(x[0] == "caught" for x in evs_[start:k])  # the fallback of THIS iteration
                shares["fallback" if after else "main"].add((N(e[2]), e[1][1]))
    # ---- O7.3 share terms ----------------------------------------------------------------
    r3 = "O7.3"
    for term, child in shares["main"]:
        chk.count()
        if weighted:
            good = term[0] == "binop" and term[1] == "/" and term[3] == total and sorted(map(repr, mul_set(term[2]))) == sorted(map(repr, [vparam, weight_of(child)]))
            alt = term[0] == "binop" and term[1] == "*" and sorted(map(repr, [term[2], term[3]])) == sorted(map(repr, [vparam, ("binop", "/", weight_of(child), total)]))
            if not (good or alt):
                chk.bad(r3, name, "a child's share is %s, not value * weight(child) / total weight with the same weight term as the total's summand" % show(term), node=setter.node, stmt="share %s" % show(term)[:90])
                ok = False
        else:
            if term != ("binop", "/", vparam, COUNT):
                chk.bad(r3, name, "a child's share is %s, not value / number of children" % show(term), node=setter.node, stmt="share %s" % show(term)[:90])
                ok = False
    if weighted:
        if not shares["fallback"]:
            chk.bad("O7.5", name, "a vanishing total weight has no uniform fallback for the demand", node=setter.node, stmt="no-demand-fallback")
            ok = False
        for term, child in shares["fallback"]:
            chk.count()
            if term != ("binop", "/", vparam, COUNT):
                chk.bad("O7.5", name, "the fallback share on zero total weight is %s, not the uniform value / number of children" % show(term), node=setter.node, stmt="fallback-share")
                ok = False
    if not shares["main"]:
        chk.undecided(r3, name, "no share term found", node=setter.node)
        ok = False
    if ok:
        chk.ok(r1, name, "the setter stores its parameter unmodified where the getter reads it and always reaches the distribution loop over self.children", node=setter.node)
        chk.ok(r3, name, "share = %s" % ("value * w(child) / sum(w(c) for c in children); fallback value / n" if weighted else "value / len(children)"), node=setter.node)

    # ---- aggregates: supply, utilisation, allocation (O7.2, O7.4, O7.5) -----------------------
    terms = {}
    for prop in ("supply", "utilisation", "allocation"):
        g = prog.pick(cls.methods.get(prop, []), "getter")
        if g is None:
            chk.bad("O7.4", cls.qual, "the composite does not define %s" % prop, node=cls.node, stmt="missing-%s" % prop)
            continue
        it = make_interp(chk, g, zde=(prop != "supply"))
        outs = it.run()
        chk.count(len(outs))
        main, fallback = [], []
        none_exit = False
        for o in outs:
            if o.kind == "raise":
                chk.bad("O7.5", g.qual, "%s escapes %s" % (show(o.value), prop), node=g.node, stmt="escape-%s" % prop)
                continue
            if o.kind == "normal" or (o.kind == "return" and o.value in (None, ("const", None))):
                chk.bad("O7.4", g.qual, "%s can complete without returning a value (it reads back as None instead of the aggregate over the children)" % prop, node=g.node, stmt="%s-returns-none" % prop)
                none_exit = True
                continue
            if o.kind != "return":
                continue
            fell_back = any(e[0] == "caught" for e in o.path.events)
            (fallback if fell_back else main).append(o)
        if none_exit:
            continue
        if len({N(o.value) for o in main}) != 1:
            # one of the answers is a value REMEMBERED in a field of the composite (a memo keyed by the demand, the
            # number of children, ...): the children report their own supply / allocation at any time, so nothing
            # the composite can observe tells it the memo went stale
            def stored(t):
                t = N(t)
                while t[0] in ("sub", "proj"):
                    t = N(t[1])
                return t[0] == "attr" and t[1] == SELF and t[2] != "children" and prog.lookup_method(cls, t[2], kind="getter") is None

            memo = [o for o in main if stored(o.value)]
            if memo and len(memo) < len(main):
                chk.bad("O7.4", g.qual, "%s answers from a remembered value (%s) on some paths instead of reading the children: a child whose %s changed since is not reflected" % (prop, show(N(memo[0].value)), prop), node=g.node, stmt="%s-memoised" % prop)
                continue
            chk.undecided("O7.4", g.qual, "%s is not a single aggregate expression" % prop, node=g.node)
            continue
        t = N(main[0].value)
        terms[prop] = (t, g)
        good = True
        if prop == "supply":
            s = sum_over_children(t)
            if s is None:
                chk.bad("O7.4", g.qual, "supply is %s, not the sum of the children's supplies" % show(t), node=g.node, stmt="supply-shape")
                continue
            if check_domain(chk, "O7.2", g.qual, t, "the supply sum", g.node) is False:
                continue
            if s[0] != ("attr", s[1], "supply"):
                chk.bad("O7.4", g.qual, "supply sums the children's %s" % show(s[0]), node=g.node, stmt="supply-attr")
                continue
            chk.ok("O7.4", g.qual, "supply = sum(child.supply for child in children)", node=g.node)
            continue
        # fitness
        if not (t[0] == "binop" and t[1] == "/"):
            chk.bad("O7.4", g.qual, "%s is %s, not a (weighted) mean over the children" % (prop, show(t)), node=g.node, stmt="%s-shape" % prop)
            continue
        num, den = t[2], t[3]
        s = sum_over_children(num)
        if s is None:
            chk.bad("O7.4", g.qual, "%s numerator is %s, not a sum over the children" % (prop, show(num)), node=g.node, stmt="%s-numerator" % prop)
            continue
        if check_domain(chk, "O7.2", g.qual, num, "the %s sum" % prop, g.node) is False:
            continue
        elt, var = s[0], s[1]
        if weighted:
            facs = sorted(map(repr, mul_set(elt)))
            want = sorted(map(repr, [("attr", var, prop), weight_of(var)]))
            if facs != want:
                other = [p for p in ("supply", "utilisation", "allocation", "demand") if p != prop and repr(("attr", var, p)) in facs]
                if other and repr(weight_of(var)) in facs:
                    chk.bad("O7.4", g.qual, "%s aggregates the children's %s (copy-paste of the sibling property)" % (prop, other[0]), node=g.node, stmt="%s-wrong-attr" % prop)
                else:
                    chk.bad("O7.3", g.qual, "%s sums %s, not child.%s times the child's selected weight" % (prop, show(elt), prop), node=g.node, stmt="%s-summand" % prop)
                good = False
            if den != total:
                chk.bad("O7.3", g.qual, "%s divides by %s instead of the total weight" % (prop, show(den)), node=g.node, stmt="%s-denominator" % prop)
                good = False
        else:
            if elt != ("attr", var, prop):
                chk.bad("O7.4", g.qual, "%s aggregates the children's %s" % (prop, show(elt)), node=g.node, stmt="%s-wrong-attr" % prop)
                good = False
            if den != COUNT:
                chk.bad("O7.2", g.qual, "%s divides by %s instead of the number of children it sums over" % (prop, show(den)), node=g.node, stmt="%s-denominator" % prop)
                good = False
        # fallback constants
        if not fallback:
            chk.bad("O7.5", g.qual, "%s has no fallback for a vanishing denominator (no children / no weight)" % prop, node=g.node, stmt="%s-no-fallback" % prop)
            good = False
        for o in fallback:
            v = o.value
            if weighted:
                # 0.0 if supply > 0 else 1.0
                sup = terms.get("supply", (None,))[0]
                rel = None
                for (a, b), s_ in o.path.rel.items():
                    if ("const", 0) in (a, b):
                        other = b if a == ("const", 0) else a
                        if sup is None or N(other) == sup:
                            rel = it.get_rel(other, ("const", 0), o.path)
                if rel is None:
                    chk.bad("O7.5", g.qual, "the zero-weight fallback of %s does not depend on the composite's supply" % prop, node=g.node, stmt="%s-fallback-supply" % prop)
                    good = False
                    continue
                want = ("const", 0.0) if rel <= frozenset(">") else (("const", 1.0) if not (rel & frozenset(">")) else None)
                if want is None or v != want or type(v[1]) is not type(want[1]):
                    chk.bad(
                        "O7.5",
                        g.qual,
                        "zero-weight fallback of %s with supply %s 0 is %s (documented: 0.0 when there is supply, 1.0 otherwise)" % (prop, "/".join(sorted(rel)), show(v)),
                        node=g.node,
                        stmt="%s-fallback-value" % prop,
                        input="supply %s 0" % "".join(sorted(rel)),
                    )
                    good = False
            else:
                if v != ("const", 1.0):
                    chk.bad("O7.5", g.qual, "the no-children fallback of %s is %s (documented: 1.0)" % (prop, show(v)), node=g.node, stmt="%s-fallback-value" % prop)
                    good = False
        if good:
            chk.ok("O7.4", g.qual, "%s = %s; fallback as documented" % (prop, show(t)), node=g.node)
    # sibling symmetry
    if "utilisation" in terms and "allocation" in terms:
        chk.count()

        def swap(t):
            if isinstance(t, tuple):
                if t and t[0] == "attr" and t[2] in ("utilisation", "allocation") and t[1][0] == "bound":
                    return ("attr", swap(t[1]), "allocation" if t[2] == "utilisation" else "utilisation")
                return tuple(swap(x) for x in t)
            return t

        if alpha(swap(terms["utilisation"][0])) != alpha(terms["allocation"][0]):
            chk.bad("O7.4", cls.qual, "utilisation and allocation are not the same aggregate under the attribute swap: %s vs %s" % (show(terms["utilisation"][0]), show(terms["allocation"][0])), node=cls.node, stmt="sibling-symmetry")
        else:
            chk.ok("O7.4", cls.qual, "utilisation and allocation are identical under the attribute swap", node=cls.node)


def children_kept(chk, qual):
    """O7.2: every constructor path binds a fresh container of the given children to the instance"""
    prog = chk.program
    init = prog.method(qual, "__init__")
    ok = True
    for o in Interp(prog, init, assert_raises=False).run():
        chk.count()
        if o.kind not in ("normal", "return"):
            continue
        st = [e[2] for e in o.path.events if e[0] == "store" and e[1] == ("attr", SELF, "children")]
        if not st or ("sym", "children") not in list(subterms(st[-1])):
            conds = "; ".join("%s is %s" % (show(e[1]), e[2]) for e in o.path.events if e[0] == "branch" and e[4] == "forked")
            chk.bad("O7.2", init.qual, "the constructor can complete without binding its own list of children to the instance%s: the class-level `children` list is then shared by every such composite" % (" (when %s)" % conds if conds else ""), node=init.node, stmt="children-not-bound")
            ok = False
    # the attribute the demand getter returns exists before the first write (controllers read `target.demand` first)
    cls = prog.cls(qual)
    getter = prog.pick(cls.methods.get("demand", []), "getter")
    gouts = Interp(prog, getter).run() if getter is not None else []
    if len(gouts) == 1 and gouts[0].kind == "return" and gouts[0].value[0] == "attr" and gouts[0].value[1] == SELF:
        rec_attr = gouts[0].value
        for o in Interp(prog, init, assert_raises=False).run():
            chk.count()
            if o.kind in ("normal", "return") and not any(e[0] == "store" and e[1] == rec_attr for e in o.path.events):
                chk.bad("O7.1", init.qual, "the constructor does not initialise %s, which the demand getter returns: reading the composite's demand before the first write (every controller's `target.demand += ...`) raises AttributeError" % show(rec_attr), node=init.node, stmt="demand-not-initialised")
                ok = False
                break
    if ok:
        chk.ok("O7.2", init.qual, "every constructor path binds a fresh container of the given children and initialises the stored demand", node=init.node)


def weight_validation(chk):
    prog = chk.program
    _PROG.update(prog=prog, wcls=prog.cls(WEIGHTED))
    rule = "O7.6"
    init = prog.method(WEIGHTED, "__init__")
    it = Interp(prog, init, assert_raises=True, inline=lambda f, ct: f.qual == "cobald.utility:enforce")
    outs = it.run()
    chk.count(len(outs))
    names = None
    for o in outs:
        if o.kind in ("normal", "return"):
            for k, v in o.path.facts.items():
                if k[0] == "cmp" and k[1] == "in" and k[2] == ("sym", "weight") and v is True and k[3][0] in ("tuple", "list", "set"):
                    names = sorted(x[1] for x in k[3][1] if x[0] == "const")
    if names == ["allocation", "supply", "utilisation"]:
        chk.ok(rule, init.qual, "weight is validated against supply / utilisation / allocation", node=init.node)
    elif names is None:
        chk.bad(rule, init.qual, "the weight argument is not validated against the three attribute names: an arbitrary attribute name is accepted", node=init.node, stmt="weight-unvalidated")
    else:
        chk.bad(rule, init.qual, "the weight argument is validated against %s" % names, node=init.node, stmt="weight-names")
    for o in outs:
        if o.kind in ("normal", "return"):
            st = {e[1][2]: e[2] for e in o.path.events if e[0] == "store" and e[1][1] == SELF}
            if ("sym", "weight") not in st.values():
                chk.bad(rule, init.qual, "the weight attribute name is not stored unchanged", node=init.node, stmt="weight-store")
            ch = st.get("children")
            if ch is None or ("sym", "children") not in list(subterms(ch)):
                chk.bad("O7.2", init.qual, "the constructor does not keep the given children", node=init.node, stmt="children-store")
            break


def run(chk):
    chk.guard("O7.1", UNIFORM, composite_rules, chk, UNIFORM, False)
    chk.guard("O7.1", WEIGHTED, composite_rules, chk, WEIGHTED, True)
    chk.guard("O7.6", WEIGHTED, weight_validation, chk)
    chk.guard("O7.2", UNIFORM, children_kept, chk, UNIFORM)
    chk.guard("O7.2", WEIGHTED, children_kept, chk, WEIGHTED)
