"""C11 -- coroutine payloads of one flavour never run in parallel (who-may-call + contexts)."""
import ast

from .. import query, util
from ..callgraph import CallGraph, LOOP, TRIO, NEWTHREAD, EXECUTOR, ANY
from ..index import dotted
from .. import slots
from ..report import Undecided
from . import common

LOOP_CREATORS_NAMES = {
    "ext:asyncio.new_event_loop", "ext:asyncio.Runner", "ext:asyncio.set_event_loop", "ext:asyncio.SelectorEventLoop",
    "ext:asyncio.ProactorEventLoop", "ext:asyncio.get_event_loop_policy", "ext:asyncio.set_event_loop_policy",
}  # fmt: skip
LOOP_CREATOR_ATTRS = {"run_until_complete", "run_forever", "new_event_loop"}
TRIO_CREATORS = {"ext:trio.lowlevel.start_guest_run", "ext:trio.testing.trio_test"}

CONTROL = '''
import asyncio, trio
def a(): asyncio.run(x())
def b(): loop = asyncio.new_event_loop(); loop.run_until_complete(x())
def c(): trio.run(y)
def d(): trio.lowlevel.start_guest_run(y, run_sync_soon_threadsafe=None, done_callback=None)
def e(): asyncio.get_event_loop().run_forever()
'''


def count_creators(program, modules):
    found = {"asyncio.run": [], "trio.run": [], "other-asyncio": [], "other-trio": []}
    for m, n, r, attr in query.calls(program, modules):
        if r == "ext:asyncio.run":
            found["asyncio.run"].append((m, n))
        elif r == "ext:trio.run":
            found["trio.run"].append((m, n))
        elif r in LOOP_CREATORS_NAMES or attr in LOOP_CREATOR_ATTRS:
            found["other-asyncio"].append((m, n))
        elif r in TRIO_CREATORS:
            found["other-trio"].append((m, n))
    # references that are not calls (trio.run handed to an executor / partial)
    for m, n, r in query.references(program, modules):
        if r == "ext:trio.run" and isinstance(n, ast.Attribute):
            if not any(n is c.func for _m, c in found["trio.run"]):
                found["trio.run"].append((m, n))
        if r == "ext:asyncio.run" and isinstance(n, ast.Attribute):
            if not any(n is c.func for _m, c in found["asyncio.run"]):
                found["asyncio.run"].append((m, n))
    return found


def creators(chk):
    prog = chk.program
    # positive control: the matcher must fire on a tiny embedded example
    ctl = count_creators(prog, [query.adhoc_module(prog, CONTROL)])
    got = {k: len(v) for k, v in ctl.items()}
    if got != {"asyncio.run": 1, "trio.run": 1, "other-asyncio": 3, "other-trio": 1}:
        chk.undecided("O11.1", "<positive control>", "the loop-creation matcher does not recognise its own control example: %s" % got)
        return
    chk.ok("O11.1", "<positive control>", "matcher recognises asyncio.run, new_event_loop, run_until_complete, run_forever, trio.run, start_guest_run in the control snippet")
    found = count_creators(prog, None)
    chk.count(sum(1 for _ in query.calls(prog)))
    meta_run = "cobald.daemon.runners.meta_runner:MetaRunner.run"
    sites = [(query.where(prog, m, n), n) for m, n in found["asyncio.run"]]
    if len(sites) == 1 and sites[0][0] == meta_run:
        chk.ok("O11.1", meta_run, "the only asyncio.run of the package", node=sites[0][1])
    elif not sites:
        chk.bad("O11.1", meta_run, "no asyncio.run found: the event loop of the runtime is not created where expected", stmt="no-asyncio-run")
    else:
        for w, n in sites:
            if w != meta_run:
                chk.bad("O11.1", w, "an additional event loop is started by asyncio.run: asyncio payloads run through it execute in parallel to the runtime's loop", node=n, stmt="extra asyncio.run")
    for m, n in found["other-asyncio"]:
        chk.bad("O11.1", query.where(prog, m, n), "a second event loop is created / driven here (%s): coroutine payloads of the asyncio flavour may then run in two loops at once" % util.unparse(n.func), node=n, stmt="loop-creation %s" % util.unparse(n.func))
    if not found["other-asyncio"]:
        chk.ok("O11.1", "<package>", "zero calls of new_event_loop / run_until_complete / run_forever / asyncio.Runner / set_event_loop")
    # O11.2 trio
    tsites = [(query.where(prog, m, n), m, n) for m, n in found["trio.run"]]
    runners = {c.qual: c for c in util.concrete_runners(prog)}
    if len(tsites) != 1:
        if not tsites:
            chk.bad("O11.2", "<package>", "no trio.run found", stmt="no-trio-run")
        for w, m, n in tsites[1:] if tsites and tsites[0][0].split(".")[0] in {q for q in runners} else tsites:
            pass
        if len(tsites) > 1:
            for w, m, n in tsites:
                fi = prog.functions.get(w)
                if fi is None or fi.cls is None or fi.cls.qual not in runners or fi.name == "run_payload" or fi.name == "register_payload":
                    chk.bad("O11.2", w, "an additional trio run is started here: trio payloads run through it execute in parallel to the runtime's single trio run", node=n, stmt="extra trio.run")
            if not any(ob.rule == "O11.2" for ob in chk.obs):
                chk.bad("O11.2", "<package>", "%d trio.run sites: %s" % (len(tsites), [w for w, _m, _n in tsites]), stmt="trio-run-count")
        return None
    w, m, n = tsites[0]
    fi = prog.functions.get(w)
    if fi is None or fi.cls is None or fi.cls.qual not in runners:
        chk.bad("O11.2", w, "the single trio.run is not inside a runner", node=n, stmt="trio-run-location")
        return None
    for mm, nn in found["other-trio"]:
        chk.bad("O11.2", query.where(prog, mm, nn), "a guest-mode trio run is started here", node=nn, stmt="guest-run")
    mp = prog.lookup_method(fi.cls, "manage_payloads")
    ok = True
    par_fi = util.parents_map(fi.node)
    if not isinstance(n, ast.Call):
        # trio.run is HANDED to something: accepted only as  run_in_executor(<executor>, trio.run, <entry coroutine function>)
        up = par_fi.get(id(n))
        handed_ok = isinstance(up, ast.Call) and isinstance(up.func, ast.Attribute) and up.func.attr == "run_in_executor" and len(up.args) >= 3 and up.args[1] is n
        if not handed_ok:
            chk.bad("O11.2", w, "trio.run is handed to %s: not the run_in_executor(None, trio.run, <entry>) form" % (util.unparse(up)[:80] if up is not None else "?"), node=n, stmt="trio-run-handed")
            ok = False
        elif fi is not mp:
            chk.bad("O11.2", w, "the trio run is started through an executor from %s instead of manage_payloads" % fi.name, node=n, stmt="trio-run-start")
            ok = False
        elif util.enclosing(par_fi, up, (ast.For, ast.While, ast.AsyncFor)) is not None:
            chk.bad("O11.2", w, "the trio run is started inside a loop", node=n, stmt="trio-run-loop")
            ok = False
        elif not isinstance(par_fi.get(id(up)), ast.Await):
            chk.bad("O11.2", w, "the executor future of the trio run is not awaited by manage_payloads", node=n, stmt="trio-run-not-awaited")
            ok = False
        if ok:
            chk.ok("O11.2", w, "exactly one trio.run, handed once per runner run to run_in_executor by manage_payloads", node=n)
            fi._trio_entry_args = [up.args[2]]
        return fi if ok else None
    # the function containing trio.run(...) is referenced exactly once: as the callable of run_in_executor in manage_payloads
    refs = []
    for mm in prog.modules.values():
        for x in ast.walk(mm.tree):
            if isinstance(x, ast.Attribute) and x.attr == fi.name and not isinstance(x.ctx, ast.Store):
                refs.append((mm, x))
    chk.count(len(refs))
    if fi is mp or fi.is_async:
        chk.bad("O11.2", w, "trio.run is called directly in %s: it blocks the asyncio loop thread" % fi.name, node=n, stmt="trio-run-blocks-loop")
        ok = False
    elif len(refs) != 1:
        chk.bad("O11.2", w, "%s (which starts the trio run) is referenced %d times: the trio run can be started more than once per runner run" % (fi.name, len(refs)), node=n, stmt="trio-run-refs")
        ok = False
    else:
        mm, x = refs[0]
        encl = prog.enclosing_function(mm, x)
        parent_calls = [c for c in ast.walk(encl.node) if isinstance(c, ast.Call) and any(a is x for a in c.args)]
        if encl is not mp or not parent_calls or not (isinstance(parent_calls[0].func, ast.Attribute) and parent_calls[0].func.attr == "run_in_executor"):
            chk.bad("O11.2", w, "%s is not started through run_in_executor from manage_payloads (found in %s)" % (fi.name, encl.qual), node=x, stmt="trio-run-start")
            ok = False
        else:
            # not inside a loop
            par = util.parents_map(encl.node)
            if util.enclosing(par, parent_calls[0], (ast.For, ast.While, ast.AsyncFor)) is not None:
                chk.bad("O11.2", w, "the trio run is started inside a loop", node=x, stmt="trio-run-loop")
                ok = False
    if ok:
        chk.ok("O11.2", w, "exactly one trio.run, started once per runner run through run_in_executor from manage_payloads", node=n)
    fi._trio_entry_args = [n.args[0]] if n.args else []
    if n.args and isinstance(n.args[0], ast.Name) and n.args[0].id in fi.params(skip_self=False):
        # the entry coroutine is handed in:  run_in_executor(None, self._run_blocking, self.<entry>)
        ts = common.trio_structure(prog, fi.cls)
        if ts is not None and ts["entry_handed"]:
            entry_ref = ast.Attribute(value=ast.Name(id="self", ctx=ast.Load()), attr=ts["entry"].name, ctx=ast.Load())
            fi._trio_entry_args = [ast.copy_location(entry_ref, n)]
    return fi


def trio_owned(prog, cls, entry_names):
    """the entry coroutine function(s) of the trio run plus the own methods that are ONLY called (awaited) from them"""
    own = set(entry_names)
    changed = True
    while changed:
        changed = False
        for fis in cls.methods.values():
            for f in fis:
                if f.name in own:
                    continue
                refs = []
                for g_ in (x for xs in cls.methods.values() for x in xs):
                    par = util.parents_map(g_.node)
                    for x in ast.walk(g_.node):
                        if isinstance(x, ast.Attribute) and x.attr == f.name and isinstance(x.value, ast.Name) and x.value.id == "self":
                            up = par.get(id(x))
                            called = isinstance(up, ast.Call) and up.func is x
                            awaited = called and isinstance(par.get(id(up)), ast.Await)
                            refs.append((g_.name, awaited if f.is_async else called))
                if refs and all(name in own and good for name, good in refs):
                    own.add(f.name)
                    changed = True
    return own


def routing(chk, trio_entry):
    """O11.3: every start of a coroutine payload targets the runner's own loop / token, each assigned once"""
    prog = chk.program
    rule = "O11.3"
    base = prog.cls(util.BASE_RUNNER)
    # asyncio_loop: assigned once, in BaseRunner.__init__, from the constructor parameter
    stores = []
    for c in prog.classes.values():
        if util.BASE_RUNNER in c.mro:
            for n in c.fields.get("asyncio_loop", []):
                stores.append((c, n))
    chk.count(len(stores))
    if len(stores) != 1 or stores[0][0] is not base or not isinstance(stores[0][1].value, ast.Name):
        chk.bad(rule, base.qual, "the runners' event loop attribute is assigned %d times (required: once, from the constructor argument)" % len(stores), node=stores[-1][1] if stores else base.node, stmt="asyncio_loop-stores")
    else:
        chk.ok(rule, base.qual, "self.asyncio_loop is assigned once from the constructor argument", node=stores[0][1])
    # the loop handed to the runners is the running loop obtained inside _manage_runners' coroutine
    launch = slots.launcher(prog)
    src = None
    for n in ast.walk(launch.node):
        if isinstance(n, ast.Assign) and isinstance(n.value, ast.Call) and prog.resolve(launch.module, n.value.func) in ("ext:asyncio.get_event_loop", "ext:asyncio.get_running_loop"):
            src = n
    ctor_args_ok = False
    if src is not None:
        var = src.targets[0].id if isinstance(src.targets[0], ast.Name) else None
        type_vars = {f.target.id for f in ast.walk(launch.node) if isinstance(f, ast.For) and isinstance(f.target, ast.Name) and "runner_types" in util.unparse(f.iter)}
        for n in ast.walk(launch.node):
            if isinstance(n, ast.Call) and isinstance(n.func, ast.Name) and n.func.id in type_vars and n.args and isinstance(n.args[0], ast.Name) and n.args[0].id == var:
                ctor_args_ok = True
    if launch.is_async and ctor_args_ok:
        chk.ok(rule, launch.qual, "every runner receives the loop obtained inside the running event loop", node=src)
    else:
        chk.bad(rule, launch.qual, "the runners are not constructed with the loop that is running _launch_runners", node=launch.node, stmt="loop-source")
    # trio token: None initialiser + one assignment from current_trio_token() inside the function run by trio.run
    if trio_entry is not None:
        cls = trio_entry.cls
        toks = cls.fields.get(slots.trio_token(prog, cls), [])
        good = True
        real = []
        for n in toks:
            v = n.value
            if isinstance(v, ast.Constant) and v.value is None:
                continue
            real.append(n)
        chk.count(len(toks))
        entry_targets = set()
        for a in getattr(trio_entry, "_trio_entry_args", []):
            d = dotted(a)
            if d and d.startswith("self."):
                entry_targets.add(d.split(".", 1)[1])
        owned = trio_owned(prog, cls, entry_targets)
        if len(real) != 1:
            good = False
            chk.bad(rule, cls.qual, "the trio token is assigned %d times (required: once, inside the single trio run)" % len(real), node=real[-1] if real else cls.node, stmt="token-stores")
        else:
            n = real[0]
            fn = prog.enclosing_function(cls.module, n)
            if not (isinstance(n.value, ast.Call) and prog.resolve(cls.module, n.value.func) == "ext:trio.lowlevel.current_trio_token" and fn is not None and fn.name in owned):
                good = False
                chk.bad(rule, cls.qual, "the trio token is not taken from current_trio_token() inside the function run by trio.run", node=n, stmt="token-source")
        # trio payloads are only started by start_soon on the nursery opened in that function
        starts = []
        for fis in cls.methods.values():
            for f in fis:
                for n in ast.walk(f.node):
                    if isinstance(n, ast.Call) and isinstance(n.func, ast.Attribute) and n.func.attr in ("start_soon", "start"):
                        starts.append((f, n))
        for f, n in starts:
            chk.count()
            if f.name not in owned:
                good = False
                chk.bad(rule, f.qual, "a trio payload is started outside the function(s) that make up the single trio run", node=n, stmt="start-outside")
        # one nursery for all payloads: opened once, not inside a loop, in the functions that make up the trio run
        nurseries = []
        for fis in cls.methods.values():
            for f in fis:
                par = util.parents_map(f.node)
                for n in ast.walk(f.node):
                    if isinstance(n, ast.Call) and prog.resolve(cls.module, n.func) == "ext:trio.open_nursery":
                        nurseries.append((f, n, util.enclosing(par, n, (ast.For, ast.While, ast.AsyncFor)) is not None))
        if starts and (len(nurseries) != 1 or nurseries[0][2] or nurseries[0][0].name not in owned):
            good = False
            chk.bad(rule, cls.qual, "the trio payloads are not all children of ONE nursery opened once inside the trio run (%d open_nursery sites%s)" % (len(nurseries), ", one inside a loop" if any(x[2] for x in nurseries) else ""), node=nurseries[-1][1] if nurseries else cls.node, stmt="nursery-count")
        if good:
            chk.ok(rule, cls.qual, "the trio token is assigned once from current_trio_token() inside the single run; payloads start only on its nursery", node=cls.node)


def context_rule(chk):
    """O11.4: payload invocations run in the context of their flavour only"""
    prog = chk.program
    rule = "O11.4"
    g = CallGraph(prog)
    chk.facts["call graph"] = g.stats()
    want = {"ext:asyncio": {LOOP}, "ext:trio": {TRIO}, "ext:threading": {NEWTHREAD}}
    n = 0
    for cls in util.concrete_runners(prog):
        fl = prog.resolve(cls.module, cls.class_attrs.get("flavour")) if cls.class_attrs.get("flavour") is not None else None
        facts = common.runner_facts(prog, cls)
        if fl not in want:
            chk.undecided(rule, cls.qual, "runner flavour %s unknown" % fl, node=cls.node)
            continue
        if not facts["monitors"]:
            chk.undecided(rule, cls.qual, "no method invoking the payload found", node=cls.node)
            continue
        for mname in facts["monitors"]:
            fi = common.monitor_fi(prog, cls, mname)
            ctx = set(g.contexts.get(fi.qual, ()))
            n += 1
            chk.count()
            if ctx == want[fl]:
                chk.ok(rule, fi.qual, "payloads of flavour %s are invoked only in context %s" % (fl.split(":")[-1], sorted(ctx)), node=fi.node)
            elif not ctx:
                chk.bad(rule, fi.qual, "the payload monitor is never started by any spawn primitive", node=fi.node, stmt="monitor-unreachable")
            else:
                chk.bad(
                    rule,
                    fi.qual,
                    "payloads of flavour %s are invoked in context(s) %s (required: %s only): %s"
                    % (fl.split(":")[-1], sorted(ctx), sorted(want[fl]), "thread payloads would block a coroutine thread" if fl == "ext:threading" else "coroutine payloads of one flavour could run on two threads"),
                    node=fi.node,
                    stmt="context %s" % sorted(ctx),
                )
        # the monitor calls the payload itself; handing it on to a spawn primitive moves it (or its synchronous part)
        # to that primitive's context
        for mname in facts["monitors"]:
            fi = common.monitor_fi(prog, cls, mname)
            params = set(fi.params())
            for caller, node, prim, ctx, _tg in g.spawn_sites:
                if caller is not fi:
                    continue
                _p, _c, carried = g._primitive(fi, node)
                for a in carried or []:
                    inner = a.value if isinstance(a, ast.Starred) else a
                    names = {x.id for x in ast.walk(inner) if isinstance(x, ast.Name)} & params
                    called = isinstance(inner, ast.Call) and isinstance(inner.func, ast.Name) and inner.func.id in params
                    if names and not called and {ctx} != want[fl]:
                        chk.count()
                        chk.bad(
                            rule,
                            fi.qual,
                            "the payload is handed to %s, which runs it in context %s instead of %s: %s" % (prim.split(":")[-1].replace("ext:", ""), ctx, sorted(want[fl]), "the synchronous part of a coroutine payload then executes on another thread, in parallel with the payloads of its flavour" if fl != "ext:threading" else "thread payloads would block a coroutine thread"),
                            node=node,
                            stmt="payload handed to %s" % prim,
                        )
        # one Thread per registered thread payload
        if fl == "ext:threading":
            reg = prog.lookup_method(cls, "register_payload")
            threads = [c for c in ast.walk(reg.node) if isinstance(c, ast.Call) and prog.resolve(reg.module, c.func) == "ext:threading.Thread"]
            par = util.parents_map(reg.node)
            if len(threads) != 1 or util.enclosing(par, threads[0], (ast.For, ast.While)) is not None:
                chk.bad(rule, reg.qual, "register_payload does not create exactly one thread per payload (%d Thread constructions)" % len(threads), node=reg.node, stmt="thread-count")
            else:
                started = any(isinstance(c, ast.Call) and isinstance(c.func, ast.Attribute) and c.func.attr == "start" for c in ast.walk(reg.node))
                if not started:
                    chk.bad(rule, reg.qual, "the payload thread is never started", node=reg.node, stmt="thread-not-started")
                else:
                    chk.ok(rule, reg.qual, "one started thread per registered thread payload", node=threads[0])
    chk.floor(rule, n, 3)


BLOCKING_ATTRS = {"acquire", "join", "wait", "wait_for"}
BLOCKING_NAMES = {"ext:time.sleep", "ext:threading.Barrier.wait", "ext:concurrent.futures.wait"}

BLOCK_CONTROL = '''
import threading, time
class R:
    def f(self):
        self._slots.acquire()
        self._lock.acquire(blocking=False)
        self._done.wait()
        time.sleep(1)
        self.thread.join()
    async def g(self):
        await self._ready.wait()
'''


def blocking_calls(prog, mod, fnode):
    """non-awaited calls of blocking threading primitives inside one function"""
    awaited = {id(n.value) for n in util.walk_no_nested(fnode) if isinstance(n, ast.Await)}
    out = []
    for n in util.walk_no_nested(fnode):
        if not isinstance(n, ast.Call) or id(n) in awaited:
            continue
        r = prog.resolve(mod, n.func)
        if r in BLOCKING_NAMES:
            out.append((n, r[4:]))
            continue
        if isinstance(n.func, ast.Attribute) and n.func.attr in BLOCKING_ATTRS and not (r or "").startswith("cobald"):
            kws = {k.arg: k.value for k in n.keywords}
            if n.func.attr == "acquire":
                nb = kws.get("blocking", n.args[0] if n.args else None)
                if isinstance(nb, ast.Constant) and nb.value is False:
                    continue
                to = kws.get("timeout")
                if isinstance(to, ast.Constant) and to.value == 0:
                    continue
            if n.func.attr == "join" and (n.args or isinstance(n.func.value, ast.Constant)):
                continue  # str.join(iterable); Thread.join takes no positional argument here
            recv = util.unparse(n.func.value)
            if recv.split(".")[0] in ("asyncio", "trio"):
                continue
            out.append((n, "%s.%s()" % (recv, n.func.attr)))
    return out


def no_blocking(chk):
    """O11.5: nothing that runs on the loop thread or the trio thread blocks on a threading primitive"""
    prog = chk.program
    rule = "O11.5"
    ctl = query.adhoc_module(prog, BLOCK_CONTROL)
    cls = [n for n in ctl.tree.body if isinstance(n, ast.ClassDef)][0]
    f, g = cls.body[0], cls.body[1]
    if len(blocking_calls(prog, ctl, f)) != 4 or blocking_calls(prog, ctl, g):
        chk.undecided(rule, "<positive control>", "the blocking-call matcher does not behave as expected on its control example")
        return
    chk.ok(rule, "<positive control>", "matcher finds acquire()/wait()/sleep()/join() and ignores acquire(blocking=False) and awaited waits")
    g = CallGraph(prog)
    n = 0
    bad = 0
    for fi in g.funcs:
        ctx = g.contexts.get(fi.qual, set())
        if not (ctx & {LOOP, TRIO}):
            continue
        n += 1
        for node, what in blocking_calls(prog, fi.module, fi.node):
            chk.count()
            bad += 1
            chk.bad(
                rule,
                fi.qual,
                "%s blocks the calling thread, and this function runs in context %s: while it waits, every coroutine payload of that flavour is stalled (e.g. by blocked thread payloads)"
                % (what, sorted(ctx & {LOOP, TRIO})),
                node=node,
                stmt="blocking %s" % what,
            )
    chk.floor(rule, n, 20)
    if not bad:
        chk.ok(rule, "<package>", "none of the %d functions that run on the loop / trio thread calls a blocking threading primitive" % n)


LOCK_CTORS = {"ext:threading.Lock", "ext:threading.RLock", "ext:threading.Condition", "ext:threading.Semaphore", "ext:threading.BoundedSemaphore"}
WAIT_ATTRS = {"result", "join", "wait", "acquire", "get", "run_payload", "execute"}
WAIT_NAMES = {"ext:trio.from_thread.run", "ext:trio.from_thread.run_sync", "ext:time.sleep", "ext:concurrent.futures.wait", "ext:asyncio.run"}

LOCK_CONTROL = '''
import threading, functools
def locked(method):
    @functools.wraps(method)
    def wrapper(self, *args, **kwargs):
        with self._guard:
            return method(self, *args, **kwargs)
    return wrapper
class K:
    def __init__(self):
        self._guard = threading.RLock()
        self._other = threading.Lock()
    @locked
    def waits(self, fut):
        return fut.result()
    def quick(self):
        with self._other:
            self.n = 1
    def direct(self, fut):
        with self._other:
            fut.result()
'''


def lock_sections(prog, modules):
    """(lock name, FuncInfo-or-node owner name, with-body statements, function node) for every `with <threading lock>` --
    directly in a function, or around the wrapped call in a decorator applied to it"""
    locks = set()
    for m in modules:
        for n in ast.walk(m.tree):
            if isinstance(n, (ast.Assign, ast.AnnAssign)) and isinstance(n.value, ast.Call) and prog.resolve(m, n.value.func) in LOCK_CTORS:
                for t in n.targets if isinstance(n, ast.Assign) else [n.target]:
                    if isinstance(t, ast.Attribute):
                        locks.add(t.attr)
                    elif isinstance(t, ast.Name):
                        locks.add(t.id)

    def lock_of(expr):
        d = dotted(expr) or ""
        last = d.split(".")[-1]
        return last if last in locks else None

    sections = []
    decorators = {}  # decorator function name -> (lock, wrapper node)
    for m in modules:
        for f in ast.walk(m.tree):
            if not isinstance(f, (ast.FunctionDef, ast.AsyncFunctionDef)):
                continue
            for w in util.walk_no_nested(f):
                if isinstance(w, (ast.With, ast.AsyncWith)):
                    for item in w.items:
                        lk = lock_of(item.context_expr)
                        if lk:
                            sections.append((lk, m, f, w.body))
        # decorator shape: def deco(method): def wrapper(...): with <lock>: return method(...)
        for f in m.tree.body:
            if isinstance(f, ast.FunctionDef) and f.args.args:
                wrapped = f.args.args[0].arg
                for inner in f.body:
                    if isinstance(inner, ast.FunctionDef):
                        for w in ast.walk(inner):
                            if isinstance(w, (ast.With, ast.AsyncWith)):
                                for item in w.items:
                                    lk = lock_of(item.context_expr)
                                    if lk and any(isinstance(c, ast.Call) and isinstance(c.func, ast.Name) and c.func.id == wrapped for st in w.body for c in ast.walk(st)):
                                        decorators[f.name] = lk
    for m in modules:
        for f in ast.walk(m.tree):
            if isinstance(f, (ast.FunctionDef, ast.AsyncFunctionDef)):
                for d in f.decorator_list:
                    name = (dotted(d.func if isinstance(d, ast.Call) else d) or "").split(".")[-1]
                    if name in decorators:
                        sections.append((decorators[name], m, f, f.body))
    return locks, sections


def waits_in(prog, m, stmts):
    out = []
    for st in stmts:
        awaited = {id(n.value) for n in ast.walk(st) if isinstance(n, ast.Await)}
        for c in ast.walk(st):
            if not isinstance(c, ast.Call) or id(c) in awaited:
                continue
            r = prog.resolve(m, c.func)
            if r in WAIT_NAMES:
                out.append(util.unparse(c.func))
            elif isinstance(c.func, ast.Attribute) and c.func.attr in WAIT_ATTRS and not (r or "").startswith("ext:builtins"):
                kws = {k.arg for k in c.keywords}
                if c.func.attr in ("result", "get", "wait", "join", "acquire") and (c.args or kws & {"timeout", "blocking", "block"}):
                    continue  # bounded / keyed (dict.get(key), join(iterable))
                out.append(util.unparse(c.func))
    return out


def lock_across_wait(chk):
    """O11.6: no lock that code on the loop thread / trio thread takes is held elsewhere across an unbounded wait
    (execute's wait for its payload, a join, a blocking from_thread call)"""
    prog = chk.program
    rule = "O11.6"
    ctl = query.adhoc_module(prog, LOCK_CONTROL)
    locks, secs = lock_sections(prog, [ctl])
    got = sorted((lk, f.name, bool(waits_in(prog, ctl, body))) for lk, _m, f, body in secs)
    if locks != {"_guard", "_other"} or got != [("_guard", "waits", True), ("_guard", "wrapper", False), ("_other", "direct", True), ("_other", "quick", False)]:
        chk.undecided(rule, "<positive control>", "the lock-section matcher does not behave as expected on its control example: %s" % got)
        return
    chk.ok(rule, "<positive control>", "matcher finds with-lock sections (direct and through a wrapping decorator) and the unbounded waits inside them")
    mods = [m for m in prog.modules.values() if m.name.startswith("cobald")]
    locks, secs = lock_sections(prog, mods)
    g = CallGraph(prog)
    chk.count(len(secs))
    by_lock = {}
    for lk, m, f, body in secs:
        qual = query.where(prog, m, f.body[0]) if f.body else None
        fi = prog.functions.get(qual) if qual else None
        ctx = set(g.contexts.get(fi.qual, ())) if fi is not None else set()
        # waits directly in the section or in the package functions it calls
        w = waits_in(prog, m, body)
        if fi is not None:
            ltypes = g.local_types(fi)
            start = set()
            for st in body:
                for c in ast.walk(st):
                    if isinstance(c, ast.Call):
                        for t in g.targets(fi, c.func, ltypes):
                            if not t.is_async:
                                start.add(t.qual)
            for q in g.reachable(sorted(start)):
                cf = prog.functions.get(q)
                # the submission hop of register_payload (from_thread.run(send) into the unbounded channel, O3.8) is bounded
                if cf is not None and not cf.is_async and cf.name != "register_payload":
                    w += ["%s -> %s" % (cf.name, x) for x in waits_in(prog, cf.module, cf.node.body)]
        by_lock.setdefault(lk, []).append((fi, f, ctx, w))
    bad = False
    for lk, items in sorted(by_lock.items()):
        holders = [(fi, f, w) for fi, f, ctx, w in items if w]
        loopers = [(fi, f, ctx) for fi, f, ctx, w in items if ctx & {LOOP, TRIO}]
        for hfi, hf, w in holders:
            for lfi, lf, ctx in loopers:
                bad = True
                chk.bad(
                    rule,
                    (hfi.qual if hfi else hf.name),
                    "the lock `%s` is held in %s across an unbounded wait (%s) and is also taken in %s, which runs in context %s: while a thread waits there (e.g. in execute for a blocking payload), every coroutine payload that reaches %s stalls"
                    % (lk, hf.name, w[0], lf.name, sorted(ctx & {LOOP, TRIO}), lf.name),
                    node=hf,
                    stmt="lock %s held across wait; taken on %s" % (lk, sorted(ctx & {LOOP, TRIO})),
                )
    if not bad:
        chk.ok(rule, "<package>", "%d threading locks, %d lock sections: none is both held across an unbounded wait and taken on the loop / trio thread" % (len(locks), len(secs)))


def run(chk):
    chk.guard("O11.6", "<locks>", lock_across_wait, chk)
    chk.guard("O11.5", "<blocking>", no_blocking, chk)
    entry = chk.guard("O11.1", "<package>", creators, chk)
    chk.guard("O11.3", "<routing>", routing, chk, entry)
    chk.guard("O11.4", "<contexts>", context_rule, chk)
    # "executed" payloads are coroutine payloads of the runtime too: each runner routes them into ITS OWN loop / trio
    # run (the runner's loop, the runner's token -- O10.4 / O10.5, shared with C10); a missing or foreign token lets
    # trio pick whatever run the calling thread belongs to
    from . import c10

    res = chk.guard("O10.4", "<execute chain>", c10.chain_functions, chk)
    if res:
        chk.guard("O10.4", "<leaves>", c10.leaves, chk, res[0])
    # "one event loop / one trio run per runtime": a second accept must be refused without disturbing the first -- a refused
    # caller that releases the guard lets a third accept start a second loop next to the running one (shared with C12)
    from . import c12

    chk.guard("O12.1", c12.GUARD, c12.lock_pairing, chk)
