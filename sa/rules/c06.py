"""C06 -- Standardiser keeps the forwarded demand within its limits (order / orientation clauses only)."""
import ast
import itertools

from .. import util
from ..interp import Interp, Path, show, subterms, strip_sites
from ..report import Undecided

STD = "cobald.decorator.standardiser:Standardiser"
SELF = ("sym", "self")
TARGET = ("attr", SELF, "target")
SUPPLY = ("attr", TARGET, "supply")


def weak_orderings(atoms):
    """all weak orderings of atoms as {(a,b): '<'|'='|'>'} (ranks assignment)"""
    n = len(atoms)
    seen = set()
    for ranks in itertools.product(range(n), repeat=n):
        # canonical: ranks used must be 0..k
        used = sorted(set(ranks))
        canon = tuple(used.index(r) for r in ranks)
        if canon in seen:
            continue
        seen.add(canon)
        rel = {}
        for i in range(n):
            for j in range(n):
                if i != j:
                    rel[(atoms[i], atoms[j])] = "<" if canon[i] < canon[j] else (">" if canon[i] > canon[j] else "=")
        yield canon, rel


def run_with_order(prog, fi, rel, **kw):
    it = Interp(prog, fi, **kw)
    p = Path()
    for (a, b), r in rel.items():
        it.set_rel(a, b, frozenset(r), p)
    return it, it.run(path=p)


def clamp_roles(chk, fi):
    """find (low, value, high) parameter roles under which fi is a clamp; None if it is not one"""
    prog = chk.program
    params = [("sym", p) for p in fi.params(skip_self=False)]
    if len(params) != 3:
        return None, "helper takes %d parameters" % len(params)
    table = {}
    for canon, rel in weak_orderings(params):
        it, outs = run_with_order(prog, fi, rel)
        chk.count()
        if len(outs) != 1 or outs[0].kind != "return":
            return None, "not a single deterministic return under ordering %s" % (canon,)
        res = outs[0].value
        if res not in params:
            return None, "returns %s, which is none of its arguments" % show(res)
        table[canon] = params.index(res)
    why = None
    for lo, va, hi in itertools.permutations(range(3)):
        good = True
        for canon, res in table.items():
            if canon[lo] > canon[hi]:
                continue  # low <= high is the precondition
            r = canon[res]
            if not (canon[lo] <= r <= canon[hi]):
                good = False
                why = "for low%svalue, value%shigh the result is outside [low, high]" % (_sym(canon[lo], canon[va]), _sym(canon[va], canon[hi]))
                break
            if canon[lo] <= canon[va] <= canon[hi] and r != canon[va]:
                good = False
                why = "a value inside [low, high] is not returned unchanged"
                break
            if r != sorted((canon[lo], canon[va], canon[hi]))[1]:
                good = False
                why = "a value outside [low, high] is not moved to the NEAREST bound (value below low must give low, above high must give high)"
                break
        if good:
            return (lo, va, hi), table
    return None, why or "no role assignment makes it a clamp"


def _sym(a, b):
    return "<" if a < b else (">" if a > b else "=")


def discover(chk):
    prog = chk.program
    cls = prog.cls(STD)
    setter = prog.pick(cls.methods.get("demand", []), "setter")
    getter = prog.pick(cls.methods.get("demand", []), "getter")
    if setter is None or getter is None:
        raise Undecided("Standardiser.demand is not a property with getter and setter", cls.node)
    return cls, getter, setter


def setter_terms(chk, cls, setter):
    prog = chk.program

    def inline(f, ct):
        return f.cls is cls  # own helper methods; module-level pure helpers stay as call terms

    # every READ of the target's supply is its own observation (a pool may report a different supply each time):
    # ("obs", <supply term>, n); a local bound to one read shares that observation wherever it is used
    def attr_hook(it_, path, base, attr, node):
        if attr == "supply" and base[0] == "attr" and base[2] == "target":
            path.counter += 1
            return ("obs", ("attr", base, attr), path.counter)
        return None

    it = Interp(prog, setter, inline=inline, attr_hook=attr_hook)
    outs = it.run()
    return it, outs


def deobs(t):
    """the term with every observation replaced by what was observed"""
    if not isinstance(t, tuple):
        return t
    if t and t[0] == "obs" and len(t) == 3:
        return deobs(t[1])
    return tuple(deobs(x) for x in t)


def observations(t):
    return {x[2] for x in subterms(t) if isinstance(x, tuple) and x and x[0] == "obs" and len(x) == 3}


def is_call_to(t, qual):
    return t[0] == "call" and t[1] == ("glob", qual)


def sanitiser_order(chk):
    prog = chk.program
    cls, getter, setter = discover(chk)
    name = setter.qual
    vparam = ("sym", setter.params()[0])
    it, outs = setter_terms(chk, cls, setter)
    chk.count(len(outs))
    # discover the helpers from the stored terms
    helper_quals = set()
    for o in outs:
        for e in o.path.events:
            if e[0] == "store":
                for s in subterms(e[2]):
                    if s[0] == "call" and s[1][0] == "glob" and s[1][1] in prog.functions and prog.functions[s[1][1]].cls is None:
                        helper_quals.add(s[1][1])
    clamps, floors = {}, {}
    for q in sorted(helper_quals):
        fi = prog.functions[q]
        if len(fi.params(skip_self=False)) == 3:
            roles, info = clamp_roles(chk, fi)
            if roles is None:
                chk.bad("O6.1", q, "the three-argument helper used by the demand setter is not a clamp: %s" % info, node=fi.node, stmt="not-a-clamp")
            else:
                clamps[q] = roles
                chk.ok("O6.1", q, "clamp over all 13 weak orderings of its arguments: result is low/value/high, inside [low, high], identity inside; roles (low,value,high)=%s" % (roles,), node=fi.node, input="13 weak orderings")
        elif len(fi.params(skip_self=False)) == 2:
            floors[q] = fi
    if not clamps:
        chk.undecided("O6.1", name, "no clamp helper discovered in the terms stored by the demand setter", node=setter.node)
        return
    # O6.3 floor helper
    for q, fi in floors.items():
        floor_shape(chk, fi)

    def positional(t, q):
        """positional + keyword arguments of a call to helper q, ordered by q's parameters"""
        names = prog.functions[q].params(skip_self=False)
        args = list(t[2])
        kw = dict((k, v) for k, v in t[3] if k)
        if any(k is None for k, _v in t[3]) or any(a[0] == "star" for a in args):
            return None
        out = []
        for i, nm in enumerate(names):
            if i < len(args):
                out.append(args[i])
            elif nm in kw:
                out.append(kw[nm])
            else:
                return None
        return out

    def parse_clamp(t):
        for q, (lo, va, hi) in clamps.items():
            if is_call_to(t, q):
                a = positional(t, q)
                if a is not None and len(a) == 3:
                    return a[lo], a[va], a[hi]
        return None

    def parse_floor(t):
        for q, fi in floors.items():
            if is_call_to(t, q):
                a = positional(t, q)
                return a if a is not None else list(t[2]) + [v for _n, v in t[3]]
        return None

    MIN, MAX = ("attr", SELF, "minimum"), ("attr", SELF, "maximum")
    BACK, SUR, GRAN = ("attr", SELF, "backlog"), ("attr", SELF, "surplus"), ("attr", SELF, "granularity")
    LOWB = ("binop", "-", SUPPLY, BACK)
    HIGHB = ("binop", "+", SUPPLY, SUR)
    HIGHB2 = ("binop", "+", SUR, SUPPLY)

    def check_value(t, what, floored_required, label):
        """t must be clamp(min, clamp(supply-backlog, X, supply+surplus), max) with X = value or floor(value, g)"""
        rule = "O6.2"
        # both edges of the supply window come from ONE observation of the target's supply
        for c_ in subterms(t):
            pc = parse_clamp(c_) if isinstance(c_, tuple) else None
            if pc is not None and observations(pc[0]) and observations(pc[2]) and observations(pc[0]) != observations(pc[2]):
                chk.bad(
                    rule,
                    name,
                    "%s: the lower and the upper edge of the supply window (%s .. %s) come from two different reads of the target's supply: with a supply that changes between the reads the value can lie outside every window the pool ever reported" % (what, show(deobs(strip_sites(pc[0]))), show(deobs(strip_sites(pc[2])))),
                    node=setter.node,
                    stmt="%s: supply-read-twice" % what,
                    input=label,
                )
                return False
        t = deobs(t)
        outer = parse_clamp(t)
        if outer is None:
            # something wraps / replaces the outer clamp
            inner_clamps = [s for s in subterms(t) if parse_clamp(s) is not None]
            if inner_clamps:
                chk.bad(
                    rule,
                    name,
                    "%s is %s: an operation is applied AFTER the minimum/maximum clamp and can move the value out of [minimum, maximum] "
                    "(e.g. a type conversion truncates 10.5 to 10 below a fractional minimum)" % (what, show(strip_sites(t))),
                    node=setter.node,
                    stmt="%s: post-clamp operation %s" % (what, show(strip_sites(t[1])) if t[0] == "call" else t[0]),
                    input=label,
                )
            else:
                chk.bad(rule, name, "%s is %s: it is not clamped to [minimum, maximum] at all" % (what, show(strip_sites(t))), node=setter.node, stmt="%s: unclamped" % what, input=label)
            return False
        lo, mid, hi = outer
        if (lo, hi) != (MIN, MAX):
            if (lo, hi) == (MAX, MIN):
                chk.bad(rule, name, "%s: the outer clamp has minimum and maximum swapped" % what, node=setter.node, stmt="%s: min/max swapped" % what)
            elif (lo, hi) in ((LOWB, HIGHB), (LOWB, HIGHB2)):
                chk.bad(rule, name, "%s: the supply window is applied AFTER the minimum/maximum clamp, so the forwarded demand can leave [minimum, maximum]" % what, node=setter.node, stmt="%s: clamp order swapped" % what, input=label)
            else:
                chk.bad(rule, name, "%s: the outermost clamp uses bounds %s, %s instead of minimum, maximum" % (what, show(lo), show(hi)), node=setter.node, stmt="%s: outer bounds" % what)
            return False
        inner = parse_clamp(mid)
        if inner is None:
            chk.bad(rule, name, "%s: inside the minimum/maximum clamp there is no supply-window clamp but %s" % (what, show(strip_sites(mid))), node=setter.node, stmt="%s: no supply window" % what, input=label)
            return False
        ilo, x, ihi = inner
        if ilo != LOWB or ihi not in (HIGHB, HIGHB2):
            chk.bad(rule, name, "%s: the supply window is [%s, %s] instead of [supply - backlog, supply + surplus]" % (what, show(ilo), show(ihi)), node=setter.node, stmt="%s: window bounds" % what, input=label)
            return False
        fl = parse_floor(x)
        if floored_required:
            if fl is None:
                chk.bad(rule, name, "%s: the written value enters the clamps as %s, not rounded down to the granularity" % (what, show(strip_sites(x))), node=setter.node, stmt="%s: not floored" % what, input=label)
                return False
            if fl != [vparam, GRAN]:
                chk.bad(rule, name, "%s: floor is applied to %s instead of (value, granularity)" % (what, [show(a) for a in fl]), node=setter.node, stmt="%s: floor args" % what, input=label)
                return False
        else:
            if fl is not None:
                chk.bad(rule, name, "%s: the own record is rounded to the granularity (the read-back value must stay unrounded so that small increments accumulate)" % what, node=setter.node, stmt="%s: floored" % what, input=label)
                return False
            if x != vparam:
                chk.bad(rule, name, "%s: the clamps are applied to %s instead of the written value" % (what, show(strip_sites(x))), node=setter.node, stmt="%s: wrong operand" % what, input=label)
                return False
        return True

    ok = True
    TDEM = ("attr", TARGET, "demand")
    OWN = None
    n_paths = 0
    for o in outs:
        if o.kind not in ("normal", "return"):
            chk.bad("O6.2", name, "the demand setter can end by %s" % o.kind, node=setter.node, stmt="setter-exit")
            ok = False
            continue
        n_paths += 1
        stores = [e for e in o.path.events if e[0] == "store"]
        fwd = [e for e in stores if e[1] == TDEM]
        own = [e for e in stores if e[1][0] == "attr" and e[1][1] == SELF]
        g1 = it.get_rel(GRAN, ("const", 1), o.path)
        label = "granularity %s 1" % "/".join(sorted(g1))
        if len(fwd) != 1:
            chk.bad("O6.2", name, "a demand write forwards %d values to the target" % len(fwd), node=setter.node, stmt="forward-count", input=label)
            ok = False
            continue
        if len(own) != 1:
            chk.bad("O6.2", name, "a demand write records %d own values" % len(own), node=setter.node, stmt="own-count", input=label)
            ok = False
            continue
        OWN = own[0][1]
        ok &= check_value(own[0][2], "the own (read-back) record", False, label)
        fterm = fwd[0][2]
        floored = any(parse_floor(s) is not None for s in subterms(fterm))
        if floored:
            ok &= check_value(fterm, "the forwarded demand", True, label)
        else:
            # un-floored shortcut: only when granularity == 1  (O6.6)
            if g1 != frozenset("="):
                chk.bad("O6.6", name, "the forwarded demand skips the granularity floor although granularity may differ from 1 (%s)" % label, node=setter.node, stmt="unfloored-shortcut", input=label)
                ok = False
            ok &= check_value(fterm, "the forwarded demand (granularity 1 shortcut)", False, label)
    if n_paths == 0:
        chk.undecided("O6.2", name, "no completing path through the setter", node=setter.node)
        return
    if ok:
        chk.ok("O6.2", name, "forwarded = clamp(min, clamp(supply-backlog, floor(value, g), supply+surplus), max); own record = same without floor; nothing after the outer clamp", node=setter.node, input="%d paths" % n_paths)
        chk.ok("O6.6", name, "the un-floored shortcut is taken only when granularity == 1", node=setter.node)

    # O6.4 getter resynchronisation
    resync(chk, cls, getter, OWN)


def floor_shape(chk, fi):
    rule = "O6.3"
    it = Interp(chk.program, fi)
    outs = it.run()
    chk.count(len(outs))
    if len(outs) != 1 or outs[0].kind != "return":
        chk.undecided(rule, fi.qual, "floor helper is not a single expression", node=fi.node)
        return
    n, base = [("sym", p) for p in fi.params(skip_self=False)]
    t = outs[0].value
    good = [
        ("binop", "*", ("binop", "//", n, base), base),
        ("binop", "*", base, ("binop", "//", n, base)),
        ("binop", "-", n, ("binop", "%", n, base)),
        ("binop", "*", ("sub", ("call", ("glob", "ext:builtins.divmod"), (n, base), ()), ("const", 0)), base),
        ("binop", "*", base, ("sub", ("call", ("glob", "ext:builtins.divmod"), (n, base), ()), ("const", 0))),
        ("binop", "*", ("proj", ("call", ("glob", "ext:builtins.divmod"), (n, base), ()), 0), base),
        ("binop", "*", base, ("proj", ("call", ("glob", "ext:builtins.divmod"), (n, base), ()), 0)),
    ]
    t = strip_sites(t)
    if t in good:
        chk.ok(rule, fi.qual, "floor to a multiple of the base: %s" % show(t), node=fi.node)
    else:
        txt = show(t)
        if "round" in txt or "ceil" in txt or ("/" in txt and "//" not in txt) or "neg" in txt or "fmod" in txt or "trunc" in txt or "builtins.int(" in txt:
            chk.bad(rule, fi.qual, "the granularity helper computes %s, which does not round DOWN to a multiple of the base" % txt, node=fi.node, stmt="floor-shape")
        elif t[0] == "binop" and t[1] == "*" and t[2][0] == "binop" and t[2][1] == "//":
            chk.bad(rule, fi.qual, "the granularity helper divides and multiplies by different bases: %s" % txt, node=fi.node, stmt="floor-shape")
        else:
            chk.undecided(rule, fi.qual, "floor helper shape not recognised: %s" % txt, node=fi.node)


def resync(chk, cls, getter, own):
    prog = chk.program
    rule = "O6.4"
    name = getter.qual
    TDEM = ("attr", TARGET, "demand")
    GRAN = ("attr", SELF, "granularity")
    it = Interp(prog, getter)
    outs = it.run()
    chk.count(len(outs))
    ok = True
    seen = set()
    for o in outs:
        if o.kind != "return":
            chk.bad(rule, name, "the demand getter does not return on a path", node=getter.node, stmt="no-return")
            ok = False
            continue
        br = [e for e in o.path.events if e[0] == "branch"]
        if len(br) != 1 or br[0][1][0] != "cmp":
            # a resync decision that also depends on remembered state is known-bad: it must be a function of the own
            # record, the target's CURRENT demand and the granularity alone
            allowed = {own[2] if own else "_demand", "granularity", "target"}
            foreign = sorted({x[2] for e in br for x in subterms(e[1]) if x[0] == "attr" and x[1] == SELF and x[2] not in allowed})
            if foreign:
                chk.bad(rule, name, "whether the read-back is resynchronised depends on remembered state (self.%s) besides the own record, the target's current demand and the granularity: a change of the target that returns to the remembered value -- or one made while the memory was not refreshed -- is never noticed, and the stale value is read back and written over it" % ", self.".join(foreign), node=getter.node, stmt="resync-remembered-state %s" % ",".join(foreign))
                return
            approx = sorted({x[1][1] for e in br for x in subterms(e[1]) if x[0] == "call" and x[1][0] == "glob" and x[1][1] in ("ext:math.isclose", "ext:builtins.round", "ext:math.floor", "ext:math.ceil", "ext:math.trunc", "ext:builtins.int")})
            if approx:
                # the decision is exact: |own - target| >= granularity.  A tolerance test (isclose is inclusive and adds a
                # RELATIVE tolerance of 1e-9) or rounding decides differently at one granule and at large demands
                chk.bad(rule, name, "whether the read-back is resynchronised is decided through %s instead of the exact comparison |own record - target demand| >= granularity: an outside change of exactly one granule -- or any small change at large demands (relative tolerance) -- is not noticed" % ", ".join(a.split(":")[-1] for a in approx), node=getter.node, stmt="resync-approximate %s" % ",".join(approx))
                return
            chk.undecided(rule, name, "getter guard not recognised", node=getter.node)
            return
        _c, op, l, r = br[0][1]
        # normalise to  distance (op) granularity
        if r != GRAN and l == GRAN:
            l, r = r, l
            flip = {"<": ">", ">": "<", "<=": ">=", ">=": "<=", "==": "==", "!=": "!="}
            op = flip[op]
        if r != GRAN:
            chk.bad(rule, name, "the resynchronisation threshold is %s, not the granularity" % show(r), node=getter.node, stmt="threshold")
            ok = False
            continue
        dist_ok = l[0] == "call" and l[1] == ("glob", "ext:builtins.abs") and l[2] and l[2][0][0] == "binop" and l[2][0][1] == "-" and {l[2][0][2], l[2][0][3]} == {own or ("attr", SELF, "_demand"), TDEM}
        if not dist_ok:
            chk.bad(rule, name, "the resynchronisation distance is %s, not |own record - target demand|" % show(l), node=getter.node, stmt="distance")
            ok = False
            continue
        s = it.get_rel(l, GRAN, o.path)
        stores = [e for e in o.path.events if e[0] == "store" and e[1][0] == "attr" and e[1][1] == SELF]
        resynced = bool(stores) and stores[-1][2] == TDEM
        for relsym in s:
            seen.add((relsym, resynced))
        if stores and not resynced:
            chk.bad(rule, name, "the getter overwrites the own record with %s" % show(stores[-1][2]), node=getter.node, stmt="resync-value")
            ok = False
        want_ret = TDEM if resynced else (own or ("attr", SELF, "_demand"))
        if o.value != want_ret:
            chk.bad(rule, name, "the getter returns %s" % show(o.value), node=getter.node, stmt="getter-return")
            ok = False
    want = {("<", False), ("=", True), (">", True)}
    if ok and seen != want:
        got = sorted("%s%s" % ("resync" if r else "keep", " when distance %s granularity" % s) for s, r in seen)
        chk.bad(rule, name, "orientation of the read-back resynchronisation: %s (required: resync iff |own - target| >= granularity)" % "; ".join(got), node=getter.node, stmt="resync-orientation", input="distance </=/> granularity")
        ok = False
    if ok:
        chk.ok(rule, name, "re-sync iff |own - target| >= granularity; otherwise the unrounded own record is returned", node=getter.node, input="3 orderings")


def constructor(chk):
    prog = chk.program
    rule = "O6.5"
    cls = prog.cls(STD)
    init = prog.lookup_method(cls, "__init__")
    name = init.qual

    def inline(f, ct):
        # the validation may live in a private helper of the class (also a static one) or of the module
        return f.qual == "cobald.utility:enforce" or (not f.is_async and f.name.startswith("_") and not f.name.startswith("__") and ((f.cls is not None and f.cls.qual in cls.mro) or (f.cls is None and f.module is init.module)))

    it = Interp(prog, init, inline=inline, assert_raises=True)
    # a NaN parameter compares unordered ("u") with everything: `enforce(minimum <= maximum)` rejects it, the look-alike
    # `if minimum > maximum: raise` accepts it -- and a NaN limit limits nothing
    it.all_rel = frozenset("<=>u")
    outs = it.run()
    chk.count(len(outs))
    P = lambda n: ("sym", n)  # noqa: E731
    ZERO = ("const", 0)
    need = {
        "minimum <= maximum": (P("minimum"), P("maximum"), frozenset("<=")),
        "surplus > 0": (P("surplus"), ZERO, frozenset(">")),
        "backlog > 0": (P("backlog"), ZERO, frozenset(">")),
        "granularity > 0": (P("granularity"), ZERO, frozenset(">")),
    }
    completing = [o for o in outs if o.kind in ("normal", "return")]
    if not completing:
        chk.undecided(rule, name, "constructor never completes", node=init.node)
        return
    ok = True
    for label, (a, b, allowed) in need.items():
        for o in completing:
            s = it.get_rel(a, b, o.path)
            if not s <= allowed:
                extra = "".join(sorted(s - allowed))
                chk.bad(rule, name, "the constructor accepts %s %s %s (required: %s)%s" % (show(a), "/".join(extra).replace("u", "unordered with"), show(b), label, " -- a NaN parameter is accepted: the comparison is written in its negated form, which is False for NaN as well" if extra == "u" else ""), node=init.node, stmt=label, input="ordering %s%s%s" % (show(a), extra, show(b)))
                ok = False
                break
    # rejected combinations must raise (not be clamped silently) -- at least one raising path per constraint
    raising = [o for o in outs if o.kind == "raise"]
    if len(raising) < 4:
        chk.notes.append("constructor has %d raising paths" % len(raising))
    # stores: each limit is stored under its own name
    for o in completing[:1]:
        for e in o.path.events:
            if e[0] == "store" and e[1][0] == "attr" and e[1][1] == SELF and e[1][2] in ("minimum", "maximum", "granularity", "surplus", "backlog"):
                if e[2] != P(e[1][2]):
                    chk.bad(rule, name, "self.%s is initialised from %s" % (e[1][2], show(e[2])), node=init.node, stmt="store-%s" % e[1][2])
                    ok = False
    if ok:
        chk.ok(rule, name, "accepts only minimum <= maximum, surplus > 0, backlog > 0, granularity > 0; every limit stored under its own name", node=init.node, input="%d constructor paths" % len(outs))


def overrides(chk):
    prog = chk.program
    cls = prog.cls(STD)
    rule = "O6.6"
    bad = sorted(set(cls.methods) & {"supply", "utilisation", "allocation"})
    chk.count(3)
    if bad:
        chk.bad(rule, cls.qual, "Standardiser overrides %s: these must pass through unchanged" % bad, node=cls.node, stmt="overrides %s" % bad)
    else:
        chk.ok(rule, cls.qual, "supply, utilisation and allocation are inherited from the forwarding decorator", node=cls.node)


def failure_paths_write_nothing(chk, cls_qual=None, rule="O6.7"):
    """O6.7: the target only ever receives values that went through the floor and the clamps.  A write to the target's demand
    (or to the own record) on a FAILURE path -- inside an except handler or a finally block -- hands it something else: a
    'rollback' to the unrounded internal demand, limited against the supply seen at an earlier write"""
    prog = chk.program
    cls = prog.cls(cls_qual or STD)
    n = 0
    ok = True
    for fis in cls.methods.values():
        for fi in fis:
            for t in ast.walk(fi.node):
                if not isinstance(t, ast.Try):
                    continue
                blocks = [(h.body, "except %s" % (util.unparse(h.type) if h.type else "<bare>")) for h in t.handlers] + ([(t.finalbody, "finally")] if t.finalbody else [])
                for body, what in blocks:
                    for st in body:
                        for a in ast.walk(st):
                            tg = a.targets if isinstance(a, ast.Assign) else ([a.target] if isinstance(a, (ast.AugAssign, ast.AnnAssign)) else [])
                            for x in tg:
                                n += 1
                                chk.count()
                                if isinstance(x, ast.Attribute) and x.attr == "demand" and util.unparse(x.value).endswith("target"):
                                    chk.bad(rule, fi.qual, "the target's demand is written on a failure path (`%s`: %s): that value has not passed the granularity floor and the clamps against the CURRENT supply, so after a failed write the target holds a demand outside the limits the decorator guarantees" % (what, util.unparse(a)[:60]), node=a, stmt="target-written-on-failure-path")
                                    ok = False
    if ok:
        chk.ok(rule, cls.qual, "no write to the target's demand inside an except handler or finally block (%d stores on failure paths looked at)" % n)


def run(chk):
    chk.guard("O6.7", STD, failure_paths_write_nothing, chk)
    chk.guard("O6.2", STD, sanitiser_order, chk)
    chk.guard("O6.5", STD, constructor, chk)
    chk.guard("O6.6", STD, overrides, chk)
