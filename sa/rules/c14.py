"""C14 -- config sections are validated, then digested once each in constraint order."""
import ast

from .. import util
from ..interp import Interp, Path, abs_value, exc_value, is_exc, show, strip_sites, subterms, contains
from ..report import Undecided

MAPPING_LOAD = "cobald.daemon.config.mapping:load_configuration"
SECTION_LOADER = "cobald.daemon.core.config:load_section_plugins"
CONSTRAINTS = "cobald.daemon.plugins:constraints"
CONFIG_ERROR = "cobald.daemon.config.mapping:ConfigurationError"
KEYERROR = exc_value("ext:builtins.KeyError", "injected")


def _is_digest(ct):
    return ct[0] == "call" and ct[1][0] == "attr" and ct[1][2] == "digest"


def _is_logging_pop(ct):
    return (
        ct[0] == "call"
        and ct[1][0] == "attr"
        and ct[1][2] in ("pop", "get")
        and ct[2]
        and ct[2][0] == ("const", "logging")
    )


def _mentions_sections(t):
    return any(s[0] == "attr" and s[2] == "section" for s in subterms(t))


def mapping_rules(chk):
    prog = chk.program
    fi = prog.func(MAPPING_LOAD)
    name = fi.qual
    params = fi.params()
    if not params:
        raise Undecided("load_configuration has no parameters", fi.node)
    cfg = ("sym", params[0])

    # ---- O14.1: the unknown-section raise dominates every digest ------------------------------
    # abstract inputs: logging section present / absent x some unknown section / none
    def run_with(logging_present, digest_result=("value", abs_value("truthy", "plugin_content")), section_present=None, digest_raises=None):
        def call_hook(it, path, ct, node):
            if ct[0] != "call":
                return None
            if _is_logging_pop(ct) and ct[1][1] == cfg:
                if len(ct[2]) == 1 and ct[1][2] == "pop":
                    return [("value", ("sym", "logging_mapping"))] if logging_present else [("raise", KEYERROR)]
                default = ct[2][1] if len(ct[2]) > 1 else ("const", None)
                return [("value", ("sym", "logging_mapping") if logging_present else default)]
            if ct[1][0] == "attr" and ct[1][1] == cfg and ct[1][2] == "get" and section_present is not None and ct[2] and ct[2][0] != ("const", "logging"):
                default = ct[2][1] if len(ct[2]) > 1 else ("const", None)
                path.ev("section-get", ct[2][0])
                return [("value", ("sym", "section_data") if section_present else default)]
            if _is_digest(ct):
                if digest_raises is not None:
                    return [("raise", digest_raises)]
                return [digest_result]
            return None

        def sub_hook(it, path, base, idx, node):
            if base == cfg and section_present is not None:
                if section_present:
                    return [("value", ("sym", "section_data"))]
                return [("raise", KEYERROR)]
            return None

        def decide(it, path, term):
            if term[0] == "cmp" and term[1] == "in" and term[3] == cfg:
                if term[2] == ("const", "logging"):
                    return logging_present
                return section_present
            if term == ("isnone", ("sym", "logging_mapping")):
                return False
            return None

        # (private helpers of the module that the loader delegates to are read in place)
        it = Interp(prog, fi, call_hook=call_hook, sub_hook=sub_hook, decide=decide, unroll=1, inline=lambda f, ct: f.cls is None and not f.is_async and f.module is fi.module and f.name.startswith("_"))
        return it, it.run()

    r = "O14.1"
    ok = True
    n_digest_paths = 0
    for logging_present in (True, False):
        it, outs = run_with(logging_present, section_present=True)
        chk.count(len(outs))
        for o in outs:
            evs = o.path.events
            dig = [i for i, e in enumerate(evs) if e[0] == "call" and _is_digest(e[1])]
            # the validation branch: a forked branch on a term that subtracts the plugin sections from the config keys
            val = [
                (i, e)
                for i, e in enumerate(evs)
                if e[0] == "branch" and _mentions_sections(e[1]) and any(s == cfg for s in subterms(e[1]))
            ]
            pops = [i for i, e in enumerate(evs) if e[0] == "call" and _is_logging_pop(e[1])]
            if dig:
                n_digest_paths += 1
                first = dig[0]
                before = [(i, e) for i, e in val if i < first]
                if not before:
                    chk.bad(r, name, "a section is digested on a path on which the unknown-section check has not run yet: a plugin runs before the configuration is rejected", node=fi.node, stmt="digest-before-validate", input="logging %s" % ("present" if logging_present else "absent"))
                    ok = False
                    continue
                if any(e[2] is True for _i, e in before):
                    chk.bad(r, name, "a section is digested although unknown sections were found", node=fi.node, stmt="digest-despite-unknown")
                    ok = False
                i0 = before[0][0]
                if not pops or min(pops) > i0:
                    chk.bad(r, name, "the logging section is not removed before the unknown-section comparison: a configuration with a logging section is rejected", node=fi.node, stmt="logging-not-removed")
                    ok = False
            # the names compared are the names looked up: a validation that first normalises either side (strip,
            # casefold, lower, ...) accepts keys the exact lookup `config[plugin.section]` then never finds, so a
            # mis-spelled section passes as known and is silently never digested
            NORMALISE = {"strip", "lstrip", "rstrip", "casefold", "lower", "upper", "title", "capitalize", "replace", "removeprefix", "removesuffix", "split", "partition"}
            for _i, e in val:
                edits = sorted({s[1][2] for s in subterms(e[1]) if s[0] == "call" and s[1][0] == "attr" and s[1][2] in NORMALISE})
                if edits and ok:
                    chk.bad(r, name, "the unknown-section check compares names after %s(), but sections are looked up by their exact name: a key that only matches after normalisation is accepted as known and then never digested (a required section is reported missing only after earlier plugins have run)" % "()/".join(edits), node=fi.node, stmt="validation-normalises")
                    ok = False
            for i, e in val:
                if e[2] is True:
                    # unknown sections found: the path must end by raising ConfigurationError, without any digest
                    if o.kind != "raise" or not is_exc(o.value) or o.value[1] != CONFIG_ERROR:
                        chk.bad(r, name, "unknown sections do not make loading fail with a ConfigurationError (path ends with %s)" % o.kind, node=fi.node, stmt="unknown-not-rejected")
                        ok = False
    if n_digest_paths == 0:
        chk.bad(r, name, "no path digests a present section", node=fi.node, stmt="no-digest")
        ok = False
    if ok:
        chk.ok(r, name, "the unknown-section raise dominates every digest call; logging is removed first (%d digesting paths)" % n_digest_paths, node=fi.node)

    # ---- O14.2: per-plugin behaviour ----------------------------------------------------------
    r = "O14.2"
    ok = True
    # (a) section missing: raise iff required
    it, outs = run_with(False, section_present=False)
    chk.count(len(outs))
    saw_req = {True: 0, False: 0}
    for o in outs:
        evs = o.path.events
        if any(e[0] == "branch" and _mentions_sections(e[1]) and any(s == cfg for s in subterms(e[1])) and e[2] is True for e in evs):
            continue  # rejected earlier
        if o.kind in ("return", "normal") and not any(e[0] in ("loop-iter", "loop-exit", "loop-cut") for e in evs):
            conds = "; ".join("%s is %s" % (show(e[1]), e[2]) for e in evs if e[0] == "branch" and e[4] == "forked")
            chk.bad(r, name, "loading can return without examining the plugins at all (%s): a required plugin whose section is missing is then not reported" % (conds or "unconditionally"), node=fi.node, stmt="plugins-not-examined")
            ok = False
            continue
        if not any(e[0] == "loop-iter" for e in evs):
            continue  # zero plugins
        req = [e for e in evs if e[0] == "branch" and any(s[0] == "attr" and s[2] == "required" for s in subterms(e[1]))]
        if any(e[0] == "call" and _is_digest(e[1]) for e in evs):
            chk.bad(r, name, "a plugin is called although its section is missing", node=fi.node, stmt="digest-missing-section")
            ok = False
        if not req:
            chk.bad(r, name, "a missing section is handled without consulting the plugin's required flag", node=fi.node, stmt="required-not-consulted")
            ok = False
            continue
        # one decision per iteration: every iteration before the last one went on, so its plugin must be optional
        flags = []
        for b in req:
            rterm = [x for x in subterms(b[1]) if x[0] == "attr" and x[2] == "required"][0]
            flags.append(it.truth(rterm, o.path))
        if any(f is None for f in flags):
            chk.undecided(r, name, "the required flag is not decided on a path", node=fi.node)
            ok = False
            continue
        if any(flags[:-1]):
            chk.bad(r, name, "a required plugin whose section is missing does not make loading fail with a ConfigurationError (the loop goes on to the next plugin)", node=fi.node, stmt="required-missing-not-rejected")
            ok = False
            continue
        required = flags[-1]
        saw_req[required] += 1
        if required and not (o.kind == "raise" and is_exc(o.value) and o.value[1] == CONFIG_ERROR):
            chk.bad(r, name, "a required plugin whose section is missing does not make loading fail with a ConfigurationError (path ends: %s %s)" % (o.kind, show(o.value) if o.value else ""), node=fi.node, stmt="required-missing-not-rejected")
            ok = False
        if not required and o.kind == "raise":
            chk.bad(r, name, "an optional plugin whose section is missing makes loading fail", node=fi.node, stmt="optional-missing-rejected")
            ok = False
    if not (saw_req[True] and saw_req[False]):
        chk.bad(r, name, "the missing-section handling does not distinguish required from optional plugins", node=fi.node, stmt="required-branch")
        ok = False
    # (b) section present: exactly one digest with the section's own content; result kept iff not None
    for kind in ("none", "falsy", "truthy"):
        res = abs_value(kind, "plugin_content")
        it, outs = run_with(False, digest_result=("value", res), section_present=True)
        chk.count(len(outs))
        for o in outs:
            evs = o.path.events
            iters = [e for e in evs if e[0] == "loop-iter"]
            if len(iters) != 1:
                continue
            dig = [e for e in evs if e[0] == "call" and _is_digest(e[1])]
            if len(dig) != 1:
                chk.bad(r, name, "a plugin whose section is present is called %d times in its iteration (required: exactly once)" % len(dig), node=fi.node, stmt="digest-count", input=kind)
                ok = False
                continue
            ct = dig[0][1]
            args = list(ct[2]) + [v for _n, v in ct[3]]
            if args != [("sym", "section_data")]:
                chk.bad(r, name, "digest is called with %s instead of exactly the section's content" % [show(a) for a in args], node=fi.node, stmt="digest-args", input=kind)
                ok = False
            recv = ct[1][1]
            if not (recv[0] == "item"):
                chk.bad(r, name, "digest is called on %s, not on the plugin of this iteration" % show(recv), node=fi.node, stmt="digest-receiver")
                ok = False
            else:
                # the plugins are visited in the order they are given in (the constraint order computed by the loader)
                src = strip_sites(recv[1])
                while src[0] == "call" and src[1] in (("glob", "ext:builtins.list"), ("glob", "ext:builtins.tuple"), ("glob", "ext:builtins.iter")) and len(src[2]) == 1 and not src[3]:
                    src = src[2][0]
                PLUGINS = ("sym", params[1]) if len(params) > 1 else None
                if src != PLUGINS:
                    reorder = [x for x in subterms(src) if x[0] == "call" and x[1] in (("glob", "ext:builtins.sorted"), ("glob", "ext:builtins.reversed"), ("glob", "ext:builtins.set"), ("glob", "ext:builtins.frozenset"))] or (src[0] == "reversed")
                    if reorder and PLUGINS in list(subterms(src)):
                        chk.bad(r, name, "the plugins are digested in the order of %s, not in the order they are given in: the before/after constraints the loader sorted them by are no longer respected" % show(src), node=fi.node, stmt="digest-order")
                        ok = False
                    else:
                        chk.undecided(r, name, "the digest loop ranges over %s" % show(src), node=fi.node)
                        ok = False
            kept = [e for e in evs if e[0] == "store" and e[2] == res]
            if o.kind != "return":
                chk.bad(r, name, "loading does not return after digesting (path ends: %s)" % o.kind, node=fi.node, stmt="no-return", input=kind)
                ok = False
                continue
            container_ok = any(e[1][0] == "sub" and (e[1][1] == o.value or o.path.env.get(e[1][1]) == o.value or _same_container(e[1][1], o.value, o.path)) for e in kept)
            if kind == "none" and kept:
                chk.bad(r, name, "a None result of a plugin is stored", node=fi.node, stmt="none-kept", input=kind)
                ok = False
            if kind != "none" and not container_ok:
                chk.bad(
                    r,
                    name,
                    "a %s non-None plugin result is not kept in the returned container%s" % (kind, " (falsy results such as [] / {} / 0 must be kept: `is not None`, not truthiness)" if kind == "falsy" else ""),
                    node=fi.node,
                    stmt="result-dropped",
                    input=kind,
                )
                ok = False
    # (c) narrow try: a KeyError raised *inside* a plugin must not be mistaken for a missing section
    it, outs = run_with(False, section_present=True, digest_raises=KEYERROR)
    chk.count(len(outs))
    for o in outs:
        evs = o.path.events
        if not any(e[0] == "call" and _is_digest(e[1]) for e in evs):
            continue
        if not (o.kind == "raise" and o.value == KEYERROR):
            chk.bad(r, name, "a KeyError raised inside a plugin's digest is swallowed or converted (the digest call sits inside the try that detects a missing section)", node=fi.node, stmt="wide-try")
            ok = False
    if ok:
        chk.ok(r, name, "missing: raise iff required; present: one digest(section content) outside the KeyError try; kept iff `is not None`", node=fi.node, input="result partition none/falsy/truthy x section present/missing x required/optional")


def _is_member_test(c):
    """`x in m`  (also spelled  `not (x not in m)`)"""
    while isinstance(c, ast.UnaryOp) and isinstance(c.op, ast.Not) and isinstance(c.operand, ast.UnaryOp) and isinstance(c.operand.op, ast.Not):
        c = c.operand.operand
    if isinstance(c, ast.Compare) and len(c.ops) == 1 and isinstance(c.ops[0], ast.In):
        return True
    return isinstance(c, ast.UnaryOp) and isinstance(c.op, ast.Not) and isinstance(c.operand, ast.Compare) and len(c.operand.ops) == 1 and isinstance(c.operand.ops[0], ast.NotIn)


def _same_container(a, b, path):
    return a == b


def _find_dep_map(prog, fi):
    """(name of the mapping handed to toposort_flatten, the toposort call, the function that builds the mapping)"""
    def is_topo(n):
        d = util.dotted(n.func) or ""
        if d.split(".")[-1] in ("toposort_flatten", "toposort"):
            return True
        # a module-level  _flatten = partial(toposort_flatten, sort=False)
        st = fi.module.defs.get(d) if d and "." not in d else None
        v = getattr(st, "value", None)
        return isinstance(v, ast.Call) and prog.resolve(fi.module, v.func) == "ext:functools.partial" and bool(v.args) and (util.dotted(v.args[0]) or "").split(".")[-1] in ("toposort_flatten", "toposort")

    for n in ast.walk(fi.node):
        if isinstance(n, ast.Call) and is_topo(n):
            if n.args and isinstance(n.args[0], ast.Name):
                return n.args[0].id, n, fi
            if n.args and isinstance(n.args[0], ast.Call):
                # built by a helper:  toposort_flatten(_dependencies(plugins))
                r = prog.resolve(fi.module, n.args[0].func)
                g = prog.functions.get(r) if r else None
                if g is not None:
                    rets = [x for x in ast.walk(g.node) if isinstance(x, ast.Return)]
                    if len(rets) == 1 and isinstance(rets[0].value, ast.Name):
                        return rets[0].value.id, n, g
    return None, None, None


def loader_rules(chk):
    prog = chk.program
    fi = prog.func(SECTION_LOADER)
    name = fi.qual
    dep, topo, dfi = _find_dep_map(prog, fi)
    if dep is None:
        chk.undecided("O14.3", name, "no toposort call on a named dependency mapping found", node=fi.node)
        return
    res_fi = fi  # where the sorted names are turned into the result
    fi = dfi  # where the dependency mapping is built
    parents = util.parents_map(fi.node)
    # ---- aliases: which local names denote constraint names / a plugin's own section
    constraint_vars = {}  # local name -> 'before' | 'after'
    section_vars = set()  # local names that hold a plugin's own section (keys of the plugin mapping)
    plugin_maps = set()  # local names of mappings keyed by plugin.section
    for n in ast.walk(fi.node):
        if isinstance(n, (ast.Assign, ast.AnnAssign)) and isinstance(getattr(n, "value", None), ast.DictComp):
            tg = n.targets[0] if isinstance(n, ast.Assign) else n.target
            if isinstance(tg, ast.Name) and isinstance(n.value.key, ast.Attribute) and n.value.key.attr == "section":
                plugin_maps.add(tg.id)
    for n in ast.walk(fi.node):
        gens = []
        if isinstance(n, ast.For):
            gens.append((n.target, n.iter))
        elif isinstance(n, (ast.ListComp, ast.SetComp, ast.DictComp, ast.GeneratorExp)):
            gens.extend((g.target, g.iter) for g in n.generators)
        for tgt, it_ in gens:
            if isinstance(tgt, ast.Name) and isinstance(it_, ast.Attribute) and it_.attr in ("before", "after"):
                constraint_vars[tgt.id] = it_.attr
            if isinstance(it_, ast.Call) and isinstance(it_.func, ast.Attribute) and it_.func.attr == "items" and util.dotted(it_.func.value) in plugin_maps and isinstance(tgt, ast.Tuple) and isinstance(tgt.elts[0], ast.Name):
                section_vars.add(tgt.elts[0].id)
            if isinstance(it_, ast.Name) and it_.id in plugin_maps and isinstance(tgt, ast.Name):
                section_vars.add(tgt.id)

    # pairs collected first and applied later:  edges = [(before, plugin.section) for ...];  for a, b in edges: ...
    expr_alias = {}  # loop variable -> the expression it stands for
    pair_lists = {}
    for n in ast.walk(fi.node):
        if isinstance(n, (ast.Assign, ast.AnnAssign)) and n.value is not None:
            tg = n.targets[0] if isinstance(n, ast.Assign) else n.target
            v = n.value
            if isinstance(v, ast.Call) and util.dotted(v.func) in ("list", "tuple") and len(v.args) == 1:
                v = v.args[0]
            if isinstance(tg, ast.Name) and isinstance(v, (ast.ListComp, ast.GeneratorExp)) and isinstance(v.elt, ast.Tuple):
                pair_lists[tg.id] = v
    for n in ast.walk(fi.node):
        if isinstance(n, ast.For) and isinstance(n.iter, ast.Name) and n.iter.id in pair_lists and isinstance(n.target, ast.Tuple) and len(n.target.elts) == len(pair_lists[n.iter.id].elt.elts):
            for t, e in zip(n.target.elts, pair_lists[n.iter.id].elt.elts):
                if isinstance(t, ast.Name):
                    expr_alias[t.id] = e

    def classify_key(k):
        """'constraint:before' | 'constraint:after' | 'section' | None"""
        if isinstance(k, ast.Name) and k.id in expr_alias:
            return classify_key(expr_alias[k.id])
        if isinstance(k, ast.Name) and k.id in constraint_vars:
            return "constraint:" + constraint_vars[k.id]
        if isinstance(k, ast.Name) and k.id in section_vars:
            return "section"
        if isinstance(k, ast.Attribute) and k.attr == "section":
            return "section"
        return None

    def classify_value(v):
        """what a value stored into / added to the dependency map stands for"""
        k = classify_key(v)
        if k:
            return k
        txt = util.unparse(v)
        if txt.endswith(".after") or txt.endswith(".after)"):
            return "set:after"
        if txt.endswith(".before") or txt.endswith(".before)"):
            return "set:before"
        if txt in ("set()", "[]", "frozenset()"):
            return "empty"
        return None

    # ---- O14.3 orientation ------------------------------------------------------------
    r = "O14.3"
    ok = True
    own_after = own_before = False
    handles_before = False
    n_updates = 0
    init = None
    for n in ast.walk(fi.node):
        if isinstance(n, (ast.Assign, ast.AnnAssign)):
            tg = n.targets[0] if isinstance(n, ast.Assign) else n.target
            if isinstance(tg, ast.Name) and tg.id == dep and n.value is not None:
                init = n.value
    if isinstance(init, ast.DictComp):
        if classify_key(init.key) == "section":
            vk = classify_value(init.value)
            own_after |= vk == "set:after"
            own_before |= vk == "set:before"
        else:
            chk.undecided(r, name, "the dependency mapping is not keyed by the plugins' sections", node=init)
            ok = False
    elif init is not None and not (isinstance(init, ast.Dict) and not init.keys) and util.unparse(init) not in ("dict()", "defaultdict(set)", "collections.defaultdict(set)"):
        chk.undecided(r, name, "initialisation of the dependency mapping not recognised", node=init)
        ok = False
    defaultdict = init is not None and "defaultdict" in util.unparse(init)
    adds = []
    aliases = {}  # local name -> key expression: the name denotes D[key]
    for n in ast.walk(fi.node):
        if isinstance(n, ast.Assign):
            key = None
            v = n.value
            if isinstance(v, ast.Subscript) and isinstance(v.value, ast.Name) and v.value.id == dep:
                key = v.slice
            elif isinstance(v, ast.Call) and isinstance(v.func, ast.Attribute) and v.func.attr in ("setdefault", "get") and isinstance(v.func.value, ast.Name) and v.func.value.id == dep and v.args:
                key = v.args[0]
            for t in n.targets:
                if isinstance(t, ast.Subscript) and isinstance(t.value, ast.Name) and t.value.id == dep and len(n.targets) > 1:
                    key = t.slice
            if key is not None:
                for t in n.targets:
                    if isinstance(t, ast.Name):
                        aliases[t.id] = key
    for n in ast.walk(fi.node):
        # D[key] = value
        if isinstance(n, ast.Assign):
            for t in n.targets:
                if isinstance(t, ast.Subscript) and isinstance(t.value, ast.Name) and t.value.id == dep:
                    adds.append((classify_key(t.slice), classify_value(n.value), n, "store"))
        if isinstance(n, ast.Call) and isinstance(n.func, ast.Attribute) and n.func.attr in ("add", "update", "append", "extend"):
            recv = n.func.value
            key = None
            if isinstance(recv, ast.Subscript) and isinstance(recv.value, ast.Name) and recv.value.id == dep:
                key = recv.slice
            elif (
                isinstance(recv, ast.Call)
                and isinstance(recv.func, ast.Attribute)
                and recv.func.attr in ("setdefault", "get")
                and isinstance(recv.func.value, ast.Name)
                and recv.func.value.id == dep
                and recv.args
            ):
                key = recv.args[0]
            elif isinstance(recv, ast.Name) and recv.id in aliases:
                key = aliases[recv.id]
            if key is not None and n.args:
                adds.append((classify_key(key), classify_value(n.args[0]), n, n.func.attr))
    chk.count(len(adds) + 1)
    for kk, vk, n, how in adds:
        n_updates += 1
        if kk == "constraint:before" and vk == "section":
            handles_before = True  # the plugin is added to the entry of each of its `before` names
        elif kk == "section" and vk in ("constraint:after", "set:after"):
            own_after = True
        elif kk and kk.startswith("constraint") and vk == "empty":
            pass  # making the lookup of an absent name total
        elif kk == "section" and vk == "empty":
            pass
        elif kk == "section" and vk in ("constraint:before", "set:before"):
            chk.bad(r, name, "a plugin's `before` names are recorded as things that must run before it: the constraint is inverted", node=n)
            ok = False
        elif kk == "constraint:after" and vk == "section":
            chk.bad(r, name, "a plugin is recorded as a prerequisite of its `after` names: the constraint is inverted", node=n)
            ok = False
        else:
            chk.undecided(r, name, "dependency update not recognised", node=n)
            ok = False
    if own_before:
        chk.bad(r, name, "a plugin's own entry is initialised from its `before` names: the constraint is inverted", node=init, stmt="init-before")
        ok = False
    if not own_after:
        chk.bad(r, name, "`after` constraints never enter the dependency mapping", node=init or fi.node, stmt="after-dropped")
        ok = False
    if not handles_before:
        chk.bad(r, name, "`before` constraints never enter the dependency mapping", node=fi.node, stmt="before-dropped")
        ok = False
    # the sorted names are filtered to installed plugins, and the result follows the sorted order
    build_fi, fi = fi, res_fi
    filt = False
    topo_names = set()
    for n in ast.walk(fi.node):
        if isinstance(n, ast.Assign) and any(x is topo for x in ast.walk(n.value)):
            topo_names.update(t.id for t in n.targets if isinstance(t, ast.Name))
    def from_topo(expr):
        return any(x is topo for x in ast.walk(expr)) or any(isinstance(x, ast.Name) and x.id in topo_names for x in ast.walk(expr))
    for n in ast.walk(fi.node):
        if isinstance(n, (ast.GeneratorExp, ast.ListComp)):
            for g in n.generators:
                if from_topo(g.iter):
                    if any(_is_member_test(c) for c in g.ifs):
                        filt = True
    if not filt:
        # the sorted names include constraint names of plugins that are not installed: an unfiltered
        # plugins[name] lookup raises KeyError for them instead of ignoring the constraint
        unguarded = [
            n
            for n in ast.walk(fi.node)
            if isinstance(n, (ast.GeneratorExp, ast.ListComp))
            and any(from_topo(g.iter) for g in n.generators)
            and isinstance(n.elt, ast.Subscript)
        ]
        if unguarded:
            chk.bad("O14.4", name, "the sorted names are looked up in the plugin mapping without filtering out names of plugins that are not installed: a constraint naming an absent plugin raises KeyError instead of being ignored", node=unguarded[0], stmt="result-unfiltered")
            ok = False
        else:
            chk.undecided(r, name, "result is not built by filtering the topological order by membership", node=topo, aux=True)
    for kw in topo.keywords:
        if kw.arg == "sort" and not (isinstance(kw.value, ast.Constant) and kw.value.value is False):
            chk.notes.append("toposort_flatten sorts ties: plugin names must then be comparable")
    if ok:
        chk.ok(r, name, "`after` names are members of the plugin's own entry; the plugin is a member of the entry of each `before` name; result filtered to installed plugins", node=fi.node)

    # ---- O14.4 totality (contradiction rule) ------------------------------------------
    r = "O14.4"
    fi = build_fi
    admits_absent = filt  # the code itself filters by membership => names may be absent
    bad = 0
    n_sites = 0
    for n in ast.walk(fi.node):
        if isinstance(n, ast.Subscript) and isinstance(n.value, ast.Name) and n.value.id == dep and isinstance(n.ctx, ast.Load):
            kind = classify_key(n.slice)
            if kind is None or not kind.startswith("constraint"):
                continue
            n_sites += 1
            chk.count()
            guarded = defaultdict
            # an earlier sibling statement makes the key present:  `if k not in D: D[k] = ...`  /  `D.setdefault(k, ...)`
            st = n
            while parents.get(id(st)) is not None and not isinstance(st, ast.stmt):
                st = parents[id(st)]
            blk = parents.get(id(st))
            for fld in ("body", "orelse", "finalbody"):
                seq = getattr(blk, fld, None)
                if isinstance(seq, list) and st in seq:
                    for prev in seq[: seq.index(st)]:
                        ptxt = util.unparse(prev).replace(" ", "")
                        key = util.unparse(n.slice)
                        if ptxt.startswith("if%snotin%s:" % (key, dep)) and ("%s[%s]=" % (dep, key)) in ptxt:
                            guarded = True
                        if ptxt.startswith("%s.setdefault(%s," % (dep, key)):
                            guarded = True
            p = parents.get(id(n))
            while p is not None and p is not fi.node:
                if isinstance(p, ast.Try) and any(
                    h.type is None or any(x in util.unparse(h.type) for x in ("KeyError", "LookupError", "Exception")) for h in p.handlers
                ):
                    if any(x is n for b in p.body for x in ast.walk(b)):
                        guarded = True
                if isinstance(p, ast.If):
                    t = p.test
                    if isinstance(t, ast.Compare) and isinstance(t.ops[0], ast.In) and util.unparse(t.left) == util.unparse(n.slice):
                        if any(x is n for b in p.body for x in ast.walk(b)):
                            guarded = True
                p = parents.get(id(p))
            if not guarded:
                bad += 1
                chk.bad(
                    r,
                    name,
                    "%s[%s] is subscripted with a `%s` constraint name, but the mapping only has keys for installed plugins: "
                    "a constraint naming a plugin that is not installed raises KeyError instead of being ignored%s"
                    % (dep, util.unparse(n.slice), kind.split(":")[1], " (the function itself filters the sorted names by membership, i.e. expects absent names)" if admits_absent else ""),
                    node=n,
                    stmt="%s[<constraint name>]" % dep,
                )
    if not bad:
        chk.ok(r, name, "every lookup of a constraint name in the dependency mapping is total (%d unguarded subscripts examined, %d adds)" % (n_sites, len(adds)), node=fi.node)


def constraints_rules(chk):
    prog = chk.program
    r = "O14.5"
    fi = prog.func(CONSTRAINTS)
    name = fi.qual
    ok = True
    ctor = None
    for n in ast.walk(fi.node):
        if isinstance(n, ast.Call) and prog.resolve(fi.module, n.func) == "cobald.daemon.plugins:PluginRequirements":
            ctor = n
    outer = {}  # helper parameter -> the parameter of constraints() it is given
    if ctor is None:
        # built by a module-level helper the decorator calls:  lambda plugin: _attach(plugin, required, before, after)
        for c in ast.walk(fi.node):
            g = prog.functions.get(prog.resolve(fi.module, c.func) or "") if isinstance(c, ast.Call) else None
            if g is None or g.cls is not None or g is fi:
                continue
            for n in ast.walk(g.node):
                if isinstance(n, ast.Call) and prog.resolve(g.module, n.func) == "cobald.daemon.plugins:PluginRequirements":
                    ctor = n
                    gp = g.params()
                    outer = {gp[i]: a.id for i, a in enumerate(c.args) if i < len(gp) and isinstance(a, ast.Name)}
                    outer.update({k.arg: k.value.id for k in c.keywords if k.arg and isinstance(k.value, ast.Name)})
                    ctor_fi = g
    else:
        ctor_fi = fi
    if ctor is None:
        chk.undecided(r, name, "constraints does not build a PluginRequirements", node=fi.node)
        return
    chk.count(3)
    params = {a.arg for a in fi.node.args.kwonlyargs + fi.node.args.args}
    if outer:
        # read the helper's body in terms of the decorator's parameters
        import copy

        ctor = copy.deepcopy(ctor)
        for x in ast.walk(ctor):
            if isinstance(x, ast.Name) and x.id in outer:
                x.id = outer[x.id]
    for kw in ctor.keywords:
        names = {x.id for x in ast.walk(kw.value) if isinstance(x, ast.Name)} & params
        if kw.arg in ("before", "after", "required") and names != {kw.arg}:
            chk.bad(r, name, "PluginRequirements(%s=...) is built from the parameter(s) %s" % (kw.arg, sorted(names)), node=ctor, stmt="requirements-%s" % kw.arg)
            ok = False
    # each constraint set is the parameter's own elements: frozenset(before) / set / tuple / list / the parameter itself,
    # or a helper that returns exactly that for every iterable that is not a single string
    CONV = {("glob", "ext:builtins." + n) for n in ("frozenset", "set", "tuple", "list", "sorted")}
    for kw in ctor.keywords:
        if kw.arg not in ("before", "after"):
            continue
        v = kw.value
        chk.count()
        if isinstance(v, ast.Name) and v.id == kw.arg:
            continue
        if isinstance(v, ast.Call) and util.dotted(v.func) in ("frozenset", "set", "tuple", "list") and len(v.args) == 1 and isinstance(v.args[0], ast.Name) and v.args[0].id == kw.arg:
            continue
        h = prog.functions.get(prog.resolve(ctor_fi.module, v.func) or "") if isinstance(v, ast.Call) else None
        if h is not None and len(v.args) == 1 and isinstance(v.args[0], ast.Name) and v.args[0].id == kw.arg and h.params():
            P = ("sym", h.params()[0])

            def decide(it, path, term, P=P):
                if term[0] == "call" and term[1] == ("glob", "ext:builtins.isinstance") and len(term[2]) == 2 and term[2][0] == P and term[2][1] == ("glob", "ext:builtins.str"):
                    return False  # an iterable of names that is not a lone string
                return None

            for o in Interp(prog, h, decide=decide).run():
                chk.count()
                if o.kind == "raise":
                    continue
                rv = strip_sites(o.value) if o.kind == "return" and o.value else None
                if not (rv == P or (rv is not None and rv[0] == "call" and rv[1] in CONV and list(rv[2]) == [P] and not rv[3])):
                    conds = "; ".join("%s is %s" % (show(e[1]), e[2]) for e in o.path.events if e[0] == "branch" and e[4] == "forked")
                    chk.bad(
                        r,
                        h.qual,
                        "for an iterable of names%s the `%s` constraint becomes %s instead of the set of those names: the declared constraints are dropped (and a bogus name is recorded)" % (" (%s)" % conds if conds else "", kw.arg, show(rv) if rv else "nothing"),
                        node=h.node,
                        stmt="constraint-set %s" % (show(rv)[:60] if rv else "none"),
                    )
                    ok = False
            continue
        chk.undecided(r, name, "PluginRequirements(%s=%s) is not a plain container conversion of the parameter" % (kw.arg, util.unparse(v)), node=ctor, aux=True)
    if ctor.args:
        chk.undecided(r, name, "positional PluginRequirements arguments", node=ctor)
        ok = False
    given = {kw.arg for kw in ctor.keywords}
    for need in ("before", "after", "required"):
        if need not in given:
            chk.bad(r, name, "the `%s` constraint is dropped by the decorator" % need, node=ctor, stmt="missing-%s" % need)
            ok = False
    # PluginRequirements stores each under its own name; SectionPlugin's accessors read the same names
    req = prog.cls("cobald.daemon.plugins:PluginRequirements")
    init = prog.lookup_method(req, "__init__")
    for st in ast.walk(init.node):
        if isinstance(st, ast.Assign) and isinstance(st.targets[0], ast.Attribute) and st.targets[0].attr in ("before", "after", "required"):
            chk.count()
            if not (isinstance(st.value, ast.Name) and st.value.id == st.targets[0].attr):
                chk.bad(r, init.qual, "self.%s is stored from %s" % (st.targets[0].attr, util.unparse(st.value)), node=st)
                ok = False
    # defaults: a plugin that declares nothing is optional and unconstrained (a digest without the decorator gets
    # PluginRequirements() -- the loader's fallback)
    def defaults(fn):
        a = fn.node.args
        pos = a.posonlyargs + a.args
        d = dict(zip([x.arg for x in pos[len(pos) - len(a.defaults):]], a.defaults))
        d.update({x.arg: v for x, v in zip(a.kwonlyargs, a.kw_defaults) if v is not None})
        return d

    for fn in (fi, init):
        d = defaults(fn)
        for need in ("required", "before", "after"):
            chk.count()
            v = d.get(need)
            if v is None:
                continue  # no default: every caller must say it
            if isinstance(v, (ast.Name, ast.Attribute)):
                mc = prog.module_constant(prog.resolve(fn.module, v))
                if mc is not None:
                    v = mc[1]  # a named module-level constant
            if need == "required":
                good = isinstance(v, ast.Constant) and v.value is False
            else:
                good = (isinstance(v, (ast.Tuple, ast.List, ast.Set)) and not v.elts) or (isinstance(v, ast.Call) and util.dotted(v.func) in ("frozenset", "set", "tuple", "list") and not v.args and not v.keywords)
            if not good:
                chk.bad(
                    r,
                    fn.qual,
                    "the default of `%s` is %s: %s" % (need, util.unparse(v), "a plugin that does not declare itself required becomes required, so a configuration without its section fails to load" if need == "required" else "every plugin gets an ordering constraint it never declared"),
                    node=fn.node,
                    stmt="default-%s" % need,
                )
                ok = False
    sp = prog.cls("cobald.daemon.config.mapping:SectionPlugin")
    for acc in ("before", "after", "required"):
        g = prog.pick(sp.methods.get(acc, []), "getter")
        chk.count()
        if g is None:
            if acc not in sp.fields:
                chk.bad(r, sp.qual, "SectionPlugin has no `%s` accessor" % acc, node=sp.node, stmt=acc)
                ok = False
            continue
        rets = [n for n in ast.walk(g.node) if isinstance(n, ast.Return)]
        if len(rets) != 1 or not (isinstance(rets[0].value, ast.Attribute) and rets[0].value.attr == acc):
            chk.bad(r, g.qual, "SectionPlugin.%s returns %s" % (acc, util.unparse(rets[0].value) if rets else "nothing"), node=g.node, stmt=acc)
            ok = False
    # the attribute the decorator sets is the one the loader reads
    def attr_name(f, e):
        """the attribute name an expression denotes: a literal, or a defaulted parameter nothing in the package supplies"""
        if isinstance(e, ast.Constant) and isinstance(e.value, str):
            return e.value
        if isinstance(e, ast.Name) and e.id in f.params(skip_self=False):
            d = util.unsupplied_default_nodes(prog, f).get(e.id)
            if isinstance(d, ast.Constant) and isinstance(d.value, str):
                return d.value
        return None

    set_names = set()
    for f in {fi, ctor_fi}:
        set_names |= {t.attr for n in ast.walk(f.node) if isinstance(n, ast.Assign) for t in n.targets if isinstance(t, ast.Attribute)}
        set_names |= {attr_name(f, n.args[1]) for n in ast.walk(f.node) if isinstance(n, ast.Call) and util.dotted(n.func) == "setattr" and len(n.args) == 3} - {None}
    load = prog.method("cobald.daemon.config.mapping:SectionPlugin", "load")
    readers = [load] + [g for g in (prog.lookup_method(load.cls, n.func.attr) for n in ast.walk(load.node) if isinstance(n, ast.Call) and isinstance(n.func, ast.Attribute) and util.dotted(n.func.value) in ("cls", "self", load.cls.name)) if g is not None]
    read_names = set()
    for f in readers:
        for n in ast.walk(f.node):
            if isinstance(n, ast.Call) and util.dotted(n.func) == "getattr" and len(n.args) >= 2 and attr_name(f, n.args[1]) is not None:
                read_names.add(attr_name(f, n.args[1]))
            elif isinstance(n, ast.Attribute) and n.attr.startswith("__") and n.attr.endswith("__") and "requirements" in n.attr:
                read_names.add(n.attr)
    if not (set_names & read_names):
        chk.bad(r, name, "the decorator stores the requirements as %s but the loader reads %s" % (sorted(set_names), sorted(read_names)), node=fi.node, stmt="attr-name")
        ok = False
    if ok:
        chk.ok(r, name, "before/after/required are stored and read under their own names (%s)" % sorted(set_names & read_names), node=ctor)


def plugin_identity(chk):
    """O14.6: the plugin made for an entry point carries THAT entry point's name as its section and its loaded object
    as the digest -- on every returning path (no object made for another entry point is handed back)"""
    prog = chk.program
    r = "O14.6"
    fi = prog.method("cobald.daemon.config.mapping:SectionPlugin", "load")
    if not fi.params():
        raise Undecided("SectionPlugin.load has no entry point parameter", fi.node)
    EP = ("sym", fi.params()[0])
    init = prog.lookup_method(fi.cls, "__init__")
    iparams = init.params() if init is not None else ["section", "digest", "requirements"]
    ok = True
    n = 0
    for o in Interp(prog, fi, inline=lambda f, ct: f.cls is fi.cls and f is not fi and not f.is_async and f.name != "__init__").run():
        chk.count()
        if o.kind == "raise":
            continue
        n += 1
        v = strip_sites(o.value) if o.kind == "return" and o.value else None
        fresh = v is not None and v[0] == "call" and v[1] in (("sym", "cls"), ("glob", fi.cls.qual))
        if not fresh:
            conds = "; ".join("%s is %s" % (show(e[1]), e[2]) for e in o.path.events if e[0] == "branch" and e[4] == "forked")
            chk.bad(
                r,
                fi.qual,
                "load can return %s%s instead of a plugin built for this entry point: a section is then represented by a plugin carrying another section's name, so it is reported as unknown, not digested, or loses its required check"
                % (show(v) if v else o.kind, " (when %s)" % conds if conds else ""),
                node=fi.node,
                stmt="load-not-fresh",
            )
            ok = False
            continue
        kw = dict(v[3])
        for i, a in enumerate(v[2]):
            if i < len(iparams):
                kw[iparams[i]] = a
        sec, dig = kw.get("section"), kw.get("digest")
        if sec != ("attr", EP, "name"):
            chk.bad(r, fi.qual, "the plugin's section is %s instead of the entry point's name" % (show(sec) if sec else "missing"), node=fi.node, stmt="load-section")
            ok = False
        if not (dig is not None and dig[0] == "call" and dig[1] == ("attr", EP, "load") and not dig[2]):
            chk.bad(r, fi.qual, "the plugin's digest is %s instead of the object the entry point loads" % (show(dig) if dig else "missing"), node=fi.node, stmt="load-digest")
            ok = False
    chk.floor(r, n, 1)
    if ok:
        chk.ok(r, fi.qual, "every returning path builds cls(section=entry_point.name, digest=entry_point.load(), ...)", node=fi.node)


def error_text_is_total(chk):
    """O14.7: building the text of a configuration error cannot fail itself.  `sep.join(x)` over a mapping keyed by plugin
    objects (or any collection filled with non-strings) raises TypeError, which then replaces the ConfigurationError the
    caller is promised"""
    prog = chk.program
    rule = "O14.7"
    fi = prog.functions.get(MAPPING_LOAD)
    if fi is None:
        raise Undecided("load_configuration not found")
    n = 0
    ok = True
    # containers of the function and what they are filled with
    nonstr = {}
    loop_objs = set()
    for f in ast.walk(fi.node):
        if isinstance(f, ast.For) and isinstance(f.target, ast.Name) and isinstance(f.iter, ast.Name) and f.iter.id in fi.params():
            loop_objs.add(f.target.id)  # elements of a parameter (the plugins): objects, not strings
    for a in ast.walk(fi.node):
        if isinstance(a, ast.Assign):
            for t in a.targets:
                if isinstance(t, ast.Subscript) and isinstance(t.value, ast.Name) and isinstance(t.slice, ast.Name) and t.slice.id in loop_objs:
                    nonstr[t.value.id] = "keyed by %s (an object, not a string)" % t.slice.id
        if isinstance(a, ast.Call) and isinstance(a.func, ast.Attribute) and a.func.attr in ("append", "add") and isinstance(a.func.value, ast.Name) and a.args and isinstance(a.args[0], ast.Name) and a.args[0].id in loop_objs:
            nonstr[a.func.value.id] = "filled with %s (an object, not a string)" % a.args[0].id
    for c in ast.walk(fi.node):
        if isinstance(c, ast.Call) and isinstance(c.func, ast.Attribute) and c.func.attr == "join" and len(c.args) == 1:
            n += 1
            chk.count()
            arg = c.args[0]
            while isinstance(arg, ast.Call) and isinstance(arg.func, ast.Name) and arg.func.id in ("sorted", "list", "tuple", "reversed", "set") and arg.args:
                arg = arg.args[0]
            if isinstance(arg, ast.Name) and arg.id in nonstr:
                chk.bad(rule, fi.qual, "%s joins %s, which is %s: str.join raises TypeError, and that error replaces the configuration error being built" % (util.unparse(c)[:50], arg.id, nonstr[arg.id]), node=c, stmt="join-nonstr %s" % arg.id)
                ok = False
    if ok:
        chk.ok(rule, fi.qual, "%d join calls, none over a collection of plugin objects" % n)


def run(chk):
    chk.guard("O14.7", MAPPING_LOAD, error_text_is_total, chk)
    chk.guard("O14.6", "SectionPlugin.load", plugin_identity, chk)
    chk.guard("O14.1", MAPPING_LOAD, mapping_rules, chk)
    chk.guard("O14.3", SECTION_LOADER, loader_rules, chk)
    chk.guard("O14.5", CONSTRAINTS, constraints_rules, chk)
