"""C12 -- runtime lifecycle: exclusive accept, shutdown always completes, restart possible."""
import ast

from .. import util
from ..interp import Interp, Path, exc_value, is_exc, show, strip_sites, subterms, NONE, REPRESENTATIVES
from .. import slots
from ..report import Undecided

SELF = ("sym", "self")
GUARD = "cobald.daemon.runners.guard:exclusive"
SERVICE_RUNNER = "cobald.daemon.runners.service:ServiceRunner"
META = "cobald.daemon.runners.meta_runner:MetaRunner"
TOTAL_ATTRS = {"set", "clear", "is_set", "release", "acquire", "locked", "done", "cancelled"}
LOG_ATTRS = {"debug", "info", "warning", "error", "exception", "critical", "log"}


def pessimistic(ct, node):
    """may this opaque call raise?  everything except the small table of total primitives"""
    f = ct[1]
    if f[0] == "attr" and f[2] in TOTAL_ATTRS:
        return False
    if f[0] == "glob" and f[1] in ("ext:builtins.min", "ext:builtins.max", "ext:builtins.isinstance", "ext:builtins.len", "ext:contextlib.ExitStack", "ext:contextlib.AsyncExitStack"):
        return False
    # registering a callback on an ExitStack is bookkeeping (append to a deque): it does not fail
    if f[0] == "attr" and f[2] in ("callback", "push") and f[1][0] == "enter" and strip_sites(f[1][1])[:2] in (("call", ("glob", "ext:contextlib.ExitStack")), ("call", ("glob", "ext:contextlib.AsyncExitStack"))):
        return False
    return True


def lock_pairing(chk):
    prog = chk.program
    rule = "O12.1"
    outer = prog.func(GUARD)
    makers = [f for f in prog.functions.values() if f.parent is outer]
    wrappers = [f for f in prog.functions.values() if f.parent in makers]
    if len(makers) != 1 or len(wrappers) != 1:
        chk.undecided(rule, outer.qual, "exclusive is not decorator-factory / decorator / wrapper", node=outer.node)
        return
    mk, fi = makers[0], wrappers[0]
    name = fi.qual
    fnc = ("sym", mk.params(skip_self=False)[0])
    # the lock: a free variable of the wrapper, bound once in the decorator by calling the factory
    lock = None
    for st in mk.node.body:
        if isinstance(st, ast.Assign) and isinstance(st.value, ast.Call) and isinstance(st.targets[0], ast.Name):
            d = util.dotted(st.value.func)
            if d in [a.arg for a in outer.node.args.args] or (prog.resolve(mk.module, st.value.func) or "").startswith("ext:threading."):
                lock = st.targets[0].id
    in_wrapper = [n for n in ast.walk(fi.node) if isinstance(n, ast.Assign) and isinstance(n.value, ast.Call) and (util.dotted(n.value.func) in [a.arg for a in outer.node.args.args] or (prog.resolve(fi.module, n.value.func) or "").startswith("ext:threading."))]
    if in_wrapper:
        chk.bad(rule, name, "the guard lock is created inside the wrapper, i.e. per call: concurrent calls never contend for the same lock", node=in_wrapper[0], stmt="lock-per-call")
        return
    if lock is None:
        chk.undecided(rule, mk.qual, "no lock created once per decorated function", node=mk.node)
        return
    # defaulted parameters of the decorator besides the function; they keep their defaults when every use of
    # exclusive(...) in the package is as a decorator (which calls the result with the function alone)
    a_ = mk.node.args
    pos_ = [x.arg for x in a_.posonlyargs + a_.args]
    mk_defaults = {nm: ("const", d.value) for nm, d in zip(pos_[len(pos_) - len(a_.defaults):], a_.defaults) if isinstance(d, ast.Constant)} if a_.defaults else {}
    mk_defaults.update({x.arg: ("const", d.value) for x, d in zip(a_.kwonlyargs, a_.kw_defaults) if isinstance(d, ast.Constant)})
    deco_calls = {id(d) for m in prog.modules.values() for n in ast.walk(m.tree) if isinstance(n, (ast.FunctionDef, ast.AsyncFunctionDef, ast.ClassDef)) for d in n.decorator_list}
    decorator_only = all(id(n) in deco_calls for m in prog.modules.values() for n in ast.walk(m.tree) if isinstance(n, ast.Call) and prog.resolve(m, n.func) == GUARD)
    LOCK = ("sym", lock)
    ACQ, REL = ("attr", LOCK, "acquire"), ("attr", LOCK, "release")
    inj = [("value", ("sym", "result"))] + [("raise", REPRESENTATIVES[k]) for k in ("AnyException", "OtherBase", "KeyboardInterrupt")]
    ok = True
    for acquired in (True, False):

        def hook(it, path, ct, node, acquired=acquired):
            if ct[0] != "call":
                return None
            if ct[1] == ACQ:
                return [("value", ("const", acquired))]
            if ct[1] == fnc:
                return inj
            return None

        outs = Interp(prog, fi, call_hook=hook, pessimistic=pessimistic).run()
        chk.count(len(outs))
        for o in outs:
            evs = o.path.events
            acq = [e[1] for e in evs if e[0] == "call" and e[1][1] == ACQ]
            rel = [e for e in evs if e[0] == "call" and e[1][1] == REL]
            ran = [e for e in evs if e[0] == "call" and e[1][1] == fnc]
            label = "acquire %s; guarded call %s" % ("succeeds" if acquired else "fails", ("-> " + (show(o.value) if o.kind == "raise" else o.kind)) if ran else "not reached")
            if len(acq) != 1:
                chk.bad(rule, name, "the lock is acquired %d times" % len(acq), node=fi.node, stmt="acquire-count", input=label)
                ok = False
                continue
            kws = dict((k, v) for k, v in acq[0][3] if k)
            nb = kws.get("blocking", acq[0][2][0] if acq[0][2] else None)
            if nb is not None and nb[0] == "sym" and nb[1] in mk_defaults and decorator_only:
                # a defaulted parameter of the decorator, which `@exclusive()` never supplies
                nb = mk_defaults[nb[1]]
            if nb != ("const", False):
                chk.bad(rule, name, "acquire is blocking: a concurrent accept waits instead of raising RuntimeError", node=fi.node, stmt="blocking-acquire")
                ok = False
            if acquired:
                if len(rel) != 1:
                    chk.bad(
                        rule,
                        name,
                        "on the path [%s] the lock is released %d times (required: exactly once on every exit): %s" % (label, len(rel), "the lock stays held and every later accept raises RuntimeError" if not rel else "double release"),
                        node=fi.node,
                        stmt="release-count %d on %s" % (len(rel), "exception" if o.kind == "raise" else o.kind),
                        input=label,
                    )
                    ok = False
                if len(ran) != 1:
                    chk.bad(rule, name, "the guarded function is called %d times" % len(ran), node=fi.node, stmt="call-count", input=label)
                    ok = False
                elif list(ran[0][1][2]) != [("star", ("sym", "args"))] or list(ran[0][1][3]) != [(None, ("sym", "kwargs"))]:
                    chk.bad(rule, name, "the guarded function is not called with (*args, **kwargs)", node=fi.node, stmt="call-args")
                    ok = False
                if o.kind == "return" and o.value != ("sym", "result"):
                    chk.bad(rule, name, "the wrapper returns %s instead of the function's result" % show(o.value), node=fi.node, stmt="return")
                    ok = False
                if o.kind == "raise" and ran and any(e[0] == "raised-at-call" and e[1] == o.value for e in evs) is False:
                    chk.bad(rule, name, "an exception of the guarded function is replaced by %s" % show(o.value), node=fi.node, stmt="exception-replaced", input=label)
                    ok = False
            else:
                if rel:
                    chk.bad(rule, name, "a failed acquire releases the lock held by the active runner", node=fi.node, stmt="release-on-failed-acquire", input=label)
                    ok = False
                if ran:
                    chk.bad(rule, name, "the guarded function runs although the lock was not acquired", node=fi.node, stmt="runs-unguarded", input=label)
                    ok = False
                if not (o.kind == "raise" and o.value[1] == "ext:builtins.RuntimeError"):
                    chk.bad(rule, name, "a concurrent call does not raise RuntimeError (path ends: %s)" % (show(o.value) if o.kind == "raise" else o.kind), node=fi.node, stmt="no-runtime-error", input=label)
                    ok = False
    # accept carries the decorator
    acc = prog.method(SERVICE_RUNNER, "accept")
    decos = [prog.resolve(acc.module, d.func if isinstance(d, ast.Call) else d) for d in acc.node.decorator_list]
    if GUARD not in decos:
        chk.bad(rule, acc.qual, "accept is not guarded by exclusive(): two runners can accept at the same time", node=acc.node, stmt="accept-unguarded")
        ok = False
    else:
        d = [d for d in acc.node.decorator_list if prog.resolve(acc.module, d.func if isinstance(d, ast.Call) else d) == GUARD][0]
        if not isinstance(d, ast.Call):
            chk.bad(rule, acc.qual, "@exclusive is applied without being called: accept is replaced by the decorator function", node=d, stmt="exclusive-uncalled")
            ok = False
        elif d.args or d.keywords:
            chk.undecided(rule, acc.qual, "exclusive() is given a custom lock factory", node=d)
            ok = False
    if ok:
        chk.ok(rule, name, "non-blocking acquire of one shared lock; released exactly once on every exit (return, Exception, BaseException, KeyboardInterrupt) of the acquired path; RuntimeError and untouched lock otherwise; accept is decorated", node=fi.node, input="2 x 4 outcomes, every other call may throw")


def own_helpers(cls, entry):
    """inline small synchronous own-class helpers (extracted blocks), never the public lifecycle methods"""

    def flt(f, ct):
        # own coroutine helpers are inlined too: in this class they are only ever awaited in place
        return f.cls is cls and f is not entry and f.name not in ("accept", "shutdown", "adopt", "execute", "_adopt_services")

    return flt


def _sweep_name(prog):
    acc = prog.method(SERVICE_RUNNER, "accept")
    for n in ast.walk(acc.node):
        if isinstance(n, ast.Call) and isinstance(n.func, ast.Attribute) and n.func.attr == "adopt" and n.args:
            d = util.dotted(n.args[0])
            if d and d.startswith("self."):
                return d.split(".")[1]
    raise Undecided("accept does not adopt a sweep coroutine", acc.node)


def _sweep_adopted_elsewhere(prog):
    """(method, call node, coroutine name) of `self.adopt(self.<own coroutine>, ...)` outside accept"""
    cls = prog.cls(SERVICE_RUNNER)
    for fis in cls.methods.values():
        for f in fis:
            if f.name == "accept":
                continue
            for n in ast.walk(f.node):
                if isinstance(n, ast.Call) and isinstance(n.func, ast.Attribute) and n.func.attr in ("adopt", "register_payload") and n.args:
                    d = util.dotted(n.args[0])
                    if d and d.startswith("self.") and d.count(".") == 1:
                        g = prog.lookup_method(cls, d.split(".")[1])
                        if g is not None and g.is_async:
                            return f, n, g.name
    return None


def flag_writers(chk, rule="O12.4"):
    """who may write the shutdown request flag: __init__ (False), accept (False, before anything is started), shutdown (True).
    Shared with C03: the sweep that starts the services only runs when a new accept begins with a clean flag and nothing
    clears or sets the flag behind its back"""
    prog = chk.program
    cls = prog.cls(SERVICE_RUNNER)
    try:
        sweep_name = _sweep_name(prog)
    except Undecided:
        other = _sweep_adopted_elsewhere(prog)
        if other is None:
            raise
        f, n_, g = other
        chk.bad(rule, f.qual, "the sweep %s is adopted in %s instead of in accept: it is queued once per object and used up by the first run, so a later accept() of the same runner runs no sweep and starts no service" % (g, f.name), node=n_, stmt="sweep adopted in %s" % f.name)
        return False
    ok = True
    n = 0
    for fis in cls.methods.values():
        for f in fis:
            for node in ast.walk(f.node):
                if isinstance(node, (ast.Assign, ast.AugAssign, ast.AnnAssign)):
                    tg = node.targets if isinstance(node, ast.Assign) else [node.target]
                    for t in tg:
                        if isinstance(t, ast.Attribute) and t.attr == slots.shutdown_flag(prog):
                            n += 1
                            chk.count()
                            val = node.value.value if isinstance(node.value, ast.Constant) else None
                            if f.name == "__init__" and val is False:
                                continue
                            if f.name == "shutdown" and val is True:
                                continue
                            if f.name == "accept" and val is False:
                                # must precede starting anything
                                body = f.node.body
                                first_call = min((s.lineno for s in body if any(isinstance(x, ast.Call) and isinstance(x.func, ast.Attribute) and x.func.attr in ("adopt", "run") for x in ast.walk(s))), default=10**9)
                                if node.lineno < first_call:
                                    continue
                                chk.bad(rule, f.qual, "accept resets the shutdown request flag after it has started the sweep / the runners: a request made in between is lost", node=node, stmt="reset-late")
                                ok = False
                                continue
                            callers = {g.name for gs in cls.methods.values() for g in gs for c_ in ast.walk(g.node) if isinstance(c_, ast.Call) and util.dotted(c_.func) == "self." + f.name}
                            if callers and ((callers <= {"__init__", "accept"} and val is False) or (callers <= {"shutdown"} and val is True)):
                                if "accept" in callers:
                                    acc_ = prog.method(SERVICE_RUNNER, "accept")
                                    first_call = min((s_.lineno for s_ in acc_.node.body if any(isinstance(x, ast.Call) and isinstance(x.func, ast.Attribute) and x.func.attr in ("adopt", "run") for x in ast.walk(s_))), default=10**9)
                                    mine = min((c_.lineno for c_ in ast.walk(acc_.node) if isinstance(c_, ast.Call) and util.dotted(c_.func) == "self." + f.name), default=10**9)
                                    if mine < first_call:
                                        continue
                                else:
                                    continue
                            chk.bad(
                                rule,
                                f.qual,
                                "the shutdown request flag is written (%s) in %s: a request issued by shutdown() %s can be overwritten, after which shutdown() blocks forever and accept() never returns"
                                % (util.unparse(node.value), f.name, "after `running` is reported" if f.name == sweep_name else "concurrently"),
                                node=node,
                                stmt="flag-write in %s" % f.name,
                            )
                            ok = False
    if n < 3:
        chk.bad(rule, cls.qual, "the shutdown request flag is not (re)initialised in __init__, accept and shutdown (%d writes found): after one shutdown a new accept ends immediately" % n, node=cls.node, stmt="flag-writes")
        ok = False
    if ok and rule != "O12.4":
        chk.ok(rule, cls.qual, "the shutdown request flag is written only in __init__ (False), accept (False, before starting) and shutdown (True): every accept runs its service sweep (%d writes)" % n, node=cls.node)
    return ok


def sweep(chk):
    prog = chk.program
    cls = prog.cls(SERVICE_RUNNER)
    # the sweep = the coroutine accept adopts
    acc = prog.method(SERVICE_RUNNER, "accept")
    sweep_name = None
    for n in ast.walk(acc.node):
        if isinstance(n, ast.Call) and isinstance(n.func, ast.Attribute) and n.func.attr == "adopt" and n.args:
            d = util.dotted(n.args[0])
            if d and d.startswith("self."):
                sweep_name = d.split(".")[1]
    if sweep_name is None:
        other = _sweep_adopted_elsewhere(prog)
        if other is not None:
            f, n, g = other
            chk.bad(
                "O12.4",
                f.qual,
                "the sweep %s is adopted in %s instead of in accept: it is queued once per object and used up by the first run (the pre-start queue is cleared when the runners start), so every later accept() of the same runner blocks in the meta runner "
                "without a sweep -- `running` is never reported, shutdown() is never armed and accept() never returns" % (g, f.name),
                node=n,
                stmt="sweep adopted in %s" % f.name,
            )
            return
        raise Undecided("accept does not adopt a sweep coroutine", acc.node)
    fi = prog.lookup_method(cls, sweep_name)
    name = fi.qual
    RUNNING = ("attr", SELF, "running")
    ev_name = slots.shutdown_event(prog)
    ISDOWN = ("attr", SELF, ev_name) if ev_name else None
    FLAG = ("attr", SELF, slots.shutdown_flag(prog))
    SLEEP = ("glob", "ext:trio.sleep")
    inj = [("raise", exc_value("ext:trio.Cancelled", "injected")), ("raise", REPRESENTATIVES["AnyException"]), ("raise", REPRESENTATIVES["OtherBase"])]

    # ---- O12.2 event pairing ------------------------------------------------------------------
    rule = "O12.2"
    ok = True
    for must in ((False, True), (False, False), (True,)):
        state = {"i": 0}

        def decide(it, path, term, must=must):
            if term in (FLAG, ("truthy", FLAG)):
                n = len([e for e in path.events if e[0] == "branch" and FLAG in list(subterms(e[1]))])
                return must[min(n, len(must) - 1)]
            return None

        def hook(it, path, ct, node):
            if ct[0] == "call" and ct[1] == SLEEP:
                return [("value", NONE)] + inj
            return None

        outs = Interp(prog, fi, call_hook=hook, decide=decide, pessimistic=pessimistic, unroll=2, inline=own_helpers(cls, fi)).run()
        chk.count(len(outs))
        for o in outs:
            evs = o.path.events
            def idx(recv, attr):
                return [i for i, e in enumerate(evs) if e[0] == "call" and e[1][1] == ("attr", recv, attr)]
            rs, rc = idx(RUNNING, "set"), idx(RUNNING, "clear")
            dc, ds = idx(ISDOWN, "clear"), idx(ISDOWN, "set")
            label = "flag sequence %s, path ends: %s" % (must, show(o.value) if o.kind == "raise" else o.kind)
            if o.kind == "cut":
                continue
            if ISDOWN is not None and rs and (not dc or dc[0] > rs[0]):
                chk.bad(rule, name, "running is reported before the shutdown-complete event is cleared: a shutdown() issued right after `running` returns without waiting for the sweep", node=fi.node, stmt="running-before-clear", input=label)
                ok = False
            if rs and (not rc or rc[-1] < rs[-1]):
                chk.bad(rule, name, "on the path [%s] `running` stays set after the sweep has ended" % label, node=fi.node, stmt="running-not-cleared", input=label)
                ok = False
            if dc and (not ds or ds[-1] < dc[-1]):
                chk.bad(rule, name, "on the path [%s] the shutdown-complete event is never set again: shutdown() blocks forever" % label, node=fi.node, stmt="is-shutdown-not-set", input=label)
                ok = False
    if ok:
        chk.ok(rule, name, "_is_shutdown.clear() precedes running.set(); running.clear() and _is_shutdown.set() happen on every exit (normal, trio.Cancelled, Exception, BaseException, with every other call allowed to throw)", node=fi.node)

    # ---- O12.3 shutdown protocol ---------------------------------------------------------------
    rule = "O12.3"
    ok = True
    sd = prog.method(SERVICE_RUNNER, "shutdown")
    outs = Interp(prog, sd, inline=own_helpers(cls, sd)).run()
    chk.count(len(outs))
    for o in outs:
        evs = o.path.events
        st = [i for i, e in enumerate(evs) if e[0] == "store" and e[1] == FLAG and e[2] == ("const", True)]
        wt = [i for i, e in enumerate(evs) if e[0] == "call" and e[1][1] == ("attr", ISDOWN, "wait")]
        sp = [i for i, e in enumerate(evs) if e[0] == "call" and e[1][1][0] == "attr" and e[1][1][2] == "stop" and e[1][1][1] == ("attr", SELF, slots.service_meta(prog))]
        if ISDOWN is None and len(sp) == 1:
            # no wait at all: stopping the runners cancels the sweep, which is enough for accept() to return
            continue
        if len(st) != 1 or len(wt) != 1 or len(sp) != 1:
            chk.bad(rule, sd.qual, "shutdown does not perform exactly: set the request flag, wait for the sweep's end event, stop the runners (flag writes %d, waits %d, stops %d)" % (len(st), len(wt), len(sp)), node=sd.node, stmt="shutdown-steps")
            ok = False
        elif not (st[0] < wt[0] < sp[0]):
            chk.bad(rule, sd.qual, "shutdown order is wrong (required: request flag BEFORE waiting for the sweep, runners stopped AFTER): %s" % ("the wait happens before the request, so it blocks forever" if wt[0] < st[0] else "the runners are stopped before the sweep has ended"), node=sd.node, stmt="shutdown-order")
            ok = False
        elif evs[wt[0]][1][2] or evs[wt[0]][1][3]:
            chk.notes.append("shutdown waits with a timeout")
    # every OTHER event shutdown() waits for without a timeout must be signalled from inside the runtime (by the sweep,
    # before the runners stop).  An event that only accept() sets after MetaRunner.run() has returned makes shutdown wait
    # for the end of accept -- but shutdown may be running on a thread accept has to join first (asyncio.run joins the
    # default executor: asyncio.to_thread(runner.shutdown); trio.to_thread likewise), so neither ever returns
    for o in outs:
        for e in o.path.events:
            if e[0] == "call" and e[1][1][0] == "attr" and e[1][1][2] == "wait" and e[1][1][1][0] == "attr" and e[1][1][1][1] == SELF and e[1][1][1] != ISDOWN:
                chk.count()
                if e[1][2] or any(k == "timeout" for k, _v in e[1][3]):
                    continue
                ev_attr = e[1][1][1][2]
                setters = set()
                for fs in cls.methods.values():
                    for f in fs:
                        for n in ast.walk(f.node):
                            if isinstance(n, ast.Call) and isinstance(n.func, ast.Attribute) and n.func.attr == "set" and util.dotted(n.func.value) == "self." + ev_attr:
                                setters.add(f.name)
                inside = {fi.name} | {f.name for fs in cls.methods.values() for f in fs if own_helpers(cls, fi)(f, None) and f.name in {x.func.attr for x in ast.walk(fi.node) if isinstance(x, ast.Call) and isinstance(x.func, ast.Attribute)}}
                if not (setters & inside):
                    chk.bad(
                        rule,
                        sd.qual,
                        "shutdown also waits (without timeout) for self.%s, which is only set in %s -- not by the sweep inside the runtime: when shutdown() runs on a thread that accept() must join before it can return (asyncio.to_thread / trio.to_thread from a payload), both block forever and the exclusivity guard is never released"
                        % (ev_attr, sorted(setters - {"__init__"}) or "nothing"),
                        node=sd.node,
                        stmt="shutdown-waits-for-accept %s" % ev_attr,
                    )
                    ok = False
    # the sweep tests the flag on every iteration and sleeps a bounded time
    loop = util.the_loop(fi) or next((n for n in ast.walk(fi.node) if isinstance(n, ast.While)), None)
    loop_fi = fi
    if loop is None:
        # the polling loop may live in an own coroutine helper the sweep awaits
        for n in ast.walk(fi.node):
            if isinstance(n, ast.Await) and isinstance(n.value, ast.Call) and isinstance(n.value.func, ast.Attribute) and util.dotted(n.value.func.value) == "self":
                h = prog.lookup_method(cls, n.value.func.attr)
                if h is not None and h.is_async:
                    hl = util.the_loop(h) or next((x for x in ast.walk(h.node) if isinstance(x, ast.While)), None)
                    if hl is not None:
                        loop, loop_fi = hl, h
    if loop is None or not isinstance(loop, ast.While):
        chk.undecided(rule, name, "the sweep has no while loop", node=fi.node)
        ok = False
    else:
        mentions = any(isinstance(n, ast.Attribute) and n.attr == slots.shutdown_flag(prog) for n in ast.walk(loop.test))
        breaks = [n for n in ast.walk(loop) if isinstance(n, ast.If) and any(isinstance(x, ast.Attribute) and x.attr == slots.shutdown_flag(prog) for x in ast.walk(n.test)) and any(isinstance(b, (ast.Break, ast.Return)) for b in n.body)]
        if not mentions and not breaks:
            chk.bad(rule, name, "the sweep loop does not test the shutdown request flag: shutdown() never makes accept() return", node=loop, stmt="flag-not-tested")
            ok = False
        inner = [n for n in ast.walk(loop) if n is not loop and isinstance(n, (ast.While, ast.For, ast.AsyncFor))]
        if inner:
            chk.undecided(rule, name, "nested loop inside the sweep", node=inner[0])
            ok = False
        # sleep bound
        def hook2(it, path, ct, node):
            return None

        def decide2(it, path, term):
            if term in (FLAG, ("truthy", FLAG)):
                return False
            return None

        outs = Interp(prog, fi, decide=decide2, unroll=2, inline=own_helpers(cls, fi)).run()
        DELAY = ("attr", SELF, "accept_delay")
        for o in outs:
            sl = [e[1] for e in o.path.events if e[0] == "call" and e[1][1] == SLEEP]
            for k, ct in enumerate(sl):
                a = ct[2][0] if ct[2] else None
                chk.count()
                if a is None:
                    continue
                if a[0] == "const":
                    continue
                if a == DELAY:
                    continue
                if a[0] == "call" and a[1] == ("glob", "ext:builtins.min") and DELAY in a[2]:
                    continue
                chk.bad(rule, name, "the %s sleep of the sweep is %s: it is not bounded by accept_delay, so the time until a shutdown request is seen is unbounded" % ("first" if k == 0 else "second", show(strip_sites(a))), node=loop, stmt="sleep-unbounded")
                ok = False
            if not sl:
                chk.bad(rule, name, "the sweep never sleeps between polls", node=loop, stmt="no-sleep")
                ok = False
            break
        # every polling cycle passes an awaited trio checkpoint -- on every path, for every accept_delay
        body_it = Interp(prog, loop_fi, unroll=1, inline=own_helpers(cls, loop_fi))
        for o in body_it.exec_block(loop.body, Path()):
            chk.count()
            if o.kind not in ("normal", "continue"):
                continue
            cps = [e for e in o.path.events if e[0] == "call" and e[3] and e[1][1][0] == "glob" and e[1][1][1] in ("ext:trio.sleep", "ext:trio.lowlevel.checkpoint", "ext:trio.sleep_until")]
            if not cps:
                conds = "; ".join("%s is %s" % (show(e[1]), e[2]) for e in o.path.events if e[0] == "branch" and e[4] == "forked")
                chk.bad(
                    rule,
                    name,
                    "a polling cycle can complete without any awaited trio checkpoint (%s): the sweep then spins without ever yielding, cancellation (payload failure, KeyboardInterrupt) can never be delivered and accept() never ends" % (conds or "unconditionally"),
                    node=loop,
                    stmt="cycle-without-checkpoint",
                )
                ok = False
        # requested exit returns None
        def decide3(it, path, term):
            if term in (FLAG, ("truthy", FLAG)):
                return True
            return None

        for o in Interp(prog, fi, decide=decide3, unroll=1, inline=own_helpers(cls, fi)).run():
            if o.kind == "return" and o.value != NONE:
                chk.bad(rule, name, "the sweep returns %s on the requested exit: an orphaned return value makes accept() raise instead of returning" % show(o.value), node=fi.node, stmt="sweep-returns-value")
                ok = False
            if o.kind == "raise":
                chk.bad(rule, name, "the sweep raises %s on the requested exit" % show(o.value), node=fi.node, stmt="sweep-raises")
                ok = False
    if ok:
        chk.ok(rule, sd.qual, "request flag, then wait for the sweep's end, then stop the runners; the sweep tests the flag every iteration, sleeps at most accept_delay and ends without a value", node=sd.node)

    # ---- O12.4 who may write the request flag; restart ----------------------------------------
    rule = "O12.4"
    ok = True
    if not flag_writers(chk, rule):
        ok = False
    # fresh runners per run; running cleared in finally; close-all clears the mapping
    launch = slots.launcher(prog)
    fresh = any(isinstance(nn, ast.Assign) and any(isinstance(t, ast.Attribute) and t.attr == slots.runners_map(prog) for t in nn.targets) and isinstance(nn.value, (ast.Dict, ast.Call)) for nn in ast.walk(launch.node))
    if not fresh:
        chk.bad(rule, launch.qual, "the runner mapping is not rebuilt for a new run: a restarted runtime reuses stopped runners", node=launch.node, stmt="runners-not-fresh")
        ok = False
    mr = slots.supervisor(prog)
    inj2 = [("value", NONE)] + [("raise", REPRESENTATIVES[k]) for k in ("AnyException", "KeyboardInterrupt", "asyncio.CancelledError")]

    def hook3(it, path, ct, node):
        if ct[0] == "call" and ct[1] == ("glob", "ext:asyncio.gather"):
            return inj2
        return None

    outs = Interp(prog, mr, call_hook=hook3, pessimistic=pessimistic).run()
    chk.count(len(outs))
    MR = ("attr", SELF, "running")
    for o in outs:
        evs = o.path.events
        s_ = [i for i, e in enumerate(evs) if e[0] == "call" and e[1][1] == ("attr", MR, "set")]
        c_ = [i for i, e in enumerate(evs) if e[0] == "call" and e[1][1] == ("attr", MR, "clear")]
        if s_ and (not c_ or c_[-1] < s_[-1]):
            chk.bad(rule, mr.qual, "MetaRunner.running stays set when the run ends by %s: payloads registered for the next run are sent to dead runners instead of being queued" % (show(o.value) if o.kind == "raise" else o.kind), node=mr.node, stmt="meta-running-not-cleared")
            ok = False
            break
    if ok:
        chk.ok(rule, cls.qual, "the request flag is written only in __init__ (False), accept (False, before starting) and shutdown (True); runners are rebuilt per run; MetaRunner.running is cleared on every exit", node=cls.node)


def run(chk):
    chk.guard("O12.1", GUARD, lock_pairing, chk)
    chk.guard("O12.2", SERVICE_RUNNER, sweep, chk)
    from . import c02

    chk.guard("O12.4", META, c02.mapping_cleared, chk, "O12.4")
    chk.guard("O12.6", "<runners>", c02.aclose_wakes_manage, chk, "O12.6")
    chk.guard("O12.6", META + ".stop", c02.stop_chain, chk)
    # "whatever the payloads are doing": closing never waits for thread payloads (shared with C02)
    chk.guard("O2.5", "<thread runner>", c02.thread_runner, chk)
    # shutdown() returns when aclose() of every runner does: the asyncio runner re-cancels every unfinished task each
    # round (a payload that absorbs one cancellation is cancelled again), the trio runner cancels its nursery
    chk.guard("O2.3", "<asyncio runner>", c02.asyncio_runner, chk)
    chk.guard("O2.4", "<trio runner>", c02.trio_runner, chk)
    chk.guard("O2.1", META, c02.supervisor, chk)
    # "a KeyboardInterrupt has the same effect": it must reach MetaRunner.run AS a KeyboardInterrupt, i.e. pass
    # manage_payloads / BaseRunner.run / the supervising coroutine unchanged (shared with C01)
    from . import c01

    found = chk.guard("O1.1", "<runners>", c01.monitors_and_outcomes, chk) or {}
    chk.guard("O1.3", "<runners>", c01.propagation_to_run, chk, found)
    chk.guard("O1.5", META, c01.meta_chain, chk)
    # ... and the failure / interrupt of a payload THREAD wakes the loop (thread-safe hand-over only)
    chk.guard("O1.9", "<runners>", c01.thread_affinity, chk, found)
