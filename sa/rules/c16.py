"""C16 -- decorators are transparent except for what they are meant to change."""
import ast

from .. import util
from ..interp import Interp, Path, exc_value, is_exc, show, strip_sites, subterms
from .. import slots
from ..report import Undecided

SELF = ("sym", "self")
TARGET = ("attr", SELF, "target")
DECO = util.DECORATOR
LOGGER = "cobald.decorator.logger:Logger"
SHIPPED = ["cobald.decorator.logger:Logger", "cobald.decorator.standardiser:Standardiser", "cobald.decorator.buffer:Buffer"]
ACCESSORS = ("supply", "demand", "utilisation", "allocation")
KEYERROR = exc_value("ext:builtins.KeyError", "injected")


def forwarding(chk):
    prog = chk.program
    rule = "O16.1"
    cls = prog.cls(DECO)
    for p in ACCESSORS:
        g = prog.pick(cls.methods.get(p, []), "getter")
        if g is None:
            chk.bad(rule, cls.qual, "PoolDecorator does not forward %s" % p, node=cls.node, stmt="missing-%s" % p)
            continue
        outs = Interp(prog, g).run()
        chk.count(len(outs))
        vals = {strip_sites(o.value) for o in outs if o.kind == "return"}
        if len(outs) == 1 and vals == {("attr", TARGET, p)}:
            chk.ok(rule, g.qual, "returns self.target.%s" % p, node=g.node)
        else:
            chk.bad(rule, g.qual, "the %s reported through a plain decorator is %s, not exactly the target's %s" % (p, " | ".join(show(v) for v in vals) or "nothing", p), node=g.node, stmt="forward-%s" % p)
    s = prog.pick(cls.methods.get("demand", []), "setter")
    if s is None:
        chk.bad(rule, cls.qual, "PoolDecorator has no demand setter", node=cls.node, stmt="no-setter")
        return
    outs = Interp(prog, s).run()
    chk.count(len(outs))
    v = ("sym", s.params()[0])
    ok = True
    for o in outs:
        st = [e for e in o.path.events if e[0] in ("store", "aug")]
        if o.kind not in ("normal", "return") or len(st) != 1 or st[0][0] != "store" or st[0][1] != ("attr", TARGET, "demand") or st[0][2] != v:
            chk.bad(rule, s.qual, "a demand write through a plain decorator does not store the value unmodified into the target's demand: %s" % [(show(e[1]), show(e[2])) for e in st], node=s.node, stmt="setter-forward")
            ok = False
    if ok:
        chk.ok(rule, s.qual, "stores its parameter unmodified into self.target.demand", node=s.node)
    init = prog.lookup_method(cls, "__init__")
    outs = Interp(prog, init).run()
    st = [e for o in outs for e in o.path.events if e[0] == "store" and e[1] == TARGET]
    if len(st) != 1 or st[0][2] != ("sym", "target"):
        chk.bad(rule, init.qual, "the decorator does not keep the given target", node=init.node, stmt="target-store")


def census(chk):
    prog = chk.program
    rule = "O16.2"
    n = 0
    for c in prog.subclasses(DECO):
        n += 1
        chk.count()
        over = sorted((set(c.methods) | set(c.class_attrs) | set(c.fields)) & {"supply", "utilisation", "allocation"})
        if over:
            chk.bad(rule, c.qual, "%s overrides %s: seen through it a pool no longer reports exactly the underlying values" % (c.name, over), node=c.node, stmt="overrides %s" % over)
        else:
            chk.ok(rule, c.qual, "overrides none of supply / utilisation / allocation", node=c.node)
        # `target` must stay the plain attribute of the base class
        if "target" in c.methods:
            chk.bad(rule, c.qual, "%s turns `target` into a property" % c.name, node=c.node, stmt="target-property")
    chk.floor(rule, n, 3)


def logger_rules(chk):
    prog = chk.program
    cls = prog.cls(LOGGER)
    g = prog.pick(cls.methods.get("demand", []), "getter")
    s = prog.pick(cls.methods.get("demand", []), "setter")
    rule = "O16.3"
    if g is None or s is None:
        chk.bad(rule, cls.qual, "Logger.demand is not a property with getter and setter", node=cls.node, stmt="no-property")
        return
    outs = Interp(prog, g).run()
    if not (len(outs) == 1 and outs[0].kind == "return" and outs[0].value == ("attr", TARGET, "demand")):
        chk.bad(rule, g.qual, "demand read through a Logger is not exactly the target's demand", node=g.node, stmt="getter")
    v = ("sym", s.params()[0])
    outs = Interp(prog, s, inline=lambda f, ct: f.cls is cls and not f.is_async).run()
    chk.count(len(outs))
    ok = True
    emission_keys = None
    for o in outs:
        evs = o.path.events
        if o.kind not in ("normal", "return"):
            chk.bad(rule, s.qual, "the Logger's demand setter ends by %s" % o.kind, node=s.node, stmt="exit")
            ok = False
            continue
        logs = [(i, e) for i, e in enumerate(evs) if e[0] == "call" and e[1][1][0] == "attr" and e[1][1][2] in ("log", "debug", "info", "warning", "error", "critical", "exception")]
        writes = [(i, e) for i, e in enumerate(evs) if e[0] in ("store", "aug") and e[1] == ("attr", TARGET, "demand")]
        if len(logs) != 1:
            chk.bad(rule, s.qual, "a demand write emits %d log records on a path (required: exactly one)%s" % (len(logs), "; condition: %s" % "; ".join(show(e[1]) for e in evs if e[0] == "branch" and e[4] == "forked") if any(e[0] == "branch" for e in evs) else ""), node=s.node, stmt="log-count")
            ok = False
            continue
        if len(writes) != 1 or writes[0][1][0] != "store" or writes[0][1][2] != v:
            chk.bad(rule, s.qual, "a demand write through the Logger is not applied exactly once and unchanged (%s)" % [show(e[2]) for _i, e in writes], node=s.node, stmt="write")
            ok = False
            continue
        if logs[0][0] > writes[0][0]:
            chk.bad(rule, s.qual, "the record is emitted AFTER the write is applied: it reports the target's state from after the write", node=s.node, stmt="log-after-write")
            ok = False
        ct = logs[0][1][1]
        if ct[1] != ("attr", ("attr", SELF, slots.logger_attr(prog, cls)), "log"):
            chk.bad(rule, s.qual, "the record is emitted through %s instead of the configured logger at the configured level" % show(ct[1]), node=s.node, stmt="log-call")
            ok = False
            continue
        args = list(ct[2])
        if len(args) != 3 or args[0] != ("attr", SELF, "level") or args[1] != ("attr", SELF, "message"):
            chk.bad(rule, s.qual, "the record is emitted as log(%s): required log(self.level, self.message, <fields>)" % ", ".join(show(a) for a in args[:2]), node=s.node, stmt="log-args")
            ok = False
            continue
        mp = args[2]
        if mp[0] == "call" and mp[1] == ("glob", "ext:builtins.dict") and not mp[2] and all(k is not None for k, _v in mp[3]):
            mp = ("dict", tuple((("const", k), val) for k, val in mp[3]))  # dict(a=..., b=...) is the literal {"a": ..., "b": ...}
        if mp[0] == "attr" and mp[1] == SELF:
            chk.bad(rule, s.qual, "every record is emitted with the SAME mapping object (self.%s, updated in place on each write): a record that is formatted later -- a MemoryHandler, a queue handler, anything that keeps records -- shows the values of the last write, not of its own" % mp[2], node=s.node, stmt="fields-shared %s" % mp[2])
            ok = False
            continue
        if mp[0] == "dict":
            # {**{f: getattr(self.target, f) for f in ("a", "b")}} over a literal tuple is the literal dict
            entries = []
            for k, val in mp[1]:
                vs = strip_sites(val) if k is None else None
                if k is None and vs[0] == "comp" and vs[1] == "dict" and len(vs[3]) == 1 and not vs[3][0][2] and vs[3][0][1][0] in ("tuple", "list") and all(x[0] == "const" for x in vs[3][0][1][1]) and vs[2][0] == "tuple" and len(vs[2][1]) == 2:
                    var = vs[3][0][0]

                    def subst(t, c, var=var):
                        if t == var:
                            return c
                        if isinstance(t, tuple):
                            t2 = tuple(subst(x, c) for x in t)
                            if len(t2) >= 4 and t2[0] == "call" and t2[1] == ("glob", "ext:builtins.getattr") and len(t2[2]) == 2 and t2[2][1][0] == "const":
                                return ("attr", t2[2][0], t2[2][1][1])
                            return t2
                        return t

                    for c in vs[3][0][1][1]:
                        entries.append((subst(vs[2][1][0], c), subst(vs[2][1][1], c)))
                else:
                    entries.append((k, val))
            mp = ("dict", tuple(entries))
        if mp[0] != "dict" or any(k is None or k[0] != "const" for k, _v in mp[1]):
            chk.undecided(rule, s.qual, "the field mapping is not a literal dict", node=s.node)
            ok = False
            continue
        fields = {k[1]: val for k, val in mp[1]}
        emission_keys = set(fields)
        want = {"value": v, "demand": ("attr", TARGET, "demand"), "supply": ("attr", TARGET, "supply"), "utilisation": ("attr", TARGET, "utilisation"), "allocation": ("attr", TARGET, "allocation"), "consumption": ("attr", TARGET, "allocation"), "target": TARGET}
        for k, w in want.items():
            chk.count()
            if k not in fields:
                chk.bad(rule, s.qual, "the record lacks the documented field %r" % k, node=s.node, stmt="field-missing %s" % k)
                ok = False
            elif fields[k] != w:
                chk.bad(rule, s.qual, "record field %r carries %s instead of %s" % (k, show(fields[k]), show(w)), node=s.node, stmt="field %s" % k)
                ok = False
    if ok:
        chk.ok(rule, s.qual, "exactly one log(self.level, self.message, fields) dominating exactly one unmodified write; every field read from the target before the write", node=s.node)
    # configured logger / level / message
    init = prog.lookup_method(cls, "__init__")
    name_setter = prog.pick(cls.methods.get("name", []), "setter")
    ok2 = True
    if name_setter is None:
        chk.undecided(rule, cls.qual, "no name setter", node=cls.node)
        ok2 = False
    else:
        for none in (True, False):
            outs = Interp(prog, name_setter, decide=lambda it, p, t, none=none: none if t == ("isnone", ("sym", "value")) else None).run()
            for o in outs:
                st = [e for e in o.path.events if e[0] == "store" and e[1] == ("attr", SELF, slots.logger_attr(prog, cls))]
                if len(st) != 1 or not (st[0][2][0] == "call" and st[0][2][1] == ("glob", "ext:logging.getLogger")):
                    chk.bad(rule, name_setter.qual, "the logger is not obtained by logging.getLogger(name)", node=name_setter.node, stmt="getLogger")
                    ok2 = False
                elif not none and list(st[0][2][2]) + [v_ for k_, v_ in st[0][2][3] if k_ == "name"] != [("sym", "value")]:
                    chk.bad(rule, name_setter.qual, "the configured logger name is replaced by %s" % [show(a) for a in list(st[0][2][2]) + [v_ for _k, v_ in st[0][2][3]]], node=name_setter.node, stmt="logger-name")
                    ok2 = False
    # ---- O16.4 / O16.5 ------------------------------------------------------------------
    test_keys = None
    test_name = None
    mod = cls.module
    test_is_function = False
    table_defs = {}
    for nm, node in mod.defs.items():
        if isinstance(node, ast.AnnAssign) and node.value is not None and isinstance(node.target, ast.Name):
            node = ast.Assign(targets=[node.target], value=node.value)  # `_FIELDS: Final = _WarnMap(...)`
        table_defs[nm] = (node, False)
        if isinstance(node, ast.FunctionDef) and not node.args.args and not node.args.kwonlyargs and not node.args.vararg and not node.args.kwarg:
            # built on demand:  def _test_fields(): return _WarnMap(value=..., demand=..., ...)
            rets = [x for x in util.walk_no_nested(node) if isinstance(x, ast.Return)]
            body = [st for st in node.body if not (isinstance(st, ast.Expr) and isinstance(st.value, ast.Constant))]
            if len(rets) == 1 and body == rets and rets[0].value is not None:
                table_defs[nm] = (ast.Assign(targets=[ast.Name(id=nm)], value=rets[0].value), True)
    for nm, (node, is_fn) in table_defs.items():
        if test_keys is not None and is_fn:
            continue
        if isinstance(node, ast.Assign) and isinstance(node.value, ast.Call) and node.value.keywords and not node.value.args:
            kws = [k.arg for k in node.value.keywords]
            if "value" in kws and "demand" in kws:
                test_keys, test_name, test_is_function = set(kws), nm, is_fn
        elif isinstance(node, ast.Assign) and (isinstance(node.value, ast.Dict) or (isinstance(node.value, ast.Call) and len(node.value.args) == 1 and not node.value.keywords and isinstance(node.value.args[0], ast.Dict))):
            dnode = node.value if isinstance(node.value, ast.Dict) else node.value.args[0]
            ks = [k.value for k in dnode.keys if isinstance(k, ast.Constant)]
            if "value" in ks and "demand" in ks:
                test_keys, test_name, test_is_function = set(ks), nm, is_fn
    # the validation mapping's own lookup: a field is known iff its KEY is present -- `.get()` plus a None / truthiness test
    # cannot tell an absent field from one whose test value is None (the documented `target` field of an unnamed pool)
    if test_name is not None:
        tnode = table_defs[test_name][0]
        ctor = tnode.value.func if isinstance(tnode.value, ast.Call) else None
        mcls = prog.classes.get(prog.resolve(mod, ctor) or "") if ctor is not None else None
        gi = prog.lookup_method(mcls, "__getitem__") if mcls is not None else None
        if gi is not None and gi.cls is not None and gi.cls.module is mod:
            chk.count()
            gets = [c for c in ast.walk(gi.node) if isinstance(c, ast.Call) and isinstance(c.func, ast.Attribute) and c.func.attr in ("get", "setdefault", "pop") and (util.dotted(c.func.value) in ("self", "dict") or (isinstance(c.func.value, ast.Call) and util.dotted(c.func.value.func) == "super"))]
            raises_key = any(isinstance(r, ast.Raise) and r.exc is not None and "KeyError" in util.unparse(r.exc) for r in ast.walk(gi.node))
            if gets and raises_key:
                chk.bad("O16.4", gi.qual, "the validation mapping decides whether a field exists from the VALUE it finds (%s, then raise KeyError): a documented field whose test value is None / falsy (%%(target)s) is reported as unknown, so every template naming it is refused at construction" % util.unparse(gets[0])[:40], node=gets[0], stmt="field-presence-by-value")
    r4 = "O16.4"
    chk.count()
    if test_keys is None:
        chk.undecided(r4, cls.qual, "validation field mapping not found in the module", node=cls.node)
    elif emission_keys is not None:
        if test_keys == emission_keys:
            chk.ok(r4, cls.qual, "emission fields == validation fields == %s" % sorted(test_keys), node=cls.node)
        else:
            only_e, only_t = sorted(emission_keys - test_keys), sorted(test_keys - emission_keys)
            chk.bad(r4, cls.qual, "field tables disagree: %s%s" % ("emitted but rejected at construction: %s; " % only_e if only_e else "", "accepted at construction but missing at emission (KeyError on the first demand write): %s" % only_t if only_t else ""), node=cls.node, stmt="key-sets")
    r5 = "O16.5"
    formatted = {"n": 0}

    def binop_hook(it, path, op, l, r, node, inject=None):
        if op == "%" and l == ("sym", "message"):
            path.ev("format", r, getattr(node, "lineno", 0))
            if inject_flag["on"]:
                return [("raise", KEYERROR)]
        return None

    inject_flag = {"on": False}
    ok5 = True
    for inj in (False, True):
        inject_flag["on"] = inj
        outs = Interp(prog, init, binop_hook=binop_hook, inline=lambda f, ct: f.cls is cls and not f.is_async and f is not init and f.name != "__init__").run()
        chk.count(len(outs))
        for o in outs:
            fm = [e for e in o.path.events if e[0] == "format"]
            if not inj:
                if o.kind in ("normal", "return"):
                    if not fm:
                        chk.bad(r5, init.qual, "a Logger can be constructed without its template being test-formatted (condition: %s)" % "; ".join(show(e[1]) for e in o.path.events if e[0] == "branch" and e[4] == "forked"), node=init.node, stmt="no-validation")
                        ok5 = False
                    elif test_name and (strip_sites(fm[0][1]) != ("call", ("glob", "%s:%s" % (mod.name, test_name)), (), ()) if test_is_function else fm[0][1] != ("glob", "%s:%s" % (mod.name, test_name))):
                        chk.bad(r5, init.qual, "the template is test-formatted against %s, not the validation field mapping" % show(fm[0][1]), node=init.node, stmt="validation-mapping")
                        ok5 = False
                    st = {e[1][2]: e[2] for e in o.path.events if e[0] == "store" and e[1][1] == SELF}
                    for k in ("message", "level"):
                        if st.get(k) != ("sym", k):
                            chk.bad(rule, init.qual, "the configured %s is stored as %s" % (k, show(st.get(k)) if k in st else "nothing"), node=init.node, stmt="store-%s" % k)
                            ok2 = False
                    if st.get("name") != ("sym", "name"):
                        chk.bad(rule, init.qual, "the configured logger name is not applied", node=init.node, stmt="store-name")
                        ok2 = False
            else:
                if fm and o.kind != "raise":
                    chk.bad(r5, init.qual, "a template naming an unknown field (KeyError while test-formatting) does not make construction fail", node=init.node, stmt="keyerror-swallowed")
                    ok5 = False
    if ok5:
        chk.ok(r5, init.qual, "every constructor path test-formats the template against the validation mapping; a KeyError becomes a raised error", node=init.node)
    if ok2:
        chk.ok(rule, init.qual, "logger name, level and template are stored as configured; logger obtained by logging.getLogger(name)", node=init.node)


def no_write_on_failure_path(chk):
    """O16.6: what a decorator does around a demand write (the log record) happens BEFORE the write and its failure stops the
    write: a write to the target's demand inside `finally` / `except` reaches the pool although the step before it failed --
    an unrecorded change, and a second failure there masks the first"""
    prog = chk.program
    rule = "O16.6"
    n = 0
    ok = True
    for cls in prog.classes.values():
        if not prog.is_subclass(cls.qual, DECO) or cls.qual == DECO:
            continue
        for fis in cls.methods.values():
            for fi in fis:
                for t in ast.walk(fi.node):
                    if not isinstance(t, ast.Try):
                        continue
                    blocks = [(h.body, "except") for h in t.handlers] + ([(t.finalbody, "finally")] if t.finalbody else [])
                    for body, what in blocks:
                        for st in body:
                            for a in ast.walk(st):
                                for x in a.targets if isinstance(a, ast.Assign) else ([a.target] if isinstance(a, ast.AugAssign) else []):
                                    n += 1
                                    chk.count()
                                    if isinstance(x, ast.Attribute) and x.attr == "demand" and util.unparse(x.value).endswith("target"):
                                        chk.bad(rule, fi.qual, "the target's demand is written inside `%s`: the write reaches the pool although what precedes it (the log record of the change) failed, so the pool changes without a record, and a failure of the write itself masks the original error" % what, node=a, stmt="target-written-in-%s" % what)
                                        ok = False
    if ok:
        chk.ok(rule, "<decorators>", "no decorator writes the target's demand inside an except handler or a finally block (%d stores on failure paths)" % n)


def run(chk):
    chk.guard("O16.6", "<decorators>", no_write_on_failure_path, chk)
    chk.guard("O16.1", DECO, forwarding, chk)
    chk.guard("O16.2", "<decorators>", census, chk)
    chk.guard("O16.3", LOGGER, logger_rules, chk)
