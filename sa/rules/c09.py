"""C09 -- periodic services act once per interval, for as long as they run (DESIGN.md 4, C09)."""
import ast

from .. import util
from ..interp import Interp, Path, show, strip_sites, subterms
from ..report import Undecided

TRIO_SLEEP = ("glob", "ext:trio.sleep")
BLOCKING_SLEEPS = {"ext:time.sleep"}
PERIOD_PARAMS = ("interval", "window")
SELF = ("sym", "self")


def attribute_resolution(chk, fi, rule="O9.1"):
    """every self.<name> read or called in fi resolves in the class's MRO or instance fields"""
    prog = chk.program
    cls = fi.cls
    bad = 0
    n = 0
    for attr, node, ctx in util.self_attr_uses(fi):
        if ctx != "Load":
            continue
        n += 1
        chk.count()
        has = prog.has_attr(cls, attr)
        if has is False:
            # fields assigned by subclasses of an abstract base do not count as defined
            bad += 1
            chk.bad(
                rule,
                fi.qual,
                "self.%s is used but no class in the MRO of %s defines it and nothing assigns it "
                "(AttributeError at run time)" % (attr, cls.name),
                node=node,
                stmt="self.%s" % attr,
            )
    if not bad:
        chk.ok(rule, fi.qual, "%d self-attribute uses all resolve" % n, node=fi.node)
    return n


STEP_WORDS = ("regulate", "shrink", "grow", "release", "reap")


def helper_inline(cls):
    """inline own-class helper methods (extracted loop bodies), but never the step primitives themselves"""

    def flt(f, ct):
        return f.cls is not None and (f.cls is cls or f.cls.qual in cls.mro) and not any(w in f.name for w in STEP_WORDS) and not f.is_async

    return flt


def not_inlined_calls(evs):
    """indices of call events that were not inlined"""
    out = []
    for i, e in enumerate(evs):
        if e[0] == "call" and not (i + 1 < len(evs) and evs[i + 1][0] == "inline-enter"):
            out.append(i)
    return out


def _period_attr(chk, cls):
    """attributes assigned in __init__ directly from a constructor parameter named interval/window"""
    prog = chk.program
    init = prog.lookup_method(cls, "__init__")
    found = {}
    if init is None:
        return found
    for t, v in util.simple_assignments(init.node):
        if isinstance(v, ast.Name) and v.id in PERIOD_PARAMS and isinstance(t, ast.Attribute) and isinstance(t.value, ast.Name) and t.value.id == "self":
            found[t.attr] = v.id
    return found


def loop_shape(chk, cls):
    prog = chk.program
    run = util.flat(prog, prog.lookup_method(cls, "run"))
    rule = "O9.2"
    if run is None:
        chk.bad(rule, cls.qual, "service class has no run method", node=cls.node)
        return
    name = run.qual
    if not run.is_async:
        chk.bad(rule, name, "run of a trio-flavoured service must be a coroutine function", node=run.node)
        return
    loop = util.the_loop(run)
    if loop is None or not isinstance(loop, ast.While):
        # known-bad: a single pass without a loop
        if not any(isinstance(n, (ast.While, ast.For, ast.AsyncFor)) for n in ast.walk(run.node)):
            chk.bad(rule, name, "run has no loop: the service acts once and returns (single-pass service)", node=run.node)
        else:
            chk.undecided(rule, name, "run is not a single top-level while loop", node=run.node)
        return
    if util.const_true(loop.test) is not True:
        chk.bad(rule, name, "service loop is conditional (%s): the service may stop acting while it runs" % util.unparse(loop.test), node=loop)
        return
    idx = run.node.body.index(loop)
    trailing = run.node.body[idx + 1 :]
    # the statements before the loop: plain bindings only
    pre_env_path = Path()
    it = Interp(prog, run, unroll=1)
    pre_outs = it.exec_block(run.node.body[:idx], pre_env_path)
    if len(pre_outs) != 1 or pre_outs[0].kind != "normal":
        chk.undecided(rule, name, "statements before the service loop branch or exit", node=run.node)
        return
    if any(e[0] == "call" for e in pre_outs[0].path.events):
        pre_calls = [show(e[1]) for e in pre_outs[0].path.events if e[0] == "call"]
    else:
        pre_calls = []
    base = pre_outs[0].path
    base.events = []

    # one iteration, analysed once as a block
    own_methods = set()
    for q in cls.mro:
        c = prog.classes.get(q)
        if c is not None:
            own_methods.update(c.methods)
    it = Interp(prog, run, unroll=1, inline=helper_inline(cls))
    outs = it.exec_block(loop.body, base.fork())
    chk.count(len(outs))
    periods = _period_attr(chk, cls)
    verdict_ok = True
    summary = []
    for o in outs:
        evs = o.path.events
        if o.kind not in ("normal", "continue"):
            what = {"break": "break", "return": "return", "raise": "raise", "cut": "inner unbounded loop"}.get(o.kind, o.kind)
            chk.bad(rule, name, "an iteration of the service loop can end the loop by %s: the service stops acting" % what, node=loop)
            verdict_ok = False
            continue
        sleeps, steps, blocking = [], [], []
        live = set(not_inlined_calls(evs))
        for i, e in enumerate(evs):
            if e[0] != "call" or i not in live:
                continue
            ct = e[1]
            f = ct[1]
            if f == TRIO_SLEEP:
                sleeps.append((i, e))
            elif f[0] == "glob" and f[1] in BLOCKING_SLEEPS:
                blocking.append((i, e))
            elif f[0] == "attr" and f[1] == SELF and f[2] in own_methods:
                steps.append((i, e))
            elif f[0] == "call":  # applying the result of a lookup (a stepwise rule)
                steps.append((i, e))
            elif f[0] == "sym" or f[0] == "attr" and f[1][0] in ("sym", "call") and f[1] != SELF and f[2] in ("regulate",):
                steps.append((i, e))
        for _i, e in blocking:
            chk.bad(rule, name, "blocking sleep %s inside a coroutine service stalls every other trio payload" % show(e[1]), node=loop, stmt=show(e[1]))
            verdict_ok = False
        if len(sleeps) != 1:
            chk.bad(
                rule,
                name,
                "one iteration awaits trio.sleep %d times on a path (required: exactly once per iteration%s)"
                % (len(sleeps), "; without a sleep the loop never yields" if not sleeps else ""),
                node=loop,
                input=[show(e[1]) for _i, e in sleeps],
                stmt="sleep-count",
            )
            verdict_ok = False
            continue
        si, se = sleeps[0]
        if not se[3]:
            chk.bad(rule, name, "trio.sleep(...) is called but not awaited: the loop never pauses", node=loop, stmt=show(se[1]))
            verdict_ok = False
        summary.append((len(steps), [show(e[1]) for _i, e in steps], show(se[1])))
        is_controller = prog.is_subclass(cls.qual, util.CONTROLLER)
        if is_controller:
            if len(steps) != 1:
                chk.bad(
                    rule,
                    name,
                    "a controller iteration performs %d regulation steps on a path (required: exactly one)" % len(steps),
                    node=loop,
                    input=[show(e[1]) for _i, e in steps],
                    stmt="step-count",
                )
                verdict_ok = False
            elif steps[0][0] > si:
                chk.bad(rule, name, "the controller sleeps before its first regulation step (required: one step immediately)", node=loop, stmt="step-order")
                verdict_ok = False
            late = [e2 for j, e2 in enumerate(evs) if j > si and e2[0] in ("store", "aug") and e2[1][0] == "attr" and e2[1][2] == "demand"]
            if late:
                chk.bad(rule, name, "the step's demand write happens after the sleep: no step takes effect immediately and every write applies a decision that is one interval old", node=loop, stmt="effect-after-sleep")
                verdict_ok = False
        # O9.3 period agreement
        sleep_arg = se[1][2][0] if se[1][2] else (dict((k_, v_) for k_, v_ in se[1][3] if k_).get("seconds"))
        r3 = "O9.3"
        if sleep_arg is None:
            chk.bad(r3, name, "trio.sleep called without a period", node=loop, stmt=show(se[1]))
            verdict_ok = False
        else:
            if sleep_arg[0] == "attr" and sleep_arg[1] == SELF and sleep_arg[2] in periods:
                pass
            elif sleep_arg[0] == "attr" and sleep_arg[1] == SELF:
                chk.bad(r3, name, "the loop sleeps for self.%s, which is not the configured interval/window (those are stored in %s)" % (sleep_arg[2], sorted(periods) or "nothing"), node=loop, stmt=show(se[1]))
                verdict_ok = False
            elif sleep_arg[0] == "const":
                chk.bad(r3, name, "the loop sleeps for the constant %r instead of the configured interval" % (sleep_arg[1],), node=loop, stmt=show(se[1]))
                verdict_ok = False
            elif any(s[0] == "attr" and s[1] == SELF and s[2] in periods for s in _sub(sleep_arg)):
                chk.bad(r3, name, "the sleep period %s is a transformation of the configured interval" % show(sleep_arg), node=loop, stmt=show(se[1]))
                verdict_ok = False
            else:
                chk.undecided(r3, name, "sleep period %s is not recognised" % show(sleep_arg), node=loop)
                verdict_ok = False
            for _i, e in steps:
                ct = e[1]
                args = [a for a in ct[2]] + [v for _n, v in ct[3]]
                interval_args = [a for a in args if a[0] in ("attr", "const", "binop") and (a == sleep_arg or _mentions_period(a, periods) or a[0] == "const")]
                callee = ct[1]
                takes_interval = False
                fi2 = it.resolve_callee(callee, o.path)
                if fi2 is not None and any(p in PERIOD_PARAMS for p in fi2.params()):
                    takes_interval = True
                if callee[0] == "call":
                    takes_interval = True  # rule(pool, interval)
                if takes_interval:
                    chk.count()
                    if sleep_arg not in args:
                        chk.bad(r3, name, "the step %s is not given the period the loop sleeps for (%s)" % (show(ct), show(sleep_arg)), node=loop, stmt=show(strip_sites(ct)))
                        verdict_ok = False
    if verdict_ok:
        chk.ok(rule, name, "infinite loop; per iteration: %s" % summary[:3], node=loop)
        chk.ok("O9.3", name, "sleep period is the configured %s and is the interval handed to the step" % sorted(periods), node=loop)
    if trailing:
        chk.notes.append("%s: statements after the infinite loop are unreachable" % name)


def _sub(t):
    from ..interp import subterms

    return list(subterms(t))


def _mentions_period(t, periods):
    return any(s[0] == "attr" and s[1] == SELF and s[2] in periods for s in _sub(t))


def buffer_rules(chk):
    prog = chk.program
    rule = "O9.4"
    try:
        cls = prog.cls("cobald.decorator.buffer:Buffer")
    except Exception:
        chk.missing(rule, "Buffer")
        return
    name = cls.qual
    # (a) demand is shadowed by a plain attribute: writes to a Buffer do not reach the target
    if "demand" in cls.methods:
        setter = prog.pick(cls.methods["demand"], "setter")
        if setter is not None and any(
            isinstance(n, (ast.Assign, ast.AugAssign)) and "target.demand" in util.unparse(n.targets[0] if isinstance(n, ast.Assign) else n.target)
            for n in ast.walk(setter.node)
        ):
            chk.bad(rule, name, "Buffer.demand has a setter that writes the target directly: demand is forwarded between window boundaries", node=setter.node)
            return
        chk.undecided(rule, name, "Buffer.demand is a property; buffering idiom not recognised", node=cls.node)
        return
    if "demand" not in cls.class_attrs:
        chk.bad(
            rule,
            name,
            "Buffer does not shadow the inherited forwarding `demand` property with a class-level attribute (a property on a base class wins over an instance attribute): every demand write goes straight to the target, also between window boundaries",
            node=cls.node,
            stmt="demand-not-shadowed",
        )
        return
    # (b) who writes target.demand inside Buffer
    run = util.flat(prog, prog.lookup_method(cls, "run"))
    writes = []
    for fis in cls.methods.values():
        for fi in fis:
            for n in ast.walk(fi.node):
                tg = None
                if isinstance(n, ast.Assign):
                    tg = n.targets
                elif isinstance(n, ast.AugAssign):
                    tg = [n.target]
                for t in tg or []:
                    if isinstance(t, ast.Attribute) and t.attr == "demand" and util.unparse(t.value).endswith("target"):
                        writes.append((fi, n))
    chk.count(len(writes))
    loop0 = util.the_loop(run) if run is not None else None
    called_in_loop = set()
    if loop0 is not None:
        for n in ast.walk(loop0):
            if isinstance(n, ast.Call) and isinstance(n.func, ast.Attribute) and util.dotted(n.func.value) == "self":
                called_in_loop.add(n.func.attr)
    # a coroutine that run only awaits as a statement runs in place (its body is part of the flattened run)
    orig_run = prog.lookup_method(cls, "run")
    awaited_in_run = {n.value.value.func.attr for n in ast.walk(orig_run.node) if isinstance(n, ast.Expr) and isinstance(n.value, ast.Await) and isinstance(n.value.value, ast.Call) and isinstance(n.value.value.func, ast.Attribute) and util.dotted(n.value.value.func.value) == "self"} if run is not orig_run else set()
    refs = lambda nm: sum(1 for gs in cls.methods.values() for g in gs for x in ast.walk(g.node) if isinstance(x, ast.Attribute) and x.attr == nm and util.dotted(x.value) == "self")  # noqa: E731
    awaited_in_run = {nm for nm in awaited_in_run if refs(nm) == 1}
    called_elsewhere = set()
    for fis in cls.methods.values():
        for f2 in fis:
            if f2.name in awaited_in_run:
                continue
            is_run = f2.qual == run.qual
            for n in ast.walk(run.node if is_run else f2.node):
                if isinstance(n, ast.Call) and isinstance(n.func, ast.Attribute) and util.dotted(n.func.value) == "self":
                    if not (is_run and loop0 is not None and any(x is n for x in ast.walk(loop0))):
                        called_elsewhere.add(n.func.attr)
    outside = [(fi, n) for fi, n in writes if fi.qual != run.qual and not (fi.name in called_in_loop and fi.name not in called_elsewhere) and fi.name not in awaited_in_run]
    for fi, n in outside:
        chk.bad(rule, fi.qual, "Buffer writes the target's demand outside its window loop", node=n)
    if not writes:
        chk.bad(rule, name, "Buffer never writes the target's demand: buffered values are never forwarded", node=cls.node)
        return
    if run is None:
        return
    loop = util.the_loop(run)
    if loop is None:
        return
    it = Interp(prog, run, unroll=1, inline=helper_inline(cls))
    outs = it.exec_block(loop.body, Path())
    pending = ("attr", SELF, "demand")
    tdemand = ("attr", ("attr", SELF, "target"), "demand")
    ok = True
    flushed_paths = 0
    for o in outs:
        stores = [e for e in o.path.events if e[0] == "store" and e[1] == tdemand]
        augs = [e for e in o.path.events if e[0] == "aug" and e[1] == tdemand]
        if augs:
            chk.bad(rule, run.qual, "the flush modifies the target's demand relatively instead of setting the pending value", node=loop, stmt="aug")
            ok = False
        if len(stores) > 1:
            chk.bad(rule, run.qual, "the target's demand is written %d times in one window" % len(stores), node=loop, stmt="stores")
            ok = False
        rel = o.path.rel
        differs = None
        for (a, b), s in rel.items():
            if {a, b} == {pending, tdemand}:
                differs = "=" not in s
        if stores:
            flushed_paths += 1
            if stores[0][2] != pending:
                chk.bad(rule, run.qual, "the flush stores %s instead of the pending value self.demand" % show(stores[0][2]), node=loop, stmt=show(stores[0][2]))
                ok = False
        else:
            # no flush on this path: only allowed when pending == target demand
            if differs is not False:
                chk.bad(rule, run.qual, "a window passes without forwarding although the pending demand may differ from the target's", node=loop, stmt="no-flush")
                ok = False
    if flushed_paths == 0:
        chk.bad(rule, run.qual, "no path through the window loop forwards the pending demand", node=loop, stmt="never")
        ok = False
    # (c) the constructor: bound to the target it is given, and the pending value starts as the target's own demand,
    # so that a boundary before the first write forwards nothing that was never written
    init = prog.lookup_method(cls, "__init__")
    if init is not None and init.cls is cls and init.params():
        T = ("sym", init.params()[0])
        for o in Interp(prog, init, assert_raises=False).run():
            chk.count()
            if o.kind not in ("normal", "return"):
                continue
            evs = o.path.events
            sup = [e[1] for e in evs if e[0] == "call" and e[1][1][0] == "attr" and e[1][1][2] == "__init__"]
            tgt = [e for e in evs if e[0] == "store" and e[1] == ("attr", SELF, "target")]
            if not any(list(c[2])[:1] == [T] or dict(c[3]).get("target") == T for c in sup) and not any(e[2] == T for e in tgt):
                chk.bad(rule, init.qual, "the Buffer is not bound to the target it is given (PoolDecorator.__init__(target) is not reached): the window loop has nothing to forward to", node=init.node, stmt="target-not-bound")
                ok = False
            pend = [strip_sites(e[2]) for e in evs if e[0] == "store" and e[1] == pending]
            if not pend or pend[-1] not in (("attr", T, "demand"), tdemand):
                chk.bad(
                    rule,
                    init.qual,
                    "the pending demand starts as %s instead of the target's current demand: the first window boundary forwards a value nobody wrote to the Buffer" % (show(pend[-1]) if pend else "the class default %s" % util.unparse(cls.class_attrs["demand"])),
                    node=init.node,
                    stmt="pending-not-initialised",
                )
                ok = False
    if ok:
        chk.ok(rule, run.qual, "demand shadowed by a plain attribute; single guarded store of the pending value per window; pending value initialised from the target's demand", node=loop)


def factory_run(chk):
    prog = chk.program
    rule = "O9.5"
    try:
        cls = prog.cls("cobald.composite.factory:FactoryPool")
    except Exception:
        chk.missing(rule, "FactoryPool")
        return
    run = util.flat(prog, prog.lookup_method(cls, "run"))
    if run is None:
        chk.missing(rule, "FactoryPool.run")
        return
    loop = util.the_loop(run)
    if loop is None:
        chk.undecided(rule, run.qual, "no single loop", node=run.node)
        return
    role_names = {}
    try:
        from . import c15

        role_names = {k: v.name for k, v in c15.discover(chk)[3].items()}
    except Undecided:
        pass
    it = Interp(prog, run, unroll=1, inline=helper_inline(cls))
    outs = it.exec_block(loop.body, Path())
    supply = ("attr", SELF, "supply")
    demand = ("attr", SELF, "demand")
    ok = True
    seen = set()
    for o in outs:
        chk.count()
        if o.kind not in ("normal", "continue"):
            continue
        live = set(not_inlined_calls(o.path.events))
        calls = [e[1] for i, e in enumerate(o.path.events) if i in live and e[0] == "call" and e[1][1][0] == "attr" and e[1][1][1] == SELF]
        adj = [c for c in calls if c[1][2] not in ("supply", "demand")]
        s = it.get_rel(supply, demand, o.path)
        names = [c[1][2] for c in adj]
        if len(adj) != 1:
            chk.bad(rule, run.qual, "an adjustment cycle calls %s (required: exactly one of shrink / grow)" % (names or "nothing"), node=loop, stmt="adjust-count", input="supply %s demand" % "".join(sorted(s)))
            ok = False
            continue
        which = names[0]
        seen.add(which)
        # the adjustment acts on the supply / demand of NOW: no wait between reading them and adjusting (a snapshot taken
        # before the sleep is one interval old -- a grow does not cover the current request, a shrink releases children the
        # current request still needs)
        evs_ = o.path.events
        i_adj = next(i for i, e in enumerate(evs_) if e[0] == "call" and e[1] is adj[0])
        reads = [i for i, e in enumerate(evs_) if i < i_adj and ((e[0] == "bind" and e[2] in (supply, demand)) or (e[0] == "branch" and any(x in (supply, demand) for x in subterms(e[1]))))]
        waits = [i for i, e in enumerate(evs_) if reads and reads[0] < i < i_adj and ((e[0] == "call" and e[3]) or e[0] == "await")]
        if waits and ok:
            chk.bad(rule, run.qual, "the cycle waits (%s) between reading supply / demand and adjusting: the adjustment acts on values that are one interval old" % show(strip_sites(evs_[waits[0]][1])), node=loop, stmt="wait-between-snapshot-and-adjust")
            ok = False
            continue
        want_shrink = s <= frozenset(">")
        want_grow = not (s & frozenset(">"))
        is_shrink = which == role_names.get("shrink", "") or (not role_names and "shrink" in which)
        is_grow = which == role_names.get("grow", "") or (not role_names and "grow" in which)
        if not (is_shrink or is_grow):
            chk.undecided(rule, run.qual, "adjustment step %s not recognised" % which, node=loop)
            ok = False
            continue
        if (is_shrink and not want_shrink) or (is_grow and not want_grow):
            chk.bad(
                rule,
                run.qual,
                "with supply %s demand the pool %s (required: shrink iff supply > demand, else grow)" % ("/".join(sorted(s)), "shrinks" if is_shrink else "grows"),
                node=loop,
                input="supply %s demand" % "".join(sorted(s)),
                stmt="orientation",
            )
            ok = False
        args = [v for _n, v in adj[0][3]] + list(adj[0][2])
        if demand not in args:
            chk.bad(rule, run.qual, "%s is not given the pool's demand as its target (%s)" % (which, [show(a) for a in args]), node=loop, stmt="target-arg")
            ok = False
    if ok and len(seen) == 2:
        chk.ok(rule, run.qual, "shrink iff supply > demand, else grow; one adjustment per cycle with target=demand", node=loop)
    elif ok:
        chk.bad(rule, run.qual, "only %s is ever called: the pool cannot both grow and shrink" % sorted(seen), node=loop, stmt="one-sided")


def decoration(chk):
    """O9.0: every shipped periodic class is a @service of the flavour whose sleep primitive its run uses"""
    prog = chk.program
    rule = "O9.0"
    n = 0
    for cls in sorted(prog.classes.values(), key=lambda c: c.qual):
        if not (prog.is_subclass(cls.qual, util.POOL) or prog.is_subclass(cls.qual, util.CONTROLLER)):
            continue
        defs = cls.methods.get("run")
        runfi = prog.pick(defs) if defs else None
        if runfi is None or not runfi.is_async:
            continue
        n += 1
        chk.count()
        sleeps = set()
        for node in ast.walk(runfi.node):
            if isinstance(node, ast.Call):
                r = prog.resolve(runfi.module, node.func) or ""
                if r in ("ext:trio.sleep", "ext:asyncio.sleep", "ext:trio.sleep_until", "ext:trio.sleep_forever"):
                    sleeps.add("ext:" + r.split(":")[1].split(".")[0])
        fl = util.service_flavour(prog, cls)
        if util.SERVICE_DECORATOR not in cls.decorators:
            chk.bad(rule, cls.qual, "%s has a periodic run() coroutine but is not declared as a @service: nothing ever starts it, so it never acts" % cls.name, node=cls.node, stmt="not-a-service")
        elif sleeps and fl not in sleeps:
            chk.bad(rule, cls.qual, "%s is a service of flavour %s but its run() sleeps with %s: the sleep fails (or blocks) in that runner on the first iteration" % (cls.name, (fl or "?").replace("ext:", ""), sorted(x.replace("ext:", "") for x in sleeps)), node=cls.node, stmt="flavour-mismatch")
        else:
            chk.ok(rule, cls.qual, "@service(flavour=%s) matches the sleep primitive of run()" % (fl or "?").replace("ext:", ""), node=cls.node)
    chk.floor(rule, n, 6)


def run(chk):
    chk.guard("O9.0", "<periodic classes>", decoration, chk)
    prog = chk.program
    services = util.service_classes(prog)
    chk.floor("O9.services", len(services), 1)
    for cls in services:
        fl = util.service_flavour(prog, cls)
        runfi = util.flat(prog, prog.lookup_method(cls, "run"))
        if runfi is None:
            chk.bad("O9.1", cls.qual, "service class without run method", node=cls.node)
            continue
        attribute_resolution(chk, runfi)
        # methods the run loop calls on self are part of the step: they must resolve too
        for attr, node, ctx in util.self_attr_uses(runfi):
            m = prog.lookup_method(cls, attr)
            if m is not None and m is not runfi and m.cls is not None and m.cls.module.name.startswith("cobald") and prog.pick(m.cls.methods[attr], "getter") is None:
                attribute_resolution(chk, m)
        if fl != "ext:trio":
            chk.notes.append("%s has flavour %s" % (cls.qual, fl))
        chk.guard("O9.2", cls.qual, loop_shape, chk, cls)
    chk.guard("O9.4", "Buffer", buffer_rules, chk)
    chk.guard("O9.5", "FactoryPool", factory_run, chk)
    from . import c15

    res = chk.guard("O15.3", c15.FACTORY, c15.discover, chk)
    if res:
        chk.guard("O15.3", c15.FACTORY, c15.reap, chk, *res)
        chk.guard("O15.4", c15.FACTORY, c15.orderable_sort, chk, *res)
        # a controller that runs on an empty / drained FactoryPool reads its utilisation and allocation every interval: the
        # aggregate over no children is the documented 1.0, not an exception that ends the service
        chk.guard("O15.5", c15.FACTORY, c15.aggregation, chk, *res)
    # "indefinitely and without raising": Stepwise.run calls what the range table gives it for ANY supply >= 0, so the
    # table must cover [0, inf) without gaps (shared with C08)
    from . import c08

    chk.guard("O8.4", c08.STEPWISE, c08.stepwise, chk)
    chk.guard("O8.6", c08.UNBOUND, c08.stepwise_wiring, chk)
    # "demand changes by at most rate x (span + interval)": one step of LinearController moves demand by exactly the
    # interval it is HANDED times the rate (shared with C08): a step size fixed at construction ignores the interval
    # the loop passes, and an adjusted interval (the attribute can be re-assigned) no longer bounds the change
    chk.guard("O8.1", c08.LINEAR, c08.linear, chk)


def run_thorough(chk):
    """package-wide generalisation of O9.1: every self.<attr> use in every method resolves"""
    prog = chk.program
    n = 0
    for cls in prog.classes.values():
        if util.is_abstract(cls):
            continue
        for fis in cls.methods.values():
            for fi in fis:
                if fi.is_static or fi.is_classmethod:
                    continue
                n += attribute_resolution(chk, fi, rule="O9.1-package")
    chk.notes.append("package-wide attribute resolution examined %d uses" % n)
