"""C08 -- controllers move demand only in the documented direction and amount (decision tables)."""
import ast
import itertools

from .. import util
from ..interp import Interp, Path, abs_value, show, strip_sites, subterms, NONE
from .. import slots
from ..report import Undecided

SELF = ("sym", "self")
TARGET = ("attr", SELF, "target")
TDEM = ("attr", TARGET, "demand")
UTIL = ("attr", TARGET, "utilisation")
ALLOC = ("attr", TARGET, "allocation")
SUPPLY = ("attr", TARGET, "supply")
LOW = ("attr", SELF, "low_utilisation")
HIGH = ("attr", SELF, "high_allocation")
INTERVAL = ("sym", "interval")
LINEAR = "cobald.controller.linear:LinearController"
RELATIVE = "cobald.controller.relative_supply:RelativeSupplyController"
STEPWISE = "cobald.controller.stepwise:Stepwise"
SELECTOR = "cobald.controller.stepwise:RangeSelector"
SWITCH = "cobald.controller.switch:DemandSwitch"


def mul_eq(t, a, b):
    return t[0] == "binop" and t[1] == "*" and {t[2], t[3]} == {a, b} and (a != b or t[2] == t[3])


def demand_effects(path):
    """list of (sign, amount term) / ('set', term) effects on target.demand along a path"""
    out = []
    for e in path.events:
        if e[0] == "aug" and e[1] == TDEM:
            if e[2] in ("+", "-"):
                out.append((e[2], e[3]))
            else:
                out.append(("aug" + e[2], e[3]))
        elif e[0] == "store" and e[1] == TDEM:
            v = e[2]
            if v[0] == "binop" and v[1] in ("+", "-") and v[2] == TDEM:
                out.append((v[1], v[3]))
            elif v[0] == "binop" and v[1] == "+" and v[3] == TDEM:
                out.append(("+", v[2]))
            else:
                out.append(("set", v))
    return out


def threshold_table(chk, qual, rule, classify):
    """run regulate under all 9 orderings; classify(label, low, high, effects, path) -> error text or None"""
    prog = chk.program
    fi = prog.method(qual, "regulate")
    name = fi.qual
    params = fi.params()
    if params != ["interval"]:
        chk.undecided(rule, name, "regulate does not take exactly `interval`", node=fi.node)
        return
    ok = True
    table = []
    for ru, ra in itertools.product("<=>", repeat=2):
        it = Interp(prog, fi)
        p = Path()
        it.set_rel(UTIL, LOW, frozenset(ru), p)
        it.set_rel(ALLOC, HIGH, frozenset(ra), p)
        outs = it.run(path=p)
        chk.count(len(outs))
        label = "utilisation %s low_utilisation, allocation %s high_allocation" % (ru, ra)
        for o in outs:
            if o.kind not in ("normal", "return"):
                chk.bad(rule, name, "regulate ends by %s for %s" % (o.kind, label), node=fi.node, stmt="exit", input=label)
                ok = False
                continue
            forked = [e for e in o.path.events if e[0] == "branch" and e[4] == "forked"]
            if forked:
                chk.bad(rule, name, "the decision depends on more than the two documented comparisons: %s" % show(forked[0][1]), node=fi.node, stmt="extra-condition %s" % show(strip_sites(forked[0][1])), input=label)
                ok = False
                continue
            eff = demand_effects(o.path)
            table.append((ru + ra, eff))
            err = classify(label, ru == "<", ra == ">", eff, o.path)
            if err:
                chk.bad(rule, name, "%s: %s" % (label, err), node=fi.node, stmt=err[:80], input=label)
                ok = False
    if ok:
        chk.ok(rule, name, "decision table over all 9 orderings matches the documented one", node=fi.node, input="; ".join("%s:%s" % (k, [(s, show(a)) for s, a in e]) for k, e in table))


def linear(chk):
    RATE = ("attr", SELF, "rate")

    def classify(label, low, high, eff, path):
        for s, a in eff:
            if s not in ("+", "-"):
                return "demand is %s by %s instead of being moved by +/- interval*rate" % (s, show(a))
            if not mul_eq(a, INTERVAL, RATE):
                return "the step is %s, not interval * rate (the method's own interval)" % show(a)
        signs = [s for s, _a in eff]
        if low and not high:
            if signs != ["-"]:
                return "demand must decrease by exactly one step, effects: %s" % signs
        elif high and not low:
            if signs != ["+"]:
                return "demand must increase by exactly one step, effects: %s" % signs
        elif not low and not high:
            if signs:
                return "neither condition holds (values exactly on a threshold count as neither) but demand is changed: %s" % signs
        else:
            net = signs.count("+") - signs.count("-")
            if abs(net) > 1 or len(signs) > 2:
                return "net change exceeds one step: %s" % signs
        return None

    threshold_table(chk, LINEAR, "O8.1", classify)


def relative(chk):
    LS, HS = ("attr", SELF, "low_scale"), ("attr", SELF, "high_scale")

    def classify(label, low, high, eff, path):
        if len(eff) != 1 or eff[0][0] != "set":
            return "demand must be set exactly once, effects: %s" % [(s, show(a)) for s, a in eff]
        v = eff[0][1]
        is_low = mul_eq(v, SUPPLY, LS)
        is_high = mul_eq(v, SUPPLY, HS)
        is_one = v == SUPPLY
        if not (is_low or is_high or is_one):
            return "demand is set to %s, which is not supply scaled by low_scale, high_scale or 1" % show(v)
        if low and not high and not is_low:
            return "demand must be supply * low_scale, is %s" % show(v)
        if high and not low and not is_high:
            return "demand must be supply * high_scale, is %s" % show(v)
        if not low and not high and not is_one:
            return "neither condition holds, demand must be supply itself, is %s" % show(v)
        if low and high and is_one:
            return "both conditions hold but demand is set to the unscaled supply"
        return None

    threshold_table(chk, RELATIVE, "O8.2", classify)


def constructors(chk):
    prog = chk.program
    rule = "O8.3"
    P = lambda n: ("sym", n)  # noqa: E731
    ZERO, ONE = ("const", 0), ("const", 1)
    specs = {
        LINEAR: {"rate > 0": (P("rate"), ZERO, ">"), "low_utilisation <= high_allocation": (P("low_utilisation"), P("high_allocation"), "<=")},
        RELATIVE: {
            "low_utilisation <= high_allocation": (P("low_utilisation"), P("high_allocation"), "<="),
            "low_scale < 1": (P("low_scale"), ONE, "<"),
            "high_scale > 1": (P("high_scale"), ONE, ">"),
        },
    }
    for qual, need in specs.items():
        init = prog.method(qual, "__init__")
        name = init.qual

        def inline(f, ct):
            return f.qual == "cobald.utility:enforce"

        it = Interp(prog, init, inline=inline, assert_raises=True)
        outs = it.run()
        chk.count(len(outs))
        completing = [o for o in outs if o.kind in ("normal", "return")]
        ok = True
        if not completing:
            chk.undecided(rule, name, "constructor never completes", node=init.node)
            continue
        for label, (a, b, allowed) in need.items():
            allowed = frozenset(allowed)
            for o in completing:
                s = it.get_rel(a, b, o.path)
                if not s <= allowed:
                    extra = "".join(sorted(s - allowed))
                    chk.bad(rule, name, "the constructor accepts %s %s %s (documented: %s)" % (show(a), "/".join(extra), show(b), label), node=init.node, stmt=label, input="%s %s %s" % (show(a), extra, show(b)))
                    ok = False
                    break
        stores = {}
        for e in completing[0].path.events:
            if e[0] == "store" and e[1][0] == "attr" and e[1][1] == SELF:
                stores[e[1][2]] = e[2]
        for p in init.params()[1:]:
            chk.count()
            if p in stores and stores[p] != P(p):
                chk.bad(rule, name, "self.%s is initialised from %s" % (p, show(stores[p])), node=init.node, stmt="store-%s" % p)
                ok = False
            elif p not in stores:
                chk.bad(rule, name, "the constructor parameter %s is not stored" % p, node=init.node, stmt="unstored-%s" % p)
                ok = False
        if ok:
            chk.ok(rule, name, "accepts only %s; parameters stored under their own names" % ", ".join(need), node=init.node)


def ascending_sort(chk, rule, fi, what):
    """every sorted()/.sort() in fi sorts ascending by the threshold: no reverse, no foreign key"""
    ok = True
    n = 0
    for c in ast.walk(fi.node):
        if isinstance(c, ast.Call) and (util.dotted(c.func) == "sorted" or (isinstance(c.func, ast.Attribute) and c.func.attr == "sort")):
            n += 1
            for kw in c.keywords:
                if kw.arg == "reverse" and not (isinstance(kw.value, ast.Constant) and not kw.value.value):
                    chk.bad(rule, fi.qual, "%s are sorted in DESCENDING order (reverse=%s): the range / last-match lookup assumes ascending thresholds, so the wrong entry is selected" % (what, util.unparse(kw.value)), node=c, stmt="sorted-reverse")
                    ok = False
                if kw.arg == "key":
                    txt = util.unparse(kw.value).replace(" ", "")
                    if txt not in ("lambdapair:pair[0]", "lambdaitem:item[0]", "lambdax:x[0]", "itemgetter(0)", "operator.itemgetter(0)"):
                        chk.undecided(rule, fi.qual, "%s are sorted with the key %s" % (what, txt), node=c, aux=True)
    return ok, n


def first_match_comprehension(chk, rule, get):
    """get_rule written as  next((rule for (low, high), rule in lookup.items() if low <= supply < high), None)"""
    prog = chk.program
    name = get.qual
    outs = Interp(prog, get).run()
    chk.count(len(outs))
    sup = ("sym", get.params()[0])
    if len(outs) != 1 or outs[0].kind != "return":
        chk.undecided(rule, name, "get_rule is neither a single loop nor a single first-match expression", node=get.node)
        return
    t = strip_sites(outs[0].value)
    if not (t[0] == "call" and t[1] == ("glob", "ext:builtins.next") and t[2] and t[2][0][0] == "comp" and len(t[2][0][3]) == 1):
        chk.undecided(rule, name, "get_rule idiom not recognised: %s" % show(t), node=get.node)
        return
    comp = t[2][0]
    target, src, conds = comp[3][0]
    if not (target[0] == "tuple" and len(target[1]) == 2 and target[1][0][0] == "tuple" and len(target[1][0][1]) == 2):
        chk.undecided(rule, name, "comprehension target is not ((low, high), rule)", node=get.node)
        return
    (low, high), rl = target[1][0][1], target[1][1]
    if comp[2] != rl:
        chk.bad(rule, name, "the selected value %s is not the rule stored under the matching range" % show(comp[2]), node=get.node, stmt="wrong-rule")
        return
    flat = []
    for c in conds:
        flat.extend(c[2] if c[0] == "boolop" and c[1] == "and" else [c])
    want = {("cmp", "<=", low, sup), ("cmp", "<", sup, high)}
    if set(flat) == want:
        chk.ok(rule, name, "first match of the half-open range predicate low <= supply < high over the lookup items", node=get.node)
    else:
        got = sorted(show(c) for c in flat)
        msg = "range predicate is %s (required: low <= supply < high, half-open)" % " and ".join(got)
        chk.bad(rule, name, msg, node=get.node, stmt="range-predicate")


def stepwise(chk):
    prog = chk.program
    rule = "O8.4"
    # ---- the range predicate ------------------------------------------------------------
    get = prog.method(SELECTOR, "get_rule")
    name = get.qual
    loops = [n for n in ast.walk(get.node) if isinstance(n, ast.For)]
    if len(loops) != 1:
        first_match_comprehension(chk, rule, get)
    else:
        loop = loops[0]
        it = Interp(prog, get, unroll=1)
        outs = it.run()
        chk.count(len(outs))
        sup = ("sym", get.params()[0])
        returning = set()
        keep = set()
        bounds = None
        ok = True
        for o in outs:
            iters = [e for e in o.path.events if e[0] == "loop-iter"]
            if len(iters) != 1:
                continue
            item = None
            for e in o.path.events:
                if e[0] == "bind" and e[2][0] in ("proj",):
                    pass
            # the loop variables: (low, high), rule  <-  item = (key, rule), key = (low, high)
            vals = {e[2] for e in o.path.events if e[0] == "bind" and e[2][0] == "proj"}
            lo = [x for x in vals if x[2] == 0 and x[1][0] == "proj" and x[1][2] == 0 and x[1][1][0] == "item"]
            hi = [x for x in vals if x[2] == 1 and x[1][0] == "proj" and x[1][2] == 0 and x[1][1][0] == "item"]
            if len(lo) != 1 or len(hi) != 1 or lo[0][1] != hi[0][1]:
                chk.undecided(rule, name, "loop target is not ((low, high), rule) over the lookup items: %s" % sorted(show(x) for x in vals), node=loop)
                ok = False
                break
            compared = {x for k in o.path.rel if sup in k for x in k if x != sup}
            if not compared <= {lo[0], hi[0]}:
                chk.bad(rule, name, "the supply is compared with %s, not with the bounds of the range" % sorted(show(x) for x in compared - {lo[0], hi[0]}), node=loop, stmt="foreign-bound")
                ok = False
                break
            bounds = (lo[0], hi[0])
            s1 = it.get_rel(lo[0], sup, o.path)
            s2 = it.get_rel(sup, hi[0], o.path)
            combos = {(a, b) for a in s1 for b in s2}
            if o.kind == "return" and o.value != NONE:
                returning |= combos
                rv = o.value
                if not (rv[0] == "proj" and rv[2] == 1 and rv[1] == lo[0][1][1]):
                    chk.bad(rule, name, "the selected value %s is not the rule stored under the matching range" % show(rv), node=loop, stmt="wrong-rule")
                    ok = False
            else:
                keep |= combos
        if ok and bounds:
            want = {("<", "<"), ("=", "<")}
            if returning != want:
                extra = returning - want
                miss = want - returning
                msg = []
                if ("<", "=") in extra or ("=", "=") in extra:
                    msg.append("a supply exactly on the UPPER bound selects the lower range (the range must be half-open: low <= supply < high)")
                if ("=", "<") in miss:
                    msg.append("a supply exactly on the LOWER bound does not select its range")
                if not msg:
                    msg.append("selected for orderings %s, required %s" % (sorted(returning), sorted(want)))
                chk.bad(rule, name, "range predicate: " + "; ".join(msg), node=loop, stmt="range-predicate", input="orderings (low?supply, supply?high) selecting: %s" % sorted(returning))
            else:
                chk.ok(rule, name, "half-open range predicate low <= supply < high over all 9 orderings; returns the rule of the matching range", node=loop, input=sorted(returning))
    # ---- lookup construction (aux) ------------------------------------------------------
    comp = None
    for fis in prog.cls(SELECTOR).methods.values():
        for fi in fis:
            if fi.name != "get_rule" and any(isinstance(n, ast.Call) and (util.dotted(n.func) or "").endswith("zip") for n in ast.walk(fi.node)):
                comp = fi
    if comp is not None:
        src = ast.unparse(comp.node)
        chk.count()
        asc_ok, _n = ascending_sort(chk, rule, comp, "the rules")
        if not asc_ok:
            pass
        elif "sorted(" not in src and ".sort(" not in src:
            chk.bad(rule, comp.qual, "the rules do not enter the lookup through sorted(): selection depends on declaration order", node=comp.node, stmt="unsorted", aux=True)
        else:
            zips = [n for n in ast.walk(comp.node) if isinstance(n, ast.Call) and util.dotted(n.func) == "zip" and len(n.args) == 3]
            if zips:
                a0, a1, a2 = (ast.unparse(a).replace(" ", "") for a in zips[0].args)
                good = a0.startswith("chain([0],") and a1.startswith("chain(") and a1.endswith(",[float('inf')])") and a2.startswith("chain([base],")
                if good:
                    chk.ok(rule, comp.qual, "lower bounds prefixed with 0, upper bounds suffixed with inf, rules prefixed with the base rule in lock-step", node=zips[0], aux=True)
                elif a2.endswith(",[base])"):
                    chk.bad(rule, comp.qual, "the base rule is appended instead of prefixed: every rule is shifted one range down", node=zips[0], stmt="base-misaligned", aux=True)
                else:
                    chk.undecided(rule, comp.qual, "zip/chain idiom not recognised", node=zips[0], aux=True)
            else:
                chk.undecided(rule, comp.qual, "lookup construction idiom not recognised", node=comp.node, aux=True)
    # ---- Stepwise.run: one rule per step, write iff not None -------------------------------
    run = prog.method(STEPWISE, "run")
    name = run.qual
    loop = util.the_loop(run)
    if loop is None:
        chk.undecided(rule, name, "no service loop", node=run.node)
        return
    idx = run.node.body.index(loop)
    ok = True
    for kind in ("none", "falsy", "truthy"):
        res = abs_value(kind, "rule_result")

        def hook(it, path, ct, node, res=res):
            if ct[0] == "call" and ct[1][0] == "call":  # applying the looked-up rule
                return [("value", res)]
            return None

        it = Interp(prog, run, call_hook=hook, unroll=1)
        pre = it.exec_block(run.node.body[:idx], Path())
        if len(pre) != 1:
            chk.undecided(rule, name, "prologue branches", node=run.node)
            return
        outs = it.exec_block(loop.body, pre[0].path)
        chk.count(len(outs))
        for o in outs:
            rules = [e for e in o.path.events if e[0] == "call" and e[1][1][0] == "call"]
            if len(rules) != 1:
                chk.bad(rule, name, "one step applies %d rules (required: exactly one)" % len(rules), node=loop, stmt="rule-count", input=kind)
                ok = False
                continue
            ct = rules[0][1]
            sel = ct[1]
            if not (sel[1][0] == "attr" and sel[1][2] == "get_rule" and list(sel[2]) == [SUPPLY]):
                chk.bad(rule, name, "the rule is looked up by %s instead of the target's current supply" % [show(a) for a in sel[2]], node=loop, stmt="lookup-key", input=kind)
                ok = False
            if list(ct[2]) != [TARGET, ("attr", SELF, "interval")] or ct[3]:
                chk.bad(rule, name, "the rule is called with %s instead of (target, interval)" % [show(a) for a in ct[2]], node=loop, stmt="rule-args", input=kind)
                ok = False
            stores = [e for e in o.path.events if e[0] in ("store", "aug") and e[1] == TDEM]
            if kind == "none" and stores:
                chk.bad(rule, name, "demand is written although the rule returned None", node=loop, stmt="none-written", input=kind)
                ok = False
            if kind != "none":
                if len(stores) != 1 or stores[0][0] != "store" or stores[0][2] != res:
                    chk.bad(
                        rule,
                        name,
                        "a %s non-None rule result is %s%s" % (kind, "not written to the target's demand" if not stores else "written as %s" % show(stores[0][2] if stores[0][0] == "store" else stores[0][3]), " (a result of 0 must be applied: `is not None`, not truthiness)" if kind == "falsy" else ""),
                        node=loop,
                        stmt="result-%s" % kind,
                        input=kind,
                    )
                    ok = False
    if ok:
        chk.ok(rule, name, "exactly one rule (looked up by target.supply) is applied with (target, interval); demand written iff the result is not None, unmodified", node=loop, input="result partition none/falsy/truthy")


def switch(chk):
    prog = chk.program
    rule = "O8.5"
    fi = prog.method(SWITCH, "regulate")
    name = fi.qual
    loops = [n for n in ast.walk(fi.node) if isinstance(n, (ast.For, ast.While))]
    ok = True
    if any(isinstance(n, ast.Break) for n in ast.walk(fi.node)):
        chk.bad(rule, name, "the selection loop breaks at the first match: with sorted thresholds the SMALLEST matching threshold wins instead of the greatest", node=fi.node, stmt="break")
        ok = False
    swcls = fi.cls
    it = Interp(prog, fi, unroll=2, inline=lambda f, ct: f.cls is swcls and f.name != "regulate")
    outs = it.run()
    chk.count(len(outs))
    DEFAULT = ("attr", SELF, slots.attr_from_param(prog, prog.cls(SWITCH), "default"))
    n_checked = 0
    SLAVES_ATTR = None
    try:
        SLAVES_ATTR = ("attr", SELF, slots.attr_from_expr(prog, prog.cls(SWITCH), lambda v, t: "slaves" in t, "slave table"))
    except Undecided:
        pass
    for o in outs:
        if o.kind not in ("normal", "return"):
            chk.bad(rule, name, "regulate ends by %s" % o.kind, node=fi.node, stmt="exit")
            ok = False
            continue
        iters = [e for e in o.path.events if e[0] == "loop-iter"]
        if not iters:
            regs0 = [e for e in o.path.events if e[0] == "call" and e[1][1][0] == "attr" and e[1][1][2] == "regulate" and e[1][1][1] != SELF]
            if len(regs0) == 1:
                ch = strip_sites(regs0[0][1][1][1])
                # last element of  [default] + matching   /   [default, *matching]
                seq = ch[1] if ch[0] == "sub" and ch[2] == ("const", -1) else None
                parts = None
                if seq is not None and seq[0] == "binop" and seq[1] == "+":
                    parts = (seq[2], seq[3])
                elif seq is not None and seq[0] == "list" and len(seq[1]) == 2 and seq[1][1][0] == "star":
                    parts = (("list", (seq[1][0],)), seq[1][1][1])
                if parts and parts[0] == ("list", (DEFAULT,)) and parts[1][0] == "comp" and len(parts[1][3]) == 1:
                    comp = parts[1]
                    tgt, src, conds = comp[3][0]
                    good = tgt[0] == "tuple" and len(tgt[1]) == 2 and comp[2] == tgt[1][1] and src == SLAVES_ATTR and list(conds) == [("cmp", "<=", tgt[1][0], TDEM)]
                    chk.count()
                    if good and list(regs0[0][1][2]) == [INTERVAL]:
                        n_checked += 3
                        continue
                    chk.bad(rule, name, "the controller is chosen as %s: not the slave with the greatest threshold <= demand, else the default" % show(ch), node=fi.node, stmt="selection-comprehension")
                    ok = False
                    continue
        regs = [e for e in o.path.events if e[0] == "call" and e[1][1][0] == "attr" and e[1][1][2] == "regulate" and e[1][1][1] != SELF]
        if len(regs) != 1:
            chk.bad(rule, name, "a step delegates to %d controllers (required: exactly one)" % len(regs), node=fi.node, stmt="delegate-count")
            ok = False
            continue
        ct = regs[0][1]
        if list(ct[2]) != [INTERVAL] or ct[3]:
            chk.bad(rule, name, "the chosen controller is called with %s instead of the step's interval" % [show(a) for a in ct[2]], node=fi.node, stmt="delegate-args")
            ok = False
        chosen = ct[1][1]
        # items: (threshold_i, slave_i) = (proj(item_i,0), proj(item_i,1))
        matched = []
        src = None
        for i in range(len(iters)):
            binds = {e[2]: e for e in o.path.events if e[0] == "bind" and e[2][0] == "proj" and e[2][1][0] == "item" and e[2][1][2] == i}
            binds = list(binds.values())
            if len(binds) != 2:
                chk.undecided(rule, name, "loop target is not a (threshold, controller) pair", node=fi.node)
                return
            thr = [b[2] for b in binds if b[2][2] == 0][0]
            slv = [b[2] for b in binds if b[2][2] == 1][0]
            src = thr[1][1]
            s = it.get_rel(thr, TDEM, o.path)
            if s <= frozenset("<="):
                matched.append((i, slv, True))
            elif s <= frozenset(">"):
                matched.append((i, slv, False))
            else:
                chk.bad(rule, name, "iteration %d does not decide threshold <= demand exactly (remaining orderings %s)" % (i, sorted(s)), node=fi.node, stmt="guard-orientation", input=sorted(s))
                ok = False
                matched.append((i, slv, None))
        if src is not None and src != ("attr", SELF, slots.attr_from_expr(prog, prog.cls(SWITCH), lambda v, t: "slaves" in t, "slave table")):
            pass
        want = DEFAULT
        for i, slv, m in matched:
            if m:
                want = slv
        n_checked += 1
        if any(m is None for _i, _s, m in matched):
            continue
        if chosen != want:
            chk.bad(
                rule,
                name,
                "with thresholds %s the step is delegated to %s; required: the controller with the greatest threshold not above the demand, else the default (%s)"
                % (["<= demand" if m else "> demand" for _i, _s, m in matched], show(chosen), show(want)),
                node=fi.node,
                stmt="selection",
                input=[("threshold#%d %s demand" % (i, "<=" if m else ">")) for i, _s, m in matched],
            )
            ok = False
    if n_checked < 3:
        chk.undecided(rule, name, "fewer than 3 selection paths explored", node=fi.node)
        ok = False
    if ok:
        chk.ok(rule, name, "last match wins with guard threshold <= demand; exactly one regulate(interval) on the chosen controller, default when nothing matches", node=fi.node, input="%d paths (0..2 slaves x match/no-match)" % n_checked)
    # constructor: sorted slaves, re-targeting, pairing validation
    init = prog.method(SWITCH, "__init__")
    src = ast.unparse(init.node)
    chk.count(3)
    ok2 = True
    slaves_assign = [n for n in ast.walk(init.node) if isinstance(n, ast.Assign) and any(isinstance(t, ast.Attribute) and t.attr == slots.attr_from_expr(prog, prog.cls(SWITCH), lambda v, t: "slaves" in t, "slave table") for t in n.targets)]
    asc_ok, _n = ascending_sort(chk, rule, init, "the slaves")
    if not asc_ok:
        ok2 = False
    elif not slaves_assign or "sorted(" not in ast.unparse(slaves_assign[0].value):
        chk.bad(rule, init.qual, "the slaves are not sorted by threshold: 'last match wins' then depends on declaration order", node=slaves_assign[0] if slaves_assign else init.node, stmt="slaves-unsorted")
        ok2 = False
    retarget = [n for n in ast.walk(init.node) if isinstance(n, ast.Assign) and any(isinstance(t, ast.Attribute) and t.attr == "target" and not (isinstance(t.value, ast.Name) and t.value.id == "self") for t in n.targets)]
    names = {ast.unparse(t.value) for n in retarget for t in n.targets if isinstance(t, ast.Attribute)}
    vals = {ast.unparse(n.value) for n in retarget}
    if "default" not in names or not any(isinstance(n, ast.For) and any(r in ast.walk(n) for r in retarget) for n in ast.walk(init.node)):
        chk.bad(rule, init.qual, "not every slave (and the default) is re-targeted to the switch's own target (re-targeted: %s)" % sorted(names), node=init.node, stmt="retarget")
        ok2 = False
    if vals - {"target"}:
        chk.bad(rule, init.qual, "controllers are re-targeted to %s instead of the switch's target" % sorted(vals), node=init.node, stmt="retarget-value")
        ok2 = False
    body = init.node.body
    val_idx = [i for i, st in enumerate(body) if isinstance(st, ast.Expr) and isinstance(st.value, ast.Call) and util.dotted(st.value.func) in ("enforce", "utility.enforce") and ".target" in util.unparse(st.value.args[0] if st.value.args else st.value)]
    ret_idx = [i for i, st in enumerate(body) if any(r in list(ast.walk(st)) for r in retarget)]
    asserts = [i for i, st in enumerate(body) if isinstance(st, ast.Assert) and ".target" in util.unparse(st.test)]
    val_idx += asserts
    if not val_idx:
        chk.bad(rule, init.qual, "the constructor does not validate that the controllers are unbound or already bound to the switch's target", node=init.node, stmt="no-target-validation")
        ok2 = False
    elif ret_idx and min(ret_idx) < min(val_idx):
        chk.bad(rule, init.qual, "the controllers are re-targeted BEFORE their targets are validated: the validation can never fail, a controller that is bound to another pool (or switch) is silently taken over and the other switch then regulates the wrong pool", node=body[min(ret_idx)], stmt="retarget-before-validation")
        ok2 = False
    if "% 2" not in src:
        chk.undecided(rule, init.qual, "pairing validation not recognised", node=init.node, aux=True)
    if ok2:
        chk.ok(rule, init.qual, "slaves sorted by threshold; default and every slave re-targeted to the switch's target", node=init.node)


def run(chk):
    chk.guard("O8.1", LINEAR, linear, chk)
    chk.guard("O8.2", RELATIVE, relative, chk)
    chk.guard("O8.3", "<constructors>", constructors, chk)
    chk.guard("O8.4", STEPWISE, stepwise, chk)
    chk.guard("O8.5", SWITCH, switch, chk)
