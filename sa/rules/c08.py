"""C08 -- controllers move demand only in the documented direction and amount (decision tables)."""
import ast
import itertools

from .. import util
from .. import interp as interp_mod
from ..interp import Interp, Path, abs_value, show, strip_sites, subterms, NONE
from .. import slots
from ..report import Undecided

SELF = ("sym", "self")
TARGET = ("attr", SELF, "target")
TDEM = ("attr", TARGET, "demand")
UTIL = ("attr", TARGET, "utilisation")
ALLOC = ("attr", TARGET, "allocation")
SUPPLY = ("attr", TARGET, "supply")
LOW = ("attr", SELF, "low_utilisation")
HIGH = ("attr", SELF, "high_allocation")
INTERVAL = ("sym", "interval")
LINEAR = "cobald.controller.linear:LinearController"
RELATIVE = "cobald.controller.relative_supply:RelativeSupplyController"
STEPWISE = "cobald.controller.stepwise:Stepwise"
SELECTOR = "cobald.controller.stepwise:RangeSelector"
SWITCH = "cobald.controller.switch:DemandSwitch"


def mul_eq(t, a, b):
    return t[0] == "binop" and t[1] == "*" and {t[2], t[3]} == {a, b} and (a != b or t[2] == t[3])


def demand_effects(path):
    """list of (sign, amount term) / ('set', term) effects on target.demand along a path"""
    out = []
    for e in path.events:
        if e[0] == "aug" and e[1] == TDEM:
            if e[2] in ("+", "-"):
                out.append((e[2], e[3]))
            else:
                out.append(("aug" + e[2], e[3]))
        elif e[0] == "store" and e[1] == TDEM:
            v = e[2]
            if v[0] == "binop" and v[1] in ("+", "-") and v[2] == TDEM:
                out.append((v[1], v[3]))
            elif v[0] == "binop" and v[1] == "+" and v[3] == TDEM:
                out.append(("+", v[2]))
            else:
                out.append(("set", v))
    return out


def threshold_table(chk, qual, rule, classify):
    """run regulate under all 9 orderings; classify(label, low, high, effects, path) -> error text or None"""
    prog = chk.program
    fi = prog.method(qual, "regulate")
    name = fi.qual
    params = fi.params()
    if params != ["interval"]:
        chk.undecided(rule, name, "regulate does not take exactly `interval`", node=fi.node)
        return
    ok = True
    table = []
    # "u": the pool reports NaN for that quantity -- every ordered comparison is then False, so neither condition holds
    for ru, ra in itertools.product("<=>u", repeat=2):
        it = Interp(prog, fi)
        it.all_rel = frozenset("<=>u")
        p = Path()
        it.set_rel(UTIL, LOW, frozenset(ru), p)
        it.set_rel(ALLOC, HIGH, frozenset(ra), p)
        outs = it.run(path=p)
        chk.count(len(outs))
        label = "utilisation %s low_utilisation, allocation %s high_allocation" % (ru.replace("u", "NaN vs"), ra.replace("u", "NaN vs"))
        for o in outs:
            if o.kind not in ("normal", "return"):
                chk.bad(rule, name, "regulate ends by %s for %s" % (o.kind, label), node=fi.node, stmt="exit", input=label)
                ok = False
                continue
            forked = [e for e in o.path.events if e[0] == "branch" and e[4] == "forked"]
            if forked:
                chk.bad(rule, name, "the decision depends on more than the two documented comparisons: %s" % show(forked[0][1]), node=fi.node, stmt="extra-condition %s" % show(strip_sites(forked[0][1])), input=label)
                ok = False
                continue
            eff = demand_effects(o.path)
            table.append((ru + ra, eff))
            err = classify(label, ru == "<", ra == ">", eff, o.path)
            if err:
                chk.bad(rule, name, "%s: %s" % (label, err), node=fi.node, stmt=err[:80], input=label)
                ok = False
    if ok:
        chk.ok(rule, name, "decision table over all 16 orderings (incl. NaN readings) matches the documented one", node=fi.node, input="; ".join("%s:%s" % (k, [(s, show(a)) for s, a in e]) for k, e in table))


def linear(chk):
    RATE = ("attr", SELF, "rate")

    def classify(label, low, high, eff, path):
        for s, a in eff:
            if s not in ("+", "-"):
                return "demand is %s by %s instead of being moved by +/- interval*rate" % (s, show(a))
            if not mul_eq(a, INTERVAL, RATE):
                return "the step is %s, not interval * rate (the method's own interval)" % show(a)
        signs = [s for s, _a in eff]
        if low and not high:
            if signs != ["-"]:
                return "demand must decrease by exactly one step, effects: %s" % signs
        elif high and not low:
            if signs != ["+"]:
                return "demand must increase by exactly one step, effects: %s" % signs
        elif not low and not high:
            if signs:
                return "neither condition holds (values exactly on a threshold count as neither) but demand is changed: %s" % signs
        else:
            net = signs.count("+") - signs.count("-")
            if abs(net) > 1 or len(signs) > 2:
                return "net change exceeds one step: %s" % signs
        return None

    threshold_table(chk, LINEAR, "O8.1", classify)


def relative(chk):
    LS, HS = ("attr", SELF, "low_scale"), ("attr", SELF, "high_scale")

    def classify(label, low, high, eff, path):
        if len(eff) != 1 or eff[0][0] != "set":
            return "demand must be set exactly once, effects: %s" % [(s, show(a)) for s, a in eff]
        v = eff[0][1]
        is_low = mul_eq(v, SUPPLY, LS)
        is_high = mul_eq(v, SUPPLY, HS)
        is_one = v == SUPPLY
        if not (is_low or is_high or is_one):
            return "demand is set to %s, which is not supply scaled by low_scale, high_scale or 1" % show(v)
        if low and not high and not is_low:
            return "demand must be supply * low_scale, is %s" % show(v)
        if high and not low and not is_high:
            return "demand must be supply * high_scale, is %s" % show(v)
        if not low and not high and not is_one:
            return "neither condition holds, demand must be supply itself, is %s" % show(v)
        if low and high and is_one:
            return "both conditions hold but demand is set to the unscaled supply"
        return None

    threshold_table(chk, RELATIVE, "O8.2", classify)


def constructors(chk):
    prog = chk.program
    rule = "O8.3"
    P = lambda n: ("sym", n)  # noqa: E731
    ZERO, ONE = ("const", 0), ("const", 1)
    specs = {
        LINEAR: {"rate > 0": (P("rate"), ZERO, ">"), "low_utilisation <= high_allocation": (P("low_utilisation"), P("high_allocation"), "<=")},
        RELATIVE: {
            "low_utilisation <= high_allocation": (P("low_utilisation"), P("high_allocation"), "<="),
            "low_scale < 1": (P("low_scale"), ONE, "<"),
            "high_scale > 1": (P("high_scale"), ONE, ">"),
        },
    }
    for qual, need in specs.items():
        init = prog.method(qual, "__init__")
        name = init.qual

        def inline(f, ct):
            return f.qual == "cobald.utility:enforce"

        it = Interp(prog, init, inline=inline, assert_raises=True)
        outs = it.run()
        chk.count(len(outs))
        completing = [o for o in outs if o.kind in ("normal", "return")]
        ok = True
        if not completing:
            chk.undecided(rule, name, "constructor never completes", node=init.node)
            continue
        for label, (a, b, allowed) in need.items():
            allowed = frozenset(allowed)
            for o in completing:
                s = it.get_rel(a, b, o.path)
                if not s <= allowed:
                    extra = "".join(sorted(s - allowed))
                    chk.bad(rule, name, "the constructor accepts %s %s %s (documented: %s)" % (show(a), "/".join(extra), show(b), label), node=init.node, stmt=label, input="%s %s %s" % (show(a), extra, show(b)))
                    ok = False
                    break
        stores = {}
        for e in completing[0].path.events:
            if e[0] == "store" and e[1][0] == "attr" and e[1][1] == SELF:
                stores[e[1][2]] = e[2]
        for p in init.params()[1:]:
            chk.count()
            if p in stores and stores[p] != P(p):
                chk.bad(rule, name, "self.%s is initialised from %s" % (p, show(stores[p])), node=init.node, stmt="store-%s" % p)
                ok = False
            elif p not in stores:
                chk.bad(rule, name, "the constructor parameter %s is not stored" % p, node=init.node, stmt="unstored-%s" % p)
                ok = False
        if ok:
            chk.ok(rule, name, "accepts only %s; parameters stored under their own names" % ", ".join(need), node=init.node)


def ascending_sort(chk, rule, fi, what):
    """every sorted()/.sort() in fi sorts ascending by the threshold: no reverse, no foreign key"""
    ok = True
    n = 0
    for c in ast.walk(fi.node):
        if isinstance(c, ast.Call) and (util.dotted(c.func) == "sorted" or (isinstance(c.func, ast.Attribute) and c.func.attr == "sort")):
            n += 1
            for kw in c.keywords:
                if kw.arg == "reverse" and not (isinstance(kw.value, ast.Constant) and not kw.value.value):
                    chk.bad(rule, fi.qual, "%s are sorted in DESCENDING order (reverse=%s): the range / last-match lookup assumes ascending thresholds, so the wrong entry is selected" % (what, util.unparse(kw.value)), node=c, stmt="sorted-reverse")
                    ok = False
                if kw.arg == "key":
                    txt = util.unparse(kw.value).replace(" ", "")
                    if txt not in ("lambdapair:pair[0]", "lambdaitem:item[0]", "lambdax:x[0]", "itemgetter(0)", "operator.itemgetter(0)"):
                        chk.undecided(rule, fi.qual, "%s are sorted with the key %s" % (what, txt), node=c, aux=True)
    return ok, n


def first_match_comprehension(chk, rule, get):
    """get_rule written as  next((rule for (low, high), rule in lookup.items() if low <= supply < high), None)"""
    prog = chk.program
    name = get.qual
    outs = Interp(prog, get).run()
    chk.count(len(outs))
    sup = ("sym", get.params()[0])
    if len(outs) != 1 or outs[0].kind != "return":
        chk.undecided(rule, name, "get_rule is neither a single loop nor a single first-match expression", node=get.node)
        return
    t = strip_sites(outs[0].value)
    if not (t[0] == "call" and t[1] == ("glob", "ext:builtins.next") and t[2] and t[2][0][0] == "comp" and len(t[2][0][3]) == 1):
        chk.undecided(rule, name, "get_rule idiom not recognised: %s" % show(t), node=get.node)
        return
    comp = t[2][0]
    target, src, conds = comp[3][0]
    if not (target[0] == "tuple" and len(target[1]) == 2 and target[1][0][0] == "tuple" and len(target[1][0][1]) == 2):
        chk.undecided(rule, name, "comprehension target is not ((low, high), rule)", node=get.node)
        return
    (low, high), rl = target[1][0][1], target[1][1]
    if comp[2] != rl:
        chk.bad(rule, name, "the selected value %s is not the rule stored under the matching range" % show(comp[2]), node=get.node, stmt="wrong-rule")
        return
    flat = []
    for c in conds:
        flat.extend(c[2] if c[0] == "boolop" and c[1] == "and" else [c])
    want = {("cmp", "<=", low, sup), ("cmp", "<", sup, high)}
    if set(flat) == want:
        chk.ok(rule, name, "first match of the half-open range predicate low <= supply < high over the lookup items", node=get.node)
    else:
        got = sorted(show(c) for c in flat)
        msg = "range predicate is %s (required: low <= supply < high, half-open)" % " and ".join(got)
        chk.bad(rule, name, msg, node=get.node, stmt="range-predicate")


def _seq_parts(t):
    """flatten a sequence-building term into [('elem', x) | ('seq', s)]: chain(...), list/tuple displays with stars, +"""
    t = strip_sites(t)
    if t[0] == "call" and t[1] == ("glob", "ext:itertools.chain") and not t[3]:
        out = []
        for a in t[2]:
            out.extend(_seq_parts(a))
        return out
    if t[0] in ("list", "tuple"):
        out = []
        for x in t[1]:
            if x[0] == "star":
                out.extend(_seq_parts(x[1]))
            else:
                out.append(("elem", x))
        return out
    if t[0] == "binop" and t[1] == "+":
        return _seq_parts(t[2]) + _seq_parts(t[3])
    if t[0] == "call" and t[1] in (("glob", "ext:builtins.list"), ("glob", "ext:builtins.tuple")) and len(t[2]) == 1 and not t[3]:
        return _seq_parts(t[2][0])
    return [("seq", t)]


INF = ("call", ("glob", "ext:builtins.float"), (("const", "inf"),), ())
INF_TERMS = (INF, ("glob", "ext:math.inf"), ("attr", ("glob", "ext:math"), "inf"))


def lookup_table(chk, rule):
    """how the ranges are built: [0, t1), [t1, t2), ..., [tn, inf) over the ASCENDING thresholds, carrying base, r1, ..., rn"""
    prog = chk.program
    sel = prog.cls(SELECTOR)
    init = prog.lookup_method(sel, "__init__")
    get = prog.method(SELECTOR, "get_rule")
    # the attribute get_rule ranges over is what __init__ stores the compiled table in
    comp = table_attr = None
    for o in Interp(prog, init).run():
        for e in o.path.events:
            if e[0] == "store" and e[1][0] == "attr" and e[1][1] == SELF and e[2][0] == "call" and e[2][1][0] == "attr" and e[2][1][1] == SELF:
                cand = prog.lookup_method(sel, e[2][1][2])
                if cand is not None:
                    comp, table_attr, call = cand, e[1], e[2]
    read = {n.attr for n in ast.walk(get.node) if isinstance(n, ast.Attribute) and isinstance(n.value, ast.Name) and n.value.id == "self" and isinstance(n.ctx, ast.Load) and prog.lookup_method(sel, n.attr) is None}
    for o in Interp(prog, init).run():
        if o.kind in ("normal", "return"):
            stored = {e[1][2] for e in o.path.events if e[0] == "store" and e[1][0] == "attr" and e[1][1] == SELF}
            chk.count()
            if read - stored - set(sel.class_attrs):
                chk.bad(rule, get.qual, "get_rule reads self.%s, which the selector's constructor never sets: every lookup raises AttributeError" % sorted(read - stored)[0], node=get.node, stmt="table-not-stored")
                return
    # a table that lives on the class is shared by every selector of the process
    stored_always = None
    for o in Interp(prog, init).run():
        if o.kind in ("normal", "return"):
            st_ = {e[1][2] for e in o.path.events if e[0] == "store" and e[1][0] == "attr" and e[1][1] == SELF}
            stored_always = st_ if stored_always is None else stored_always & st_
    for a in sorted(read & set(sel.class_attrs)):
        v = sel.class_attrs[a]
        mutable = isinstance(v, (ast.Dict, ast.List, ast.Set)) or (isinstance(v, ast.Call) and util.dotted(v.func) in ("dict", "list", "set", "collections.OrderedDict", "OrderedDict", "defaultdict", "collections.defaultdict"))
        chk.count()
        if mutable and a not in (stored_always or set()):
            chk.bad(rule, get.qual, "get_rule reads self.%s, a mutable object defined on the CLASS that the constructor does not re-bind per instance: every Stepwise controller of the process shares (and extends) one rule table" % a, node=get.node, stmt="table-shared %s" % a)
            return
    if comp is None:
        chk.undecided(rule, init.qual, "the selector's constructor does not store a table compiled by an own method", node=init.node, aux=True)
        return
    uses = [n for n in ast.walk(get.node) if isinstance(n, ast.Attribute) and isinstance(n.value, ast.Name) and n.value.id == "self" and n.attr == table_attr[2]]
    if not uses:
        chk.bad(rule, get.qual, "get_rule does not read the table the constructor compiles (%s)" % show(table_attr), node=get.node, stmt="table-unused")
        return
    iparams = init.params() + ([init.node.args.vararg.arg] if init.node.args.vararg else [])
    cparams = comp.params()
    if len(cparams) != 2 or len(iparams) != 2 or list(call[2]) != [("sym", iparams[0]), ("sym", iparams[1])] or call[3]:
        chk.undecided(rule, init.qual, "the table is compiled from %s" % [show(a) for a in call[2]], node=init.node, aux=True)
        return
    BASE, RULES = ("sym", cparams[0]), ("sym", cparams[1])
    outs = Interp(prog, comp, unroll=1).run()
    chk.count(len(outs))
    ok = True
    n_entries = 0
    for o in outs:
        if o.kind == "raise":
            continue
        if o.kind != "return" or o.value in (None, NONE):
            chk.bad(rule, comp.qual, "the table compiler can complete without returning the table (get_rule then fails on None)", node=comp.node, stmt="table-not-returned")
            ok = False
            continue
        evs = o.path.events
        stores = [e for e in evs if e[0] == "store" and e[1][0] == "sub"]
        iters = [e for e in evs if e[0] == "loop-iter"]
        rv = o.value
        if not iters and not any(e[0] in ("loop-exit", "loop-cut") for e in evs):
            # the rule-less table: {(0, inf): base}
            t = strip_sites(rv)
            good = t[0] == "dict" and len(t[1]) == 1 and t[1][0][0][0] == "tuple" and len(t[1][0][0][1]) == 2 and t[1][0][0][1][0] == ("const", 0) and t[1][0][0][1][1] in INF_TERMS and t[1][0][1] == BASE
            chk.count()
            if good:
                n_entries += 1
            elif t[0] == "dict":
                chk.bad(rule, comp.qual, "without threshold rules the table is %s (required: the base rule for every supply, i.e. the single range [0, inf))" % show(t), node=comp.node, stmt="table-base-only")
                ok = False
            else:
                chk.undecided(rule, comp.qual, "rule-less table idiom not recognised: %s" % show(t), node=comp.node, aux=True)
                ok = False
            continue
        if not iters:
            continue
        if len(stores) != 1:
            if any(e[0] == "loop-iter" for e in evs) and not stores and o.kind == "return":
                chk.bad(rule, comp.qual, "an iteration over the ranges completes without entering the range into the table", node=comp.node, stmt="table-entry-missing")
                ok = False
            continue
        st = stores[0]
        if st[1][1] != rv:
            chk.bad(rule, comp.qual, "the ranges are entered into %s but %s is returned" % (show(strip_sites(st[1][1])), show(strip_sites(rv))), node=comp.node, stmt="table-other-returned")
            ok = False
            continue
        key, val = strip_sites(st[1][2]), strip_sites(st[2])
        if not (key[0] == "tuple" and len(key[1]) == 2):
            chk.undecided(rule, comp.qual, "table key is %s" % show(key), node=comp.node, aux=True)
            ok = False
            continue
        lo, hi = key[1]
        # (low, high) taken as ONE pair from a pairing helper:  for (low, high), rule in zip(pairs(bounds), rules)
        if lo[0] == "proj" and hi[0] == "proj" and lo[1] == hi[1] and lo[1][0] == "proj" and lo[1][1][0] == "item" and val[0] == "proj" and val[1] == lo[1][1]:
            z = lo[1][1][1]
            if z[0] == "call" and z[1] == ("glob", "ext:builtins.zip") and len(z[2]) == 2:
                pairs_src, rules_src = z[2][lo[1][2]], z[2][val[2]]
                if pairs_src[0] == "call" and pairs_src[1][0] == "glob" and len(pairs_src[2]) == 1:
                    fn = pairs_src[1][1]
                    pfi = prog.functions.get(fn)
                    non_overlapping = pfi is not None and any(isinstance(c, ast.Call) and util.dotted(c.func) == "zip" and len(c.args) == 2 and ast.dump(c.args[0]) == ast.dump(c.args[1]) for c in ast.walk(pfi.node))
                    chk.count()
                    if non_overlapping:
                        chk.bad(rule, comp.qual, "the ranges are taken from %s(bounds), which yields NON-overlapping pairs (b0,b1), (b2,b3), ...: every other supply range is missing from the table and the rules are shifted against their thresholds" % fn.split(":")[-1], node=comp.node, stmt="table-ranges-non-overlapping")
                        ok = False
                        continue
                    if fn == "ext:itertools.pairwise":
                        bparts, rparts = _seq_parts(pairs_src[2][0]), _seq_parts(rules_src)
                        bok = len(bparts) == 3 and bparts[0] == ("elem", ("const", 0)) and bparts[1][0] == "seq" and bparts[2][0] == "elem" and bparts[2][1] in INF_TERMS
                        rok = len(rparts) == 2 and rparts[0] == ("elem", BASE) and rparts[1][0] == "seq"
                        if bok and rok:
                            n_entries += 1
                            continue
                chk.undecided(rule, comp.qual, "table keys come from %s" % show(pairs_src), node=comp.node, aux=True)
                ok = False
                continue
        projs = [lo, hi, val]
        if not all(x[0] == "proj" and x[1][0] == "item" for x in projs) or len({x[1] for x in projs}) != 1:
            chk.undecided(rule, comp.qual, "table entry (%s, %s) -> %s is not taken from one zipped item" % (show(lo), show(hi), show(val)), node=comp.node, aux=True)
            ok = False
            continue
        z = projs[0][1][1]
        if not (z[0] == "call" and z[1] == ("glob", "ext:builtins.zip") and len(z[2]) == 3):
            chk.undecided(rule, comp.qual, "the ranges are not produced by a three-way zip: %s" % show(z), node=comp.node, aux=True)
            ok = False
            continue
        cols = {"low": z[2][lo[2]], "high": z[2][hi[2]], "rule": z[2][val[2]]} if {lo[2], hi[2], val[2]} == {0, 1, 2} else None
        if cols is None:
            chk.bad(rule, comp.qual, "lower bound, upper bound and rule of an entry are not three different columns of the zip", node=comp.node, stmt="table-columns")
            ok = False
            continue
        parts = {k: _seq_parts(v) for k, v in cols.items()}
        # thresholds / rules: the two columns of zip(*sorted(rules))
        def col(t):
            return t[0] == "proj" and t[1][0] == "call" and t[1][1] == ("glob", "ext:builtins.zip") and len(t[1][2]) == 1 and t[1][2][0][0] == "star" and t[1][2][0][1][0] == "call" and t[1][2][0][1][1] == ("glob", "ext:builtins.sorted") and t[1][2][0][1][2][:1] == (RULES,)
        seqs = {k: [x[1] for x in v if x[0] == "seq"] for k, v in parts.items()}
        if not all(len(v) == 1 and col(v[0]) for v in seqs.values()):
            chk.undecided(rule, comp.qual, "the columns are not built around zip(*sorted(rules)): %s" % {k: [show(x[1]) for x in v] for k, v in parts.items()}, node=comp.node, aux=True)
            ok = False
            continue
        TH, RL = seqs["low"][0], seqs["rule"][0]
        chk.count(3)
        want = {
            "low": [("elem", ("const", 0)), ("seq", TH)],
            "high": [("seq", TH), ("elem", None)],
            "rule": [("elem", BASE), ("seq", RL)],
        }
        bad_here = False
        if TH[2] != 0 or RL[2] != 1 or seqs["high"][0] != TH:
            chk.bad(rule, comp.qual, "the bounds are not the thresholds (first column) and the rules not the second column of the sorted rule pairs", node=comp.node, stmt="table-column-source")
            bad_here = True
        for k in ("low", "high", "rule"):
            got = [(a, (None if (k == "high" and a == "elem" and b in INF_TERMS) else b)) for a, b in parts[k]]
            if got != want[k] and not bad_here:
                def fmt(ps):
                    return "[" + ", ".join(("*" if a == "seq" else "") + (show(b) if b is not None else "inf") for a, b in ps) + "]"
                what = {
                    "low": "the lower bounds are %s (required: 0 followed by the ascending thresholds)",
                    "high": "the upper bounds are %s (required: the ascending thresholds followed by infinity)",
                    "rule": "the rules are %s (required: the base rule followed by the rules in threshold order): every rule is shifted against its range",
                }[k] % fmt(parts[k])
                chk.bad(rule, comp.qual, what, node=comp.node, stmt="table-%s-column" % k)
                bad_here = True
        if bad_here:
            ok = False
        else:
            n_entries += 1
    if ok and n_entries >= 2:
        chk.ok(rule, comp.qual, "table = {(0, inf): base} without rules; otherwise zip([0, *T], [*T, inf], [base, *R]) over (T, R) = zip(*sorted(rules)), entered into the returned dict; stored by __init__ in the attribute get_rule reads", node=comp.node)
    elif ok:
        chk.undecided(rule, comp.qual, "table construction not recognised", node=comp.node, aux=True)


UNBOUND = "cobald.controller.stepwise:UnboundStepwise"


def stepwise_wiring(chk):
    """O8.6: the rules declared on the skeleton are the rules the controller applies (declaration -> table -> run)"""
    prog = chk.program
    rule = "O8.6"
    # ---- Stepwise.__init__ ---------------------------------------------------------------------
    init = prog.method(STEPWISE, "__init__")
    ps = init.params()
    va = init.node.args.vararg.arg if init.node.args.vararg else None
    ok = True
    if len(ps) < 2 or va is None:
        chk.undecided(rule, init.qual, "Stepwise.__init__ signature is not (target, base, *rules, interval)", node=init.node, aux=True)
    else:
        T, B, R = ("sym", ps[0]), ("sym", ps[1]), ("sym", va)
        run = prog.method(STEPWISE, "run")
        sel_attrs = {n.value.attr for n in ast.walk(run.node) if isinstance(n, ast.Attribute) and n.attr == "get_rule" and isinstance(n.value, ast.Attribute) and util.dotted(n.value.value) == "self"}
        for o in Interp(prog, init, assert_raises=False).run():
            chk.count()
            if o.kind not in ("normal", "return"):
                continue
            evs = o.path.events
            sup = [e[1] for e in evs if e[0] == "call" and e[1][1][0] == "attr" and e[1][1][2] == "__init__"]
            tgt = [e for e in evs if e[0] == "store" and e[1] == ("attr", SELF, "target")]
            if not any(list(c[2])[:1] == [T] or dict(c[3]).get("target") == T for c in sup) and not any(e[2] == T for e in tgt):
                chk.bad(rule, init.qual, "the controller is not bound to the target pool it is given (Controller.__init__(target) is not reached): the rules act on no pool", node=init.node, stmt="target-not-bound")
                ok = False
            iv = [e[2] for e in evs if e[0] == "store" and e[1] == ("attr", SELF, "interval")]
            if not iv or iv[-1] != ("sym", "interval"):
                chk.bad(rule, init.qual, "self.interval is %s instead of the interval the controller is given" % (show(iv[-1]) if iv else "not set"), node=init.node, stmt="interval-not-stored")
                ok = False
            for a in sorted(sel_attrs):
                stv = [strip_sites(e[2]) for e in evs if e[0] == "store" and e[1] == ("attr", SELF, a)]
                want = ("call", ("glob", SELECTOR), (B, ("star", R)), ())
                if not stv or stv[-1] != want:
                    chk.bad(rule, init.qual, "the rule selector run() consults (self.%s) is %s instead of RangeSelector(base, *rules): declared rules are dropped or misplaced" % (a, show(stv[-1]) if stv else "never set"), node=init.node, stmt="selector-args")
                    ok = False
        if not sel_attrs:
            chk.undecided(rule, run.qual, "run() does not look rules up through an attribute's get_rule", node=run.node, aux=True)
            ok = False
    # ---- UnboundStepwise.add --------------------------------------------------------------------
    ucls = prog.cls(UNBOUND)
    add = prog.pick([f for f in ucls.methods.get("add", []) if not any((d or "").endswith("overload") for d in f.decorator_names())])
    call = prog.lookup_method(ucls, "__call__")
    uinit = prog.lookup_method(ucls, "__init__")
    if add is None or call is None or uinit is None:
        chk.missing(rule, "UnboundStepwise.add / __call__")
        return
    base_attr = slots.attr_from_param(prog, ucls, uinit.params()[0])
    BASEA = ("attr", SELF, base_attr)
    aps = add.params() + [a.arg for a in add.node.args.kwonlyargs]
    if len(aps) != 2:
        chk.undecided(rule, add.qual, "add signature is not (rule, *, supply)", node=add.node, aux=True)
        return
    RULE, SUP = ("sym", aps[0]), ("sym", aps[1])
    rules_attr = None
    for scenario in ("given", "none"):

        def decide(it, path, term, scenario=scenario):
            t = term
            if t == ("isnone", RULE):
                return scenario == "none"
            if scenario == "none" and t in (RULE, ("truthy", RULE)):
                return False
            return None

        for o in Interp(prog, add, decide=decide).run():
            chk.count()
            if o.kind == "raise":
                # a refused (re-defined) threshold leaves the table as it was: nothing is recorded before the check that can fail
                if any(e[0] == "call" and e[1][1][0] == "attr" and e[1][1][2] in ("append", "add", "insert", "extend") and e[1][1][1][0] == "attr" and e[1][1][1][1] == SELF for e in o.path.events):
                    chk.bad(rule, add.qual, "add records the rule BEFORE the check that refuses it: the ValueError is raised, but the rejected pair stays in the table and every later control(pool) fails or uses the wrong rule", node=add.node, stmt="add-recorded-before-refusal")
                    ok = False
                continue
            evs = o.path.events
            apps = [e[1] for e in evs if e[0] == "call" and e[1][1][0] == "attr" and e[1][1][2] == "append" and e[1][1][1][0] == "attr" and e[1][1][1][1] == SELF]
            if scenario == "given":
                good = [c for c in apps if [strip_sites(a) for a in c[2]] == [("tuple", (SUP, RULE))]]
                if len(good) != 1:
                    chk.bad(rule, add.qual, "add(rule, supply=...) records %s instead of exactly one (supply, rule) pair: the declared rule never reaches the controller's table" % ([show(strip_sites(a)) for c in apps for a in c[2]] or "nothing"), node=add.node, stmt="add-not-recorded")
                    ok = False
                else:
                    rules_attr = good[0][1][1]
                if o.kind != "return" or o.value != RULE:
                    chk.bad(rule, add.qual, "add(rule, supply=...) returns %s instead of the rule (it is used as a decorator: the decorated name must stay the rule)" % (show(o.value) if o.value else None), node=add.node, stmt="add-returns")
                    ok = False
            else:
                if apps:
                    chk.bad(rule, add.qual, "the decorator form add(supply=...) records a pair with rule None", node=add.node, stmt="add-none-recorded")
                    ok = False
                v = strip_sites(o.value) if o.value else None
                if not (o.kind == "return" and v and v[0] == "call" and v[1] == ("glob", "ext:functools.partial") and list(v[2]) == [("attr", SELF, "add")] and dict(v[3]) == {aps[1]: SUP}):
                    if o.kind == "return" and v and v[0] in ("lambda", "closure", "func"):
                        chk.undecided(rule, add.qual, "decorator form returns %s" % show(v), node=add.node, aux=True)
                    else:
                        chk.bad(rule, add.qual, "the decorator form add(supply=s) returns %s instead of a callable that adds the decorated rule for the SAME threshold" % (show(v) if v else None), node=add.node, stmt="add-decorator-form")
                    ok = False
    # ---- UnboundStepwise.__call__ ---------------------------------------------------------------
    cps = call.params()
    if len(cps) != 2 or rules_attr is None:
        if rules_attr is not None:
            chk.undecided(rule, call.qual, "__call__ signature is not (target, interval)", node=call.node, aux=True)
        return
    TG, IV = ("sym", cps[0]), ("sym", cps[1])
    for scenario in ("given", "none"):

        def decide2(it, path, term, scenario=scenario):
            if term == ("isnone", IV):
                return scenario == "none"
            return None

        for o in Interp(prog, call, decide=decide2).run():
            chk.count()
            if o.kind == "raise":
                continue
            v = strip_sites(o.value) if o.kind == "return" and o.value else None
            if not (v and v[0] == "call" and v[1] == ("glob", STEPWISE)):
                chk.bad(rule, call.qual, "calling the skeleton returns %s instead of a Stepwise controller" % (show(v) if v else None), node=call.node, stmt="call-result")
                ok = False
                continue
            kw = dict(v[3])
            pos = list(v[2])
            if "target" in kw:
                pos.insert(0, kw.pop("target"))
            if pos != [TG, BASEA, ("star", rules_attr)]:
                chk.bad(rule, call.qual, "the controller is built from %s instead of (target, base rule, *declared rules)" % [show(a) for a in pos], node=call.node, stmt="call-args")
                ok = False
            iv = kw.pop("interval", None)
            if None in kw:
                chk.undecided(rule, call.qual, "the controller is built with **%s" % show(kw[None]), node=call.node, aux=True)
                ok = False
                continue
            if iv is not None and iv != IV and iv[0] != "const" and IV in list(subterms(iv)):
                chk.undecided(rule, call.qual, "interval is passed as %s" % show(iv), node=call.node, aux=True)
                ok = False
                continue
            if kw:
                chk.bad(rule, call.qual, "the controller is built with unexpected keywords %s" % sorted(k or "**" for k in kw), node=call.node, stmt="call-kwargs")
                ok = False
            if scenario == "given" and iv != IV:
                chk.bad(rule, call.qual, "an explicit interval is not handed to the controller (%s): it regulates at the default interval" % (show(iv) if iv else "dropped"), node=call.node, stmt="call-interval-dropped")
                ok = False
            if scenario == "none" and iv == IV:
                chk.bad(rule, call.qual, "without an interval the controller is built with interval=%s, i.e. None, instead of its default: the first sleep raises TypeError" % show(iv), node=call.node, stmt="call-interval-none")
                ok = False
    if ok:
        chk.ok(rule, UNBOUND, "add records exactly (supply, rule) and returns the rule (decorator form: partial(add, supply=supply)); calling the skeleton builds Stepwise(target, base, *rules[, interval]); Stepwise binds target, interval and RangeSelector(base, *rules), which run() consults", node=add.node)


def stepwise(chk):
    prog = chk.program
    rule = "O8.4"
    # ---- the range predicate ------------------------------------------------------------
    get = prog.method(SELECTOR, "get_rule")
    name = get.qual
    loops = [n for n in ast.walk(get.node) if isinstance(n, ast.For)]
    if len(loops) != 1:
        first_match_comprehension(chk, rule, get)
    else:
        loop = loops[0]
        it = Interp(prog, get, unroll=1)
        # a defaulted parameter that no call site of the package supplies (`default=None`) reads as its default
        start = interp_mod.Path()
        start.env.update(util.unsupplied_defaults(prog, get, private_only=False))
        outs = it.run(path=start)
        chk.count(len(outs))
        sup = ("sym", get.params()[0])
        returning = set()
        keep = set()
        bounds = None
        ok = True
        for o in outs:
            iters = [e for e in o.path.events if e[0] == "loop-iter"]
            if len(iters) != 1:
                continue
            item = None
            for e in o.path.events:
                if e[0] == "bind" and e[2][0] in ("proj",):
                    pass
            # the loop variables: (low, high), rule  <-  item = (key, rule), key = (low, high)
            vals = {e[2] for e in o.path.events if e[0] == "bind" and e[2][0] == "proj"}
            lo = [x for x in vals if x[2] == 0 and x[1][0] == "proj" and x[1][2] == 0 and x[1][1][0] == "item"]
            hi = [x for x in vals if x[2] == 1 and x[1][0] == "proj" and x[1][2] == 0 and x[1][1][0] == "item"]
            if len(lo) != 1 or len(hi) != 1 or lo[0][1] != hi[0][1]:
                chk.undecided(rule, name, "loop target is not ((low, high), rule) over the lookup items: %s" % sorted(show(x) for x in vals), node=loop)
                ok = False
                break
            compared = {x for k in o.path.rel if sup in k for x in k if x != sup}
            if not compared <= {lo[0], hi[0]}:
                chk.bad(rule, name, "the supply is compared with %s, not with the bounds of the range" % sorted(show(x) for x in compared - {lo[0], hi[0]}), node=loop, stmt="foreign-bound")
                ok = False
                break
            bounds = (lo[0], hi[0])
            s1 = it.get_rel(lo[0], sup, o.path)
            s2 = it.get_rel(sup, hi[0], o.path)
            combos = {(a, b) for a in s1 for b in s2}
            if o.kind == "return" and o.value != NONE:
                returning |= combos
                rv = o.value
                if not (rv[0] == "proj" and rv[2] == 1 and rv[1] == lo[0][1][1]):
                    chk.bad(rule, name, "the selected value %s is not the rule stored under the matching range" % show(rv), node=loop, stmt="wrong-rule")
                    ok = False
            else:
                keep |= combos
        if ok and bounds:
            want = {("<", "<"), ("=", "<")}
            if returning != want:
                extra = returning - want
                miss = want - returning
                msg = []
                if ("<", "=") in extra or ("=", "=") in extra:
                    msg.append("a supply exactly on the UPPER bound selects the lower range (the range must be half-open: low <= supply < high)")
                if ("=", "<") in miss:
                    msg.append("a supply exactly on the LOWER bound does not select its range")
                if not msg:
                    msg.append("selected for orderings %s, required %s" % (sorted(returning), sorted(want)))
                chk.bad(rule, name, "range predicate: " + "; ".join(msg), node=loop, stmt="range-predicate", input="orderings (low?supply, supply?high) selecting: %s" % sorted(returning))
            else:
                chk.ok(rule, name, "half-open range predicate low <= supply < high over all 9 orderings; returns the rule of the matching range", node=loop, input=sorted(returning))
    # ---- lookup construction (aux) ------------------------------------------------------
    comp = None
    for fis in prog.cls(SELECTOR).methods.values():
        for fi in fis:
            if fi.name != "get_rule" and any(isinstance(n, ast.Call) and (util.dotted(n.func) or "").endswith("zip") for n in ast.walk(fi.node)):
                comp = fi
    if comp is not None:
        src = ast.unparse(comp.node)
        chk.count()
        asc_ok, _n = ascending_sort(chk, rule, comp, "the rules")
        if not asc_ok:
            pass
        elif "sorted(" not in src and ".sort(" not in src:
            chk.bad(rule, comp.qual, "the rules do not enter the lookup through sorted(): selection depends on declaration order", node=comp.node, stmt="unsorted", aux=True)
        else:
            lookup_table(chk, rule)
    # ---- Stepwise.run: one rule per step, write iff not None -------------------------------
    run = util.flat(prog, prog.method(STEPWISE, "run"))
    name = run.qual
    loop = util.the_loop(run)
    if loop is None:
        chk.undecided(rule, name, "no service loop", node=run.node)
        return
    idx = run.node.body.index(loop)
    ok = True
    for kind in ("none", "falsy", "truthy"):
        res = abs_value(kind, "rule_result")

        def hook(it, path, ct, node, res=res):
            if ct[0] == "call" and ct[1][0] == "call":  # applying the looked-up rule
                return [("value", res)]
            return None

        it = Interp(prog, run, call_hook=hook, unroll=1, inline=lambda f, ct: f.cls is run.cls and not f.is_async and f.name != "run")
        pre = it.exec_block(run.node.body[:idx], Path())
        if len(pre) != 1:
            chk.undecided(rule, name, "prologue branches", node=run.node)
            return
        outs = it.exec_block(loop.body, pre[0].path)
        chk.count(len(outs))
        for o in outs:
            rules = [e for e in o.path.events if e[0] == "call" and e[1][1][0] == "call"]
            if len(rules) != 1:
                chk.bad(rule, name, "one step applies %d rules (required: exactly one)" % len(rules), node=loop, stmt="rule-count", input=kind)
                ok = False
                continue
            ct = rules[0][1]
            sel = ct[1]
            # lookup, application and write are one step: no checkpoint (await) between reading the supply and acting on
            # it, else the rule of an EARLIER supply acts on the pool
            evs_ = o.path.events
            i_look = next((i for i, e in enumerate(evs_) if e[0] == "call" and e[1][1][0] == "attr" and e[1][1][2] == "get_rule"), None)
            i_apply = evs_.index(rules[0])
            i_store = max([i for i, e in enumerate(evs_) if e[0] in ("store", "aug") and e[1] == TDEM] or [i_apply])
            waits = [i for i, e in enumerate(evs_) if i_look is not None and i_look < i < i_store and ((e[0] == "call" and e[3]) or e[0] == "await")]
            if waits and ok:
                chk.bad(rule, name, "the step waits (%s) between looking the rule up by the current supply and applying it: the rule that acts was chosen for the supply of an earlier moment, not for the greatest threshold not above the CURRENT supply" % show(strip_sites(evs_[waits[0]][1])), node=loop, stmt="wait-between-lookup-and-act", input=kind)
                ok = False
            if not (sel[1][0] == "attr" and sel[1][2] == "get_rule" and list(sel[2]) == [SUPPLY]):
                chk.bad(rule, name, "the rule is looked up by %s instead of the target's current supply" % [show(a) for a in sel[2]], node=loop, stmt="lookup-key", input=kind)
                ok = False
            if list(ct[2]) != [TARGET, ("attr", SELF, "interval")] or ct[3]:
                chk.bad(rule, name, "the rule is called with %s instead of (target, interval)" % [show(a) for a in ct[2]], node=loop, stmt="rule-args", input=kind)
                ok = False
            stores = [e for e in o.path.events if e[0] in ("store", "aug") and e[1] == TDEM]
            if kind == "none" and stores:
                chk.bad(rule, name, "demand is written although the rule returned None", node=loop, stmt="none-written", input=kind)
                ok = False
            if kind != "none":
                if len(stores) != 1 or stores[0][0] != "store" or stores[0][2] != res:
                    chk.bad(
                        rule,
                        name,
                        "a %s non-None rule result is %s%s" % (kind, "not written to the target's demand" if not stores else "written as %s" % show(stores[0][2] if stores[0][0] == "store" else stores[0][3]), " (a result of 0 must be applied: `is not None`, not truthiness)" if kind == "falsy" else ""),
                        node=loop,
                        stmt="result-%s" % kind,
                        input=kind,
                    )
                    ok = False
    if ok:
        chk.ok(rule, name, "exactly one rule (looked up by target.supply) is applied with (target, interval); demand written iff the result is not None, unmodified", node=loop, input="result partition none/falsy/truthy")


def switch(chk):
    prog = chk.program
    rule = "O8.5"
    fi = prog.method(SWITCH, "regulate")
    name = fi.qual
    loops = [n for n in ast.walk(fi.node) if isinstance(n, (ast.For, ast.While))]
    ok = True
    if any(isinstance(n, ast.Break) for n in ast.walk(fi.node)):
        chk.bad(rule, name, "the selection loop breaks at the first match: with sorted thresholds the SMALLEST matching threshold wins instead of the greatest", node=fi.node, stmt="break")
        ok = False
    swcls = fi.cls
    FAIL = interp_mod.REPRESENTATIVES["AnyException"]

    def failing(it_, path, ct, node):
        # the delegated step may fail: the failure is the chosen controller's answer for this step
        if ct[0] == "call" and ct[1][0] == "attr" and ct[1][2] == "regulate" and ct[1][1] != SELF:
            return [("value", NONE), ("raise", FAIL)]
        return None

    it = Interp(prog, fi, unroll=2, inline=lambda f, ct: f.cls is swcls and f.name != "regulate", call_hook=failing)
    outs = it.run()
    chk.count(len(outs))
    failed = [o for o in outs if any(e[0] == "raised-at-call" for e in o.path.events) or (o.kind == "raise" and o.value == FAIL)]
    outs = [o for o in outs if o not in failed]
    for o in failed:
        regs = [e for e in o.path.events if e[0] == "call" and e[1][1][0] == "attr" and e[1][1][2] == "regulate" and e[1][1][1] != SELF]
        if o.kind != "raise" or o.value != FAIL:
            chk.bad(rule, name, "a failure of the chosen controller's step is swallowed (the step ends by %s after %d delegation(s)): the switch hides that nobody regulated, or lets a second controller act in the same step" % (o.kind, len(regs)), node=fi.node, stmt="failure-swallowed")
            ok = False
            break
        if len(regs) != 1:
            chk.bad(rule, name, "when the chosen controller's step fails, %d controllers are asked in the same step (required: exactly one)" % len(regs), node=fi.node, stmt="failure-second-delegate")
            ok = False
            break
    DEFAULT = ("attr", SELF, slots.attr_from_param(prog, prog.cls(SWITCH), "default"))
    n_checked = 0
    SLAVES_ATTR = None
    try:
        SLAVES_ATTR = ("attr", SELF, slots.attr_from_expr(prog, prog.cls(SWITCH), lambda v, t: "slaves" in t, "slave table"))
    except Undecided:
        pass
    for o in outs:
        if o.kind not in ("normal", "return"):
            chk.bad(rule, name, "regulate ends by %s" % o.kind, node=fi.node, stmt="exit")
            ok = False
            continue
        iters = [e for e in o.path.events if e[0] == "loop-iter"]
        if not iters:
            regs0 = [e for e in o.path.events if e[0] == "call" and e[1][1][0] == "attr" and e[1][1][2] == "regulate" and e[1][1][1] != SELF]
            if len(regs0) == 1:
                ch = strip_sites(regs0[0][1][1][1])
                # `if matching := [slave for thr, slave in slaves if thr <= demand]: *_, chosen = matching` else default
                def matching_comp(c):
                    if not (c[0] == "comp" and c[1] == "list" and len(c[3]) == 1):
                        return False
                    tgt, src, conds = c[3][0]
                    return tgt[0] == "tuple" and len(tgt[1]) == 2 and c[2] == tgt[1][1] and src == SLAVES_ATTR and list(conds) == [("cmp", "<=", tgt[1][0], TDEM)]

                comps = {strip_sites(e[1]) for e in o.path.events if e[0] in ("branch", "fork") and matching_comp(strip_sites(e[1]))}
                if len(comps) == 1 and list(regs0[0][1][2]) == [INTERVAL]:
                    comp = next(iter(comps))
                    nonempty = [e[2] for e in o.path.events if e[0] in ("branch", "fork") and strip_sites(e[1]) == comp][-1]
                    chk.count()
                    if (nonempty and ch == ("sub", comp, ("const", -1))) or (not nonempty and ch == DEFAULT):
                        n_checked += 2
                        continue
                    chk.bad(rule, name, "with %s matching thresholds the step is delegated to %s: not the slave with the greatest threshold <= demand, else the default" % ("some" if nonempty else "no", show(ch)), node=fi.node, stmt="selection-last-of-matching")
                    ok = False
                    continue
                # last element of  [default] + matching   /   [default, *matching]
                seq = ch[1] if ch[0] == "sub" and ch[2] == ("const", -1) else None
                parts = None
                if seq is not None and seq[0] == "binop" and seq[1] == "+":
                    parts = (seq[2], seq[3])
                elif seq is not None and seq[0] == "list" and len(seq[1]) == 2 and seq[1][1][0] == "star":
                    parts = (("list", (seq[1][0],)), seq[1][1][1])
                if parts and parts[0] == ("list", (DEFAULT,)) and parts[1][0] == "comp" and len(parts[1][3]) == 1:
                    comp = parts[1]
                    tgt, src, conds = comp[3][0]
                    good = tgt[0] == "tuple" and len(tgt[1]) == 2 and comp[2] == tgt[1][1] and src == SLAVES_ATTR and list(conds) == [("cmp", "<=", tgt[1][0], TDEM)]
                    chk.count()
                    if good and list(regs0[0][1][2]) == [INTERVAL]:
                        n_checked += 3
                        continue
                    chk.bad(rule, name, "the controller is chosen as %s: not the slave with the greatest threshold <= demand, else the default" % show(ch), node=fi.node, stmt="selection-comprehension")
                    ok = False
                    continue
        regs = [e for e in o.path.events if e[0] == "call" and e[1][1][0] == "attr" and e[1][1][2] == "regulate" and e[1][1][1] != SELF]
        if len(regs) != 1:
            chk.bad(rule, name, "a step delegates to %d controllers (required: exactly one)" % len(regs), node=fi.node, stmt="delegate-count")
            ok = False
            continue
        ct = regs[0][1]
        if list(ct[2]) != [INTERVAL] or ct[3]:
            chk.bad(rule, name, "the chosen controller is called with %s instead of the step's interval" % [show(a) for a in ct[2]], node=fi.node, stmt="delegate-args")
            ok = False
        chosen = ct[1][1]
        # items: (threshold_i, slave_i) = (proj(item_i,0), proj(item_i,1))
        matched = []
        src = None
        for i in range(len(iters)):
            binds = {e[2]: e for e in o.path.events if e[0] == "bind" and e[2][0] == "proj" and e[2][1][0] == "item" and e[2][1][2] == i}
            binds = list(binds.values())
            if len(binds) != 2:
                chk.undecided(rule, name, "loop target is not a (threshold, controller) pair", node=fi.node)
                return
            thr = [b[2] for b in binds if b[2][2] == 0][0]
            slv = [b[2] for b in binds if b[2][2] == 1][0]
            src = thr[1][1]
            s = it.get_rel(thr, TDEM, o.path)
            if s <= frozenset("<="):
                matched.append((i, slv, True))
            elif s <= frozenset(">"):
                matched.append((i, slv, False))
            else:
                chk.bad(rule, name, "iteration %d does not decide threshold <= demand exactly (remaining orderings %s)" % (i, sorted(s)), node=fi.node, stmt="guard-orientation", input=sorted(s))
                ok = False
                matched.append((i, slv, None))
        want = DEFAULT
        for i, slv, m in matched:
            if m:
                want = slv
        n_checked += 1
        if any(m is None for _i, _s, m in matched):
            continue
        if chosen != want:
            chk.bad(
                rule,
                name,
                "with thresholds %s the step is delegated to %s; required: the controller with the greatest threshold not above the demand, else the default (%s)"
                % (["<= demand" if m else "> demand" for _i, _s, m in matched], show(chosen), show(want)),
                node=fi.node,
                stmt="selection",
                input=[("threshold#%d %s demand" % (i, "<=" if m else ">")) for i, _s, m in matched],
            )
            ok = False
    if n_checked < 3:
        chk.undecided(rule, name, "fewer than 3 selection paths explored", node=fi.node)
        ok = False
    if ok:
        chk.ok(rule, name, "last match wins with guard threshold <= demand; exactly one regulate(interval) on the chosen controller, default when nothing matches", node=fi.node, input="%d paths (0..2 slaves x match/no-match)" % n_checked)
    # constructor: sorted slaves, re-targeting, pairing validation
    init = prog.method(SWITCH, "__init__")
    # (validation and re-targeting may live in private helpers called in this order: read them in place)
    init_node = util.flatten_helpers(prog, init)
    src = ast.unparse(init_node)
    chk.count(3)
    ok2 = True
    try:
        table_attr = slots.attr_from_expr(prog, prog.cls(SWITCH), lambda v, t: "slaves" in t, "slave table")
        slaves_assign = [n for n in ast.walk(init_node) if isinstance(n, ast.Assign) and any(isinstance(t, ast.Attribute) and t.attr == table_attr for t in n.targets)]
    except Undecided:
        # the sorted pairs are kept in a local and split into parallel attributes: the local's assignment is what sorts
        slaves_assign = [n for n in ast.walk(init_node) if isinstance(n, ast.Assign) and "slaves" in ast.unparse(n.value) and any(isinstance(t, ast.Name) for t in n.targets)]
        used = {t.id for n in slaves_assign for t in n.targets if isinstance(t, ast.Name)}
        kept = [n for n in ast.walk(init_node) if isinstance(n, ast.Assign) and any(isinstance(t, ast.Attribute) for t in n.targets) and any(isinstance(x, ast.Name) and x.id in used for x in ast.walk(n.value))]
        if not slaves_assign or len(kept) < 2:
            raise
    asc_ok, _n = ascending_sort(chk, rule, init, "the slaves")
    if not asc_ok:
        ok2 = False
    elif not slaves_assign or "sorted(" not in ast.unparse(slaves_assign[0].value):
        chk.bad(rule, init.qual, "the slaves are not sorted by threshold: 'last match wins' then depends on declaration order", node=slaves_assign[0] if slaves_assign else init_node, stmt="slaves-unsorted")
        ok2 = False
    # the flat argument list (demand, controller, demand, controller, ...) is cut into DISJOINT pairs
    if slaves_assign:
        for c in ast.walk(slaves_assign[0].value):
            if isinstance(c, ast.Call) and len(c.args) == 1 and not c.keywords and isinstance(c.func, (ast.Name, ast.Attribute)) and "slaves" in util.unparse(c.args[0]) and util.dotted(c.func) not in ("sorted", "tuple", "list", "iter"):
                chk.count()
                fnq = prog.resolve(init.module, c.func)
                pfi = prog.functions.get(fnq or "")
                if fnq == "ext:itertools.pairwise":
                    chk.bad(rule, init.qual, "the slaves are paired with itertools.pairwise, which yields OVERLAPPING pairs (d0, c0), (c0, d1), ...: every second 'pair' is (controller, demand) and any switch with two or more slaves is refused or mis-paired", node=c, stmt="slaves-paired-overlapping")
                    ok2 = False
                elif pfi is not None:
                    flat = [x for x in ast.walk(pfi.node) if isinstance(x, ast.Call)]
                    disjoint = any(isinstance(x, ast.Call) and util.dotted(x.func) == "zip" and len(x.args) == 2 and ast.dump(x.args[0]) == ast.dump(x.args[1]) and isinstance(x.args[0], ast.Name) for x in flat) or any(isinstance(x, ast.Call) and util.dotted(x.func) == "zip" and len(x.args) == 2 and all(isinstance(a, ast.Subscript) and isinstance(a.slice, ast.Slice) and isinstance(a.slice.step, ast.Constant) and a.slice.step.value == 2 for a in x.args) for x in flat)
                    overlapping = any(prog.resolve(pfi.module, x.func) == "ext:itertools.pairwise" for x in flat)
                    if overlapping:
                        chk.bad(rule, pfi.qual, "%s returns itertools.pairwise(...), which yields OVERLAPPING pairs (a, b), (b, c), ...: the slave table of a DemandSwitch needs the disjoint pairs (a, b), (c, d)" % pfi.name, node=pfi.node, stmt="slaves-paired-overlapping")
                        ok2 = False
                    elif not disjoint:
                        chk.undecided(rule, pfi.qual, "how %s cuts the argument list into pairs was not recognised" % pfi.name, node=pfi.node, aux=True)
    retarget = [n for n in ast.walk(init_node) if isinstance(n, ast.Assign) and any(isinstance(t, ast.Attribute) and t.attr == "target" and not (isinstance(t.value, ast.Name) and t.value.id == "self") for t in n.targets)]
    names = {ast.unparse(t.value) for n in retarget for t in n.targets if isinstance(t, ast.Attribute)}
    # a local that stands for the controller being re-targeted (`controller = default; controller.target = target`)
    for tg, val in util.simple_assignments(init_node):
        if isinstance(tg, ast.Name) and tg.id in names and isinstance(val, ast.Name):
            names.add(val.id)
    vals = {ast.unparse(n.value) for n in retarget}
    if "default" not in names or not any(isinstance(n, ast.For) and any(r in ast.walk(n) for r in retarget) for n in ast.walk(init_node)):
        chk.bad(rule, init.qual, "not every slave (and the default) is re-targeted to the switch's own target (re-targeted: %s)" % sorted(names), node=init_node, stmt="retarget")
        ok2 = False
    if vals - {"target"}:
        chk.bad(rule, init.qual, "controllers are re-targeted to %s instead of the switch's target" % sorted(vals), node=init_node, stmt="retarget-value")
        ok2 = False
    body = init_node.body
    val_idx = [i for i, st in enumerate(body) if isinstance(st, ast.Expr) and isinstance(st.value, ast.Call) and util.dotted(st.value.func) in ("enforce", "utility.enforce") and ".target" in util.unparse(st.value.args[0] if st.value.args else st.value)]
    ret_idx = [i for i, st in enumerate(body) if any(r in list(ast.walk(st)) for r in retarget)]
    asserts = [i for i, st in enumerate(body) if isinstance(st, ast.Assert) and ".target" in util.unparse(st.test)]
    val_idx += asserts
    if not val_idx:
        chk.bad(rule, init.qual, "the constructor does not validate that the controllers are unbound or already bound to the switch's target", node=init_node, stmt="no-target-validation")
        ok2 = False
    elif ret_idx and min(ret_idx) < min(val_idx):
        chk.bad(rule, init.qual, "the controllers are re-targeted BEFORE their targets are validated: the validation can never fail, a controller that is bound to another pool (or switch) is silently taken over and the other switch then regulates the wrong pool", node=body[min(ret_idx)], stmt="retarget-before-validation")
        ok2 = False
    if "% 2" not in src:
        chk.undecided(rule, init.qual, "pairing validation not recognised", node=init_node, aux=True)
    if ok2:
        chk.ok(rule, init.qual, "slaves sorted by threshold; default and every slave re-targeted to the switch's target", node=init_node)


def run(chk):
    chk.guard("O8.1", LINEAR, linear, chk)
    chk.guard("O8.2", RELATIVE, relative, chk)
    chk.guard("O8.3", "<constructors>", constructors, chk)
    chk.guard("O8.4", STEPWISE, stepwise, chk)
    chk.guard("O8.6", UNBOUND, stepwise_wiring, chk)
    chk.guard("O8.5", SWITCH, switch, chk)
