"""C18 -- YAML loading never instantiates anything that is not a registered plugin."""
import ast

from .. import libfacts, query, util
from ..index import dotted
from ..report import Undecided

LOADER = "cobald.daemon.core.config:COBalDLoader"
LOAD = "cobald.daemon.core.config:load"
YAML_LOAD = "cobald.daemon.config.yaml:load_configuration"
ADD_PLUGINS = "cobald.daemon.core.config:add_constructor_plugins"

CONTROL = '''
import yaml
from yaml import Loader, UnsafeLoader as U, FullLoader
def a(s): return yaml.load(s, Loader=yaml.Loader)
def b(s): return yaml.unsafe_load(s)
def c(s): return yaml.full_load_all(s)
class L(yaml.FullLoader): pass
def d(loader): loader.add_multi_constructor("!x", f)
TAG = "tag:yaml.org,2002:python/object/apply:"
'''


def unsafe_sites(program, modules):
    out = []
    for m, n, r, attr in query.calls(program, modules):
        if r and r.startswith("ext:yaml.") and r.split(".")[-1] in libfacts.UNSAFE_YAML_CALLS:
            out.append((m, n, "call of %s" % r[4:]))
        if attr == "add_multi_constructor" or (r or "").endswith(".add_multi_constructor"):
            out.append((m, n, "add_multi_constructor registers a constructor for a whole tag prefix"))
    for m, n, r in query.references(program, modules):
        if r.startswith("ext:yaml.") and r.split(".")[-1] in libfacts.UNSAFE_YAML_LOADERS - {"BaseLoader", "CBaseLoader"}:
            out.append((m, n, "reference to the unsafe loader class %s" % r[4:]))
    for m in modules if modules is not None else program.modules.values():
        for n in ast.walk(m.tree):
            if isinstance(n, ast.Constant) and isinstance(n.value, str) and "python/" in n.value and ("tag:" in n.value or n.value.startswith("!!python")):
                out.append((m, n, "tag literal %r" % n.value))
    # de-duplicate by node
    seen, res = set(), []
    for m, n, why in out:
        if (id(n), why) not in seen:
            seen.add((id(n), why))
            res.append((m, n, why))
    return res


def run(chk):
    prog = chk.program
    chk.facts.update({k: v for k, v in libfacts.cross_read().items() if "yaml" in k})
    # ---- O18.1 loader ancestry -------------------------------------------------------------
    try:
        cls = prog.cls(LOADER)
    except Exception:
        chk.missing("O18.1", LOADER)
        cls = None
    if cls is not None:
        chk.count(len(cls.mro))
        ext = [q for q in cls.mro if q.startswith("ext:") and q not in ("ext:builtins.object",)]
        safe = [q for q in ext if q.split(".")[-1] in libfacts.SAFE_YAML_LOADERS and q.startswith("ext:yaml.")]
        bad = [q for q in ext if q.split(".")[-1] in libfacts.UNSAFE_YAML_LOADERS or q.split(".")[-1].endswith("Constructor") and "Safe" not in q]
        if bad:
            chk.bad("O18.1", cls.qual, "the configuration loader derives from %s: python/* tags (object, apply, new, name, module) %s" % (", ".join(b[4:] for b in bad), "are constructed" if "BaseLoader" not in bad[0] else "are not rejected"), node=cls.node, stmt="loader-base %s" % bad[0][4:])
        elif not safe:
            chk.undecided("O18.1", cls.qual, "loader bases %s are not recognised" % ext, node=cls.node)
        else:
            # the class body must not register constructors itself
            extra = [n for n in cls.node.body if not isinstance(n, (ast.Expr, ast.Pass))]
            if extra:
                chk.undecided("O18.1", cls.qual, "the loader class has a non-trivial body", node=extra[0])
            else:
                chk.ok("O18.1", cls.qual, "derives from %s only" % ", ".join(s[4:] for s in safe), node=cls.node)
    # ---- O18.2 the loader actually used -------------------------------------------------------
    load = prog.func(LOAD)
    yl = prog.func(YAML_LOAD)
    call = None
    for n in ast.walk(load.node):
        if isinstance(n, ast.Call) and prog.resolve(load.module, n.func) == YAML_LOAD:
            call = n
    if call is None:
        chk.undecided("O18.2", load.qual, "load does not call the YAML reader", node=load.node)
    else:
        kw = {k.arg: k.value for k in call.keywords}
        params = yl.params()
        for i, a in enumerate(call.args):
            kw[params[i]] = a
        lv = kw.get("loader")
        chk.count()
        if lv is None:
            d = None
            a = yl.node.args
            defaults = dict(zip([x.arg for x in a.args][len(a.args) - len(a.defaults):], a.defaults))
            d = defaults.get("loader")
            chk.bad("O18.2", load.qual, "load does not hand the plugin loader to the YAML reader (its default %s is used: registered tags are unknown)" % (util.unparse(d) if d is not None else "?"), node=call, stmt="loader-not-passed")
        elif prog.resolve(load.module, lv) != LOADER:
            chk.bad("O18.2", load.qual, "the document is read with %s instead of the configuration loader" % util.unparse(lv), node=call, stmt="loader %s" % util.unparse(lv))
        else:
            chk.ok("O18.2", load.qual, "the YAML reader is given COBalDLoader", node=call)
        # plugins are registered on the same loader
        reg = [n for n in ast.walk(load.node) if isinstance(n, ast.Call) and prog.resolve(load.module, n.func) == ADD_PLUGINS]
        for n in reg:
            args = list(n.args) + [k.value for k in n.keywords]
            if not any(prog.resolve(load.module, a) == LOADER for a in args if not isinstance(a, ast.Constant)):
                chk.bad("O18.2", load.qual, "constructor plugins are registered on a different loader than the one that reads the document", node=n, stmt="plugins-other-loader")
    # load_configuration instantiates exactly its loader parameter and reads through it
    inst = [n for n in ast.walk(yl.node) if isinstance(n, ast.Call) and isinstance(n.func, ast.Name) and n.func.id == "loader"]
    reads = [n for n in ast.walk(yl.node) if isinstance(n, ast.Call) and isinstance(n.func, ast.Attribute) and n.func.attr in ("get_single_data", "get_data")]
    chk.count(2)
    if len(inst) != 1 or len(reads) != 1:
        chk.bad("O18.2", yl.qual, "the YAML reader does not instantiate exactly its `loader` parameter and read one document through it (%d instantiations, %d reads)" % (len(inst), len(reads)), node=yl.node, stmt="reader-shape")
    else:
        var = None
        for n in ast.walk(yl.node):
            if isinstance(n, ast.Assign) and n.value is inst[0] and isinstance(n.targets[0], ast.Name):
                var = n.targets[0].id
        if var is None or dotted(reads[0].func.value) != var:
            chk.bad("O18.2", yl.qual, "the document is read through %s, not through the instance of the given loader" % util.unparse(reads[0].func.value), node=reads[0], stmt="reads-through")
        else:
            a = yl.node.args
            defaults = dict(zip([x.arg for x in a.args][len(a.args) - len(a.defaults):], a.defaults))
            d = defaults.get("loader")
            r = prog.resolve(yl.module, d) if d is not None else None
            if r is not None and r.split(".")[-1] not in libfacts.SAFE_YAML_LOADERS:
                chk.bad("O18.2", yl.qual, "the default loader of the YAML reader is %s" % r[4:], node=d, stmt="default-loader %s" % r[4:])
            else:
                chk.ok("O18.2", yl.qual, "instantiates exactly its loader parameter (default %s) and reads through it" % (r[4:] if r else "none"), node=yl.node)
    # ---- O18.3 zero unsafe API sites (+ positive control) ------------------------------------
    ctl = unsafe_sites(prog, [query.adhoc_module(prog, CONTROL)])
    if len(ctl) < 8:
        chk.undecided("O18.3", "<positive control>", "the unsafe-API matcher found only %d of the sites in its control example" % len(ctl))
    else:
        chk.ok("O18.3", "<positive control>", "matcher finds %d unsafe sites in the control snippet" % len(ctl))
    sites = unsafe_sites(prog, None)
    chk.count(sum(1 for _ in query.calls(prog)))
    for m, n, why in sites:
        chk.bad("O18.3", query.where(prog, m, n), "%s: a document could construct arbitrary Python objects" % why, node=n, stmt=why)
    if not sites:
        chk.ok("O18.3", "<package>", "zero calls of yaml.load / load_all / unsafe_load / full_load, no unsafe loader class, no add_multi_constructor, no python/ tag literal")
    # ---- O18.4 add_constructor only for '!' + entry point name ----------------------------------
    addc = [(m, n) for m, n, r, attr in query.calls(prog) if attr == "add_constructor"]
    chk.count(len(addc))
    good = 0
    for m, n in addc:
        w = query.where(prog, m, n)
        kw = {k.arg: k.value for k in n.keywords}
        tag = kw.get("tag", n.args[0] if n.args else None)
        if w != ADD_PLUGINS:
            chk.bad("O18.4", w, "a YAML constructor is registered outside add_constructor_plugins", node=n, stmt="add_constructor elsewhere")
            continue
        ok = isinstance(tag, ast.BinOp) and isinstance(tag.op, ast.Add) and isinstance(tag.left, ast.Constant) and tag.left.value == "!" and util.unparse(tag.right).endswith(".name")
        if not ok:
            if isinstance(tag, ast.Constant) and tag.value is None:
                chk.bad("O18.4", w, "a constructor is registered for tag None: it catches EVERY unregistered tag instead of rejecting it", node=n, stmt="tag None")
            else:
                chk.bad("O18.4", w, "constructors are registered under %s instead of '!' + entry point name" % util.unparse(tag), node=n, stmt="tag %s" % util.unparse(tag))
            continue
        recv = dotted(n.func.value)
        fn = prog.func(ADD_PLUGINS)
        if recv not in [a.arg for a in fn.node.args.args]:
            chk.bad("O18.4", w, "constructors are registered on %s, not on the loader handed in" % recv, node=n, stmt="receiver %s" % recv)
            continue
        good += 1
    fn = prog.func(ADD_PLUGINS)
    rejects = any(
        isinstance(n, ast.If) and "name[0]" in util.unparse(n.test) and "'!'" in util.unparse(n.test) and any(isinstance(b, ast.Raise) for b in n.body)
        or isinstance(n, ast.If) and "startswith('!')" in util.unparse(n.test) and any(isinstance(b, ast.Raise) for b in n.body)
        for n in ast.walk(fn.node)
    )
    if good == 1 and rejects:
        chk.ok("O18.4", ADD_PLUGINS, "add_constructor is called once, for '!' + entry.name on the given loader; names starting with '!' are rejected", node=fn.node)
    elif good == 1:
        chk.undecided("O18.4", ADD_PLUGINS, "rejection of names starting with '!' not recognised", node=fn.node, aux=True)
        chk.ok("O18.4", ADD_PLUGINS, "add_constructor is called once, for '!' + entry.name on the given loader", node=fn.node)
    elif not addc:
        chk.bad("O18.4", ADD_PLUGINS, "no constructor plugin is ever registered", node=fn.node, stmt="none")
    # ---- O18.5 trusted-base cross-read -------------------------------------------------------
    for fact, confirmed in chk.facts.items():
        if confirmed is False:
            chk.bad("O18.5", "<installed PyYAML>", "library fact not confirmed by the installed source: %s" % fact, stmt=fact)
        else:
            chk.ok("O18.5", "<installed PyYAML>", "%s: %s" % (fact, "confirmed by static cross-read" if confirmed else "source absent, frozen fact used"))
