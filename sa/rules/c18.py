"""C18 -- YAML loading never instantiates anything that is not a registered plugin."""
import ast

from .. import libfacts, query, util
from ..index import dotted
from ..report import Undecided

LOADER = "cobald.daemon.core.config:COBalDLoader"
LOAD = "cobald.daemon.core.config:load"
YAML_LOAD = "cobald.daemon.config.yaml:load_configuration"
ADD_PLUGINS = "cobald.daemon.core.config:add_constructor_plugins"

CONTROL = '''
import yaml
from yaml import Loader, UnsafeLoader as U, FullLoader
def a(s): return yaml.load(s, Loader=yaml.Loader)
def b(s): return yaml.unsafe_load(s)
def c(s): return yaml.full_load_all(s)
class L(yaml.FullLoader): pass
def d(loader): loader.add_multi_constructor("!x", f)
TAG = "tag:yaml.org,2002:python/object/apply:"
'''


def unsafe_sites(program, modules):
    out = []
    for m, n, r, attr in query.calls(program, modules):
        if r and r.startswith("ext:yaml.") and r.split(".")[-1] in libfacts.UNSAFE_YAML_CALLS:
            if r.split(".")[-1] in ("load", "load_all"):
                # yaml.load(stream, Loader=X) is exactly X(stream).get_single_data(): safe iff X is; X is judged by O18.2
                lk = [k.value for k in n.keywords if k.arg == "Loader"] or list(n.args[1:2])
                if lk:
                    lr = program.resolve(m, lk[0]) if not isinstance(lk[0], ast.Call) else None
                    if lr and lr.startswith("ext:yaml.") and lr.split(".")[-1] in libfacts.SAFE_YAML_LOADERS:
                        continue
                    if lr == LOADER:
                        continue
                    if isinstance(lk[0], ast.Name) and m.name in program.modules:
                        fi = program.enclosing_function(m, n)
                        if fi is not None and lk[0].id in [a.arg for a in fi.node.args.args + fi.node.args.kwonlyargs]:
                            continue  # the loader is a parameter: traced back to load() by O18.2
            out.append((m, n, "call of %s" % r[4:]))
        if attr == "add_multi_constructor" or (r or "").endswith(".add_multi_constructor"):
            out.append((m, n, "add_multi_constructor registers a constructor for a whole tag prefix"))
    for m, n, r in query.references(program, modules):
        if r.startswith("ext:yaml.") and r.split(".")[-1] in libfacts.UNSAFE_YAML_LOADERS - {"BaseLoader", "CBaseLoader"}:
            out.append((m, n, "reference to the unsafe loader class %s" % r[4:]))
    for m in modules if modules is not None else program.modules.values():
        for n in ast.walk(m.tree):
            if isinstance(n, ast.Constant) and isinstance(n.value, str) and "python/" in n.value and ("tag:" in n.value or n.value.startswith("!!python")):
                out.append((m, n, "tag literal %r" % n.value))
    # de-duplicate by node
    seen, res = set(), []
    for m, n, why in out:
        if (id(n), why) not in seen:
            seen.add((id(n), why))
            res.append((m, n, why))
    return res


def _merge_tags_checked(chk, prog, override):
    """interpret the loader's flatten_mapping on one mapping node with one merge key, for every position a foreign tag
    can sit at (the merge value itself -- a mapping, or a list --, an element of the list): the foreign node must be
    handed to construct_undefined (or a ConstructorError raised) before PyYAML's own flatten_mapping runs; without any
    foreign tag nothing is rejected and PyYAML's flatten_mapping runs"""
    from ..interp import Interp, exc_value, show

    NODE = ("sym", override.params()[0])
    KEY, VAL, ELEM = ("sym", "<merge key node>"), ("sym", "<merge value node>"), ("sym", "<element of the merge list>")
    TABLE_NAMES = ("yaml_constructors",)
    scenarios = [("the merge value is a mapping with the tag", False, VAL), ("the merge value is a list with the tag", True, VAL), ("an element of the merge list has the tag", True, ELEM), ("no foreign tag (mapping)", False, None), ("no foreign tag (list)", True, None)]
    for label, is_seq, foreign in scenarios:

        def attr_hook(it, path, base, attr, node, is_seq=is_seq):
            if base == NODE and attr == "value":
                return ("list", (("tuple", (KEY, VAL)),))
            if base == VAL and attr == "value" and is_seq:
                return ("list", (ELEM,))
            return None

        def decide(it, path, term, is_seq=is_seq, foreign=foreign):
            if term[0] == "cmp" and term[1] in ("==", "!=") and any(x == ("attr", KEY, "tag") for x in term[2:4]):
                return term[1] == "=="
            if term[0] == "call" and term[1] == ("glob", "ext:builtins.isinstance") and len(term[2]) == 2:
                x, c = term[2]
                names = [c] if c[0] != "tuple" else list(c[1])
                kinds = {n[1].split(".")[-1] for n in names if n[0] == "glob"}
                if x == VAL:
                    return ("SequenceNode" in kinds and is_seq) or ("MappingNode" in kinds and not is_seq) or "Node" in kinds
                if x == ELEM:
                    return "MappingNode" in kinds or "Node" in kinds
                return None
            if term[0] == "cmp" and term[1] == "in" and term[2][0] == "attr" and term[2][2] == "tag" and term[3][0] == "attr" and term[3][2] in TABLE_NAMES:
                return term[2][1] != foreign  # registered unless it is the foreign one
            if term[0] in ("truthy",) or term[0] == "attr":
                return None
            return None

        try:
            outs = Interp(prog, override, attr_hook=attr_hook, decide=decide, unroll=2, inline=lambda f, ct: f.cls is not None and override.cls is not None and f.cls.qual in override.cls.mro and f is not override and f.name != "flatten_mapping").run()
        except Undecided as e:
            return False, "the loader's flatten_mapping override is not understood (%s)" % e
        chk.count(len(outs))
        for o in outs:
            evs = o.path.events
            rejected = [e for e in evs if e[0] == "call" and e[1][1][0] == "attr" and e[1][1][2] == "construct_undefined"]
            sup = [i for i, e in enumerate(evs) if e[0] == "call" and e[1][1][0] == "attr" and e[1][1][2] == "flatten_mapping"]
            raised = o.kind == "raise"
            if foreign is not None:
                hit = [i for i, e in enumerate(evs) if e[0] == "call" and e[1][1][0] == "attr" and e[1][1][2] == "construct_undefined" and list(e[1][2])[:1] == [foreign]]
                if not raised and (not hit or (sup and sup[0] < hit[0])):
                    return False, "the loader's flatten_mapping override does not reject it when %s" % label
            else:
                if rejected or raised:
                    return False, "the loader's flatten_mapping override rejects a merge without any foreign tag (%s)" % label
                if not sup:
                    return False, "the loader's flatten_mapping override does not delegate to PyYAML's flatten_mapping"
    return True, ""


def _compose_checks_tags(chk, prog, comp):
    """interpret the loader's compose_node override for a node at every kind of position, with and without a tag that has
    no constructor: such a node must reach construct_undefined (or a raise); a mapping KEY tagged merge / value and any node
    with a registered tag must be returned as PyYAML's compose_node gave it"""
    from ..interp import Interp, show, NONE

    ps = comp.params()
    if len(ps) < 2:
        return False, "compose_node override has an unexpected signature"
    PARENT, INDEX = ("sym", ps[0]), ("sym", ps[1])
    NODE = ("sym", "<composed node>")
    MERGE, VALUE = "tag:yaml.org,2002:merge", "tag:yaml.org,2002:value"
    # (label, parent kind, is key, tag kind, must be rejected)
    scen = []
    for pk, key in (("root", False), ("sequence", False), ("mapping", True), ("mapping", False)):
        pos = "the root" if pk == "root" else ("a sequence item" if pk == "sequence" else ("a mapping key" if key else "a mapping value"))
        scen.append(("a tag without constructor on %s" % pos, pk, key, "foreign", True))
        scen.append(("a registered tag on %s" % pos, pk, key, "known", False))
    scen.append(("the merge key `<<`", "mapping", True, MERGE, False))
    scen.append(("the value key `=`", "mapping", True, VALUE, False))
    for label, pk, key, tag, must in scen:

        def hook(it, path, ct, node):
            if ct[0] == "call" and ct[1][0] == "attr" and ct[1][2] == "compose_node" and ct[1][1][0] in ("super", "call"):
                return [("value", NODE)]
            return None

        def decide(it, path, term, pk=pk, key=key, tag=tag):
            if term == ("isnone", INDEX):
                return pk == "root" or key
            if term == ("isnone", PARENT):
                return pk == "root"
            if term[0] == "call" and term[1] == ("glob", "ext:builtins.isinstance") and len(term[2]) == 2 and term[2][0] == PARENT:
                c = term[2][1]
                kinds = {n[1].split(".")[-1] for n in ([c] if c[0] != "tuple" else list(c[1])) if n[0] == "glob"}
                return ("MappingNode" in kinds and pk == "mapping") or ("SequenceNode" in kinds and pk == "sequence") or ("CollectionNode" in kinds and pk in ("mapping", "sequence")) or ("Node" in kinds and pk != "root")
            if term[0] == "cmp" and term[1] in ("==", "!=", "in", "not in") and term[2] == ("attr", NODE, "tag"):
                r = term[3]
                if r[0] == "const":
                    res = (tag == r[1])
                elif r[0] in ("tuple", "list", "set") and all(x[0] == "const" for x in r[1]):
                    res = tag in [x[1] for x in r[1]]
                elif r[0] == "attr" and r[2] in ("yaml_constructors",):
                    res = tag == "known"
                else:
                    return None
                return res if term[1] in ("==", "in") else (not res)
            return None

        try:
            outs = Interp(prog, comp, call_hook=hook, decide=decide, unroll=1, inline=lambda f, ct: f.cls is not None and comp.cls is not None and f.cls.qual in comp.cls.mro and f is not comp and f.name != "compose_node").run()
        except Undecided as e:
            return False, "the loader's compose_node override is not understood (%s)" % e
        chk.count(len(outs))
        for o in outs:
            rejected = [e for e in o.path.events if e[0] == "call" and e[1][1][0] == "attr" and e[1][1][2] == "construct_undefined" and list(e[1][2])[:1] == [NODE]]
            if must and not (rejected or o.kind == "raise"):
                return False, "the loader's compose_node override lets %s pass" % label
            if not must:
                if rejected or o.kind == "raise":
                    return False, "the loader's compose_node override rejects %s" % label
                if not (o.kind == "return" and o.value == NODE):
                    return False, "the loader's compose_node override returns %s instead of the composed node for %s" % (show(o.value) if o.value else o.kind, label)
    return True, ""


def loader_overrides_keep_valid_documents(chk, rule="O18.10"):
    """O18.10 (shared with C05 / C13): what the loader overrides to look at tags -- flatten_mapping, compose_node -- still does
    PyYAML's part for a document WITHOUT any offending tag: a merge is still flattened (the override delegates to PyYAML's
    flatten_mapping and rejects nothing), a composed node is returned as PyYAML composed it"""
    prog = chk.program
    cls = prog.classes.get(LOADER if LOADER else "cobald.daemon.core.config:COBalDLoader")
    if cls is None:
        cfg = prog.modules.get("cobald.daemon.core.config")
        r = prog.resolve(cfg, "COBalDLoader") if cfg is not None else None
        cls = prog.classes.get(r or "")
    if cls is None:
        raise Undecided("the configuration loader class was not found")
    n = 0
    ok = True
    for mname, judge in (("flatten_mapping", _merge_tags_checked), ("compose_node", _compose_checks_tags)):
        f = None
        for q in cls.mro:
            c = prog.classes.get(q)
            f = prog.pick(c.methods.get(mname, [])) if c is not None else None
            if f is not None:
                break
        if f is None:
            continue
        n += 1
        good, why = judge(chk, prog, f)
        if not good and ("without any foreign tag" in why or "does not delegate" in why or "a registered tag" in why or "the merge key" in why or "the value key" in why or "instead of the composed node" in why):
            chk.bad(rule, f.qual, "%s: valid documents (a mapping with a merge key, any node with a registered tag) no longer load as PyYAML loads them" % why, node=f.node, stmt="loader-override-breaks-valid %s" % mname)
            ok = False
    if ok:
        chk.ok(rule, cls.qual, "%d loader overrides: without an offending tag each does exactly PyYAML's part (delegates / returns the composed node, rejects nothing)" % n)


def _compose_gate(chk, prog, cls):
    """(holds, why, override): does the loader reject, when a node is COMPOSED, every tag without an exact constructor?"""
    comp = None
    for q in cls.mro:
        c = prog.classes.get(q)
        f = prog.pick(c.methods.get("compose_node", [])) if c is not None else None
        if f is not None:
            comp = f
            break
    if comp is None:
        return False, "the loader neither checks every node when it is composed (no compose_node override) nor guards these consumers", None
    facts = libfacts.yaml_tag_skipping_consumers()
    if [v for k, v in facts.items() if k.startswith("Composer")] == [False]:
        return False, "the installed Composer does not compose every node through compose_node", comp
    good, why = _compose_checks_tags(chk, prog, comp)
    return good, why, comp


def constructor_table_writers(chk):
    """O18.8: the loader's constructor table (with the rejecting catch-all entry for unknown tags) only ever GROWS, through
    add_constructor / add_multi_constructor.  Anything that empties, replaces or removes from it -- a 'reset' after a
    rejected document -- removes the catch-all: every later document with an offending tag is accepted"""
    prog = chk.program
    rule = "O18.8"
    n = 0
    ok = True
    TABLES = ("yaml_constructors", "yaml_multi_constructors")
    for mod in prog.modules.values():
        par = util.parents_map(mod.tree)
        for x in ast.walk(mod.tree):
            if not (isinstance(x, ast.Attribute) and x.attr in TABLES):
                continue
            n += 1
            chk.count()
            up = par.get(id(x))
            what = None
            if isinstance(x.ctx, (ast.Store, ast.Del)):
                what = "re-binds / deletes the table"
            elif isinstance(up, ast.Attribute) and up.value is x and up.attr in ("clear", "pop", "popitem", "update", "setdefault", "__delitem__", "__setitem__"):
                what = "calls .%s() on it" % up.attr
            elif isinstance(up, ast.Subscript) and up.value is x and isinstance(up.ctx, (ast.Store, ast.Del)):
                what = "stores to / deletes an entry of it"
            if what:
                fi = prog.enclosing_function(mod, x)
                chk.bad(rule, fi.qual if fi else mod.name, "%s %s: the table holds the catch-all entry that rejects python/* and unregistered tags (and the standard YAML types); after that every later document in this process is loaded without it" % (util.unparse(x), what), node=x, stmt="constructor-table %s" % what)
                ok = False
    if ok:
        chk.ok(rule, "<package>", "%d reads of the loader's constructor tables, no write besides add_constructor / add_multi_constructor" % n)


def run(chk):
    chk.guard("O18.8", "<package>", constructor_table_writers, chk)
    # the document is read while its stream is open (shared with C13)
    from . import c13

    chk.guard("O13.7", c13.YAML_LOAD, c13.read_while_open, chk)
    prog = chk.program
    chk.facts.update({k: v for k, v in libfacts.cross_read().items() if "yaml" in k})
    # ---- O18.1 loader ancestry -------------------------------------------------------------
    global LOADER
    LOADER = "cobald.daemon.core.config:COBalDLoader"
    cfg_mod = prog.modules.get("cobald.daemon.core.config")
    if cfg_mod is not None and LOADER not in prog.classes:
        # the class may be defined in another module of the package and imported into core.config
        r = prog.resolve(cfg_mod, "COBalDLoader")
        if r in prog.classes:
            LOADER = r
    try:
        cls = prog.cls(LOADER)
    except Exception:
        chk.missing("O18.1", LOADER)
        cls = None
    gate = (False, "", None)
    if cls is not None:
        try:
            gate = _compose_gate(chk, prog, cls)
        except Undecided:
            gate = (False, "the compose_node override is not understood", None)
    IMPLIED = "not needed for the property on this tree: every node's tag is checked against the exact constructor table when it is composed (O18.9), so a tag without a constructor never reaches construction -- "

    def unless_gated(rule, where, msg, **kw):
        """a violation of a construction-time rule, unless the composition-time check makes it unreachable"""
        if gate[0]:
            chk.ok(rule, where, IMPLIED + msg[:160], node=kw.get("node"))
        else:
            chk.bad(rule, where, msg, **kw)

    if cls is not None:
        chk.count(len(cls.mro))
        ext = [q for q in cls.mro if q.startswith("ext:") and q not in ("ext:builtins.object",)]
        safe = [q for q in ext if q.split(".")[-1] in libfacts.SAFE_YAML_LOADERS and q.startswith("ext:yaml.")]
        bad = [q for q in ext if q.split(".")[-1] in libfacts.UNSAFE_YAML_LOADERS or q.split(".")[-1].endswith("Constructor") and "Safe" not in q]
        if bad:
            chk.bad("O18.1", cls.qual, "the configuration loader derives from %s: python/* tags (object, apply, new, name, module) %s" % (", ".join(b[4:] for b in bad), "are constructed" if "BaseLoader" not in bad[0] else "are not rejected"), node=cls.node, stmt="loader-base %s" % bad[0][4:])
        elif not safe:
            chk.undecided("O18.1", cls.qual, "loader bases %s are not recognised" % ext, node=cls.node)
        else:
            # the class body must not register constructors itself
            # (an override of flatten_mapping is judged by O18.7, one of compose_node by O18.9; they may read, but not write,
            # the constructor table)
            def harmless(n):
                if not (isinstance(n, ast.FunctionDef) and n.name in ("flatten_mapping", "compose_node")):
                    return False
                writes = any(isinstance(x, ast.Call) and isinstance(x.func, ast.Attribute) and x.func.attr in ("add_constructor", "add_multi_constructor", "add_implicit_resolver", "add_path_resolver") for x in ast.walk(n)) or any(isinstance(x, (ast.Attribute, ast.Subscript)) and isinstance(x.ctx, (ast.Store, ast.Del)) for x in ast.walk(n))
                return not writes

            extra = [n for n in cls.node.body if not isinstance(n, (ast.Expr, ast.Pass)) and not harmless(n)]
            tables = [n for n in extra if isinstance(n, (ast.Assign, ast.AnnAssign)) and any(isinstance(t, ast.Name) and t.id in ("yaml_constructors", "yaml_multi_constructors", "yaml_implicit_resolvers", "yaml_path_resolvers") for t in (n.targets if isinstance(n, ast.Assign) else [n.target]))]
            if tables:
                unless_gated("O18.1", cls.qual, "the loader class replaces the constructor table it inherits from SafeLoader (%s): the inherited catch-all entry None -> construct_undefined, which rejects every unregistered and every python/* tag, is gone unless it is copied, so such tags are accepted as plain data" % util.unparse(tables[0]).split("=")[0].strip(), node=tables[0], stmt="loader-own-table")
            elif extra:
                chk.undecided("O18.1", cls.qual, "the loader class has a non-trivial body", node=extra[0])
            else:
                chk.ok("O18.1", cls.qual, "derives from %s only" % ", ".join(s[4:] for s in safe), node=cls.node)
    # ---- O18.2 the loader actually used -------------------------------------------------------
    load = prog.func(LOAD)
    yl = prog.func(YAML_LOAD)
    # load and the private module-level helpers of its module it delegates to
    scope, todo = [], [load]
    while todo:
        f = todo.pop()
        if f in scope:
            continue
        scope.append(f)
        for n in ast.walk(f.node):
            if isinstance(n, ast.Call) and isinstance(n.func, ast.Name):
                g = prog.functions.get(prog.resolve(f.module, n.func) or "")
                if g is not None and g.cls is None and g.module is load.module and g.qual not in (ADD_PLUGINS,) and g.name.startswith("_"):
                    todo.append(g)
    scope_nodes = [n for f in scope for n in ast.walk(f.node)]
    call = None
    for n in scope_nodes:
        if isinstance(n, ast.Call) and prog.resolve(load.module, n.func) == YAML_LOAD:
            call = n
    if call is None:
        chk.undecided("O18.2", load.qual, "load does not call the YAML reader", node=load.node)
    else:
        kw = {k.arg: k.value for k in call.keywords}
        params = yl.params()
        for i, a in enumerate(call.args):
            kw[params[i]] = a
        lv = kw.get("loader")
        chk.count()
        if lv is None:
            d = None
            a = yl.node.args
            defaults = dict(zip([x.arg for x in a.args][len(a.args) - len(a.defaults):], a.defaults))
            d = defaults.get("loader")
            chk.bad("O18.2", load.qual, "load does not hand the plugin loader to the YAML reader (its default %s is used: registered tags are unknown)" % (util.unparse(d) if d is not None else "?"), node=call, stmt="loader-not-passed")
        elif prog.resolve(load.module, lv) != LOADER:
            chk.bad("O18.2", load.qual, "the document is read with %s instead of the configuration loader" % util.unparse(lv), node=call, stmt="loader %s" % util.unparse(lv))
        else:
            chk.ok("O18.2", load.qual, "the YAML reader is given COBalDLoader", node=call)
        # plugins are registered on the same loader
        reg = [n for n in scope_nodes if isinstance(n, ast.Call) and prog.resolve(load.module, n.func) == ADD_PLUGINS]
        for n in reg:
            args = list(n.args) + [k.value for k in n.keywords]
            if not any(prog.resolve(load.module, a) == LOADER for a in args if not isinstance(a, ast.Constant)):
                chk.bad("O18.2", load.qual, "constructor plugins are registered on a different loader than the one that reads the document", node=n, stmt="plugins-other-loader")
    # the document is read through exactly the loader handed to load_configuration (possibly via module helpers)
    chk.count(2)
    reads = []  # (function, node, loader expression)
    for f in prog.functions.values():
        if f.module is not yl.module:
            continue
        for n in ast.walk(f.node):
            if isinstance(n, ast.Call) and isinstance(n.func, ast.Attribute) and n.func.attr in ("get_single_data", "get_data") and isinstance(n.func.value, ast.Name):
                var = n.func.value.id
                src = None
                for a in ast.walk(f.node):
                    if isinstance(a, ast.Assign) and isinstance(a.value, ast.Call) and any(isinstance(t, ast.Name) and t.id == var for t in a.targets):
                        src = a.value.func
                reads.append((f, n, src))
            elif isinstance(n, ast.Call) and (prog.resolve(f.module, n.func) or "") in ("ext:yaml.load", "ext:yaml.load_all"):
                lk = [k.value for k in n.keywords if k.arg == "Loader"] or list(n.args[1:2])
                reads.append((f, n, lk[0] if lk else None))

    def traces_to_param(f, expr, depth=0):
        """does expr (a Name) in f denote load_configuration's `loader` parameter?"""
        if not isinstance(expr, ast.Name) or depth > 3:
            return False
        params = [a.arg for a in f.node.args.args + f.node.args.kwonlyargs]
        if expr.id not in params:
            return False
        if f is yl:
            return expr.id == "loader"
        idx = params.index(expr.id)
        sites = []
        for g in prog.functions.values():
            if g.module is not f.module:
                continue
            for c in ast.walk(g.node):
                if isinstance(c, ast.Call) and isinstance(c.func, ast.Name) and c.func.id == f.name:
                    arg = None
                    for k in c.keywords:
                        if k.arg == expr.id:
                            arg = k.value
                    if arg is None and idx < len(c.args):
                        arg = c.args[idx]
                    sites.append((g, arg))
        return bool(sites) and all(arg is not None and traces_to_param(g, arg, depth + 1) for g, arg in sites)

    for f_, n_, _l in reads:
        if isinstance(n_.func, ast.Attribute) and n_.func.attr == "get_data":
            chk.bad("O18.2", f_.qual, "the stream is read with get_data(): only its LEADING document is parsed, so a python/* or unregistered tag in a later document (after `---`) is never seen and the file is accepted (get_single_data() parses the whole stream and rejects a second document)", node=n_, stmt="reads-first-document-only")
    if len(reads) != 1:
        chk.bad("O18.2", yl.qual, "the YAML reader module reads documents at %d sites (required: exactly one read, through the given loader)" % len(reads), node=yl.node, stmt="reader-shape")
    else:
        f, n, lexpr = reads[0]
        if lexpr is None or not traces_to_param(f, lexpr):
            chk.bad("O18.2", f.qual, "the document is read with %s, which is not the loader handed to load_configuration" % (util.unparse(lexpr) if lexpr is not None else "no explicit loader"), node=n, stmt="reads-through")
        else:
            a = yl.node.args
            defaults = dict(zip([x.arg for x in a.args][len(a.args) - len(a.defaults):], a.defaults))
            d = defaults.get("loader")
            r = prog.resolve(yl.module, d) if d is not None else None
            if r is not None and r.split(".")[-1] not in libfacts.SAFE_YAML_LOADERS:
                chk.bad("O18.2", yl.qual, "the default loader of the YAML reader is %s" % r[4:], node=d, stmt="default-loader %s" % r[4:])
            else:
                chk.ok("O18.2", yl.qual, "reads exactly one document through its loader parameter (default %s)" % (r[4:] if r else "none"), node=n)
    # ---- O18.3 zero unsafe API sites (+ positive control) ------------------------------------
    ctl = unsafe_sites(prog, [query.adhoc_module(prog, CONTROL)])
    if len(ctl) < 8:
        chk.undecided("O18.3", "<positive control>", "the unsafe-API matcher found only %d of the sites in its control example" % len(ctl))
    else:
        chk.ok("O18.3", "<positive control>", "matcher finds %d unsafe sites in the control snippet" % len(ctl))
    sites = unsafe_sites(prog, None)
    chk.count(sum(1 for _ in query.calls(prog)))
    for m, n, why in sites:
        par_ = util.parents_map(m.tree)
        up_ = par_.get(id(n))
        in_multi = why.startswith("add_multi_constructor") or (isinstance(up_, (ast.Call, ast.keyword)) and "add_multi_constructor" in util.unparse(up_ if isinstance(up_, ast.Call) else par_.get(id(up_))))
        # a constructor for a whole tag PREFIX is only consulted for a tag that has no exact constructor
        (unless_gated if in_multi else chk.bad)("O18.3", query.where(prog, m, n), "%s: a document could construct arbitrary Python objects" % why, node=n, stmt=why)
    if not sites:
        chk.ok("O18.3", "<package>", "zero calls of yaml.load / load_all / unsafe_load / full_load, no unsafe loader class, no add_multi_constructor, no python/ tag literal")
    # ---- O18.4 add_constructor only for '!' + entry point name ----------------------------------
    from ..interp import Interp, show
    from .c19 import template

    addc = [(m, n) for m, n, r, attr in query.calls(prog) if attr == "add_constructor"]
    chk.count(len(addc))
    fn = prog.func(ADD_PLUGINS)
    for m, n in addc:
        w = query.where(prog, m, n)
        if w != ADD_PLUGINS:
            chk.bad("O18.4", w, "a YAML constructor is registered outside add_constructor_plugins", node=n, stmt="add_constructor elsewhere")
    good = 0
    for o in Interp(prog, fn, unroll=1).run():
        iters = [e for e in o.path.events if e[0] == "loop-iter"]
        if len(iters) != 1 or o.kind == "raise":
            continue
        regs = [e[1] for e in o.path.events if e[0] == "call" and e[1][1][0] == "attr" and e[1][1][2] == "add_constructor"]
        for ct in regs:
            kw = dict((k, v) for k, v in ct[3] if k)
            tag = kw.get("tag", ct[2][0] if ct[2] else None)
            recv = ct[1][1]
            if tag == ("const", None):
                unless_gated("O18.4", ADD_PLUGINS, "a constructor is registered for tag None: it catches EVERY unregistered tag instead of rejecting it", node=fn.node, stmt="tag None")
                if gate[0]:
                    good += 1
                continue
            tpl = template(tag) if tag is not None else None
            if not (tpl and len(tpl) == 2 and tpl[0] == "!" and isinstance(tpl[1], tuple) and tpl[1][0] == "attr" and tpl[1][2] == "name" and tpl[1][1][0] == "item"):
                if tag is None:
                    chk.bad("O18.4", ADD_PLUGINS, "constructors are registered under nothing instead of '!' + entry point name", node=fn.node, stmt="tag ")
                else:
                    # whatever the tag is called, what it constructs is the plugin's own factory
                    unless_gated("O18.4", ADD_PLUGINS, "constructors are registered under %s instead of '!' + entry point name" % show(tag), node=fn.node, stmt="tag %s" % show(tag))
                    if gate[0]:
                        good += 1
                continue
            if recv != ("sym", "loader") and recv[0] != "sym":
                chk.bad("O18.4", ADD_PLUGINS, "constructors are registered on %s, not on the loader handed in" % show(recv), node=fn.node, stmt="receiver")
                continue
            if recv[1] not in [a.arg for a in fn.node.args.args]:
                chk.bad("O18.4", ADD_PLUGINS, "constructors are registered on %s, not on the loader handed in" % show(recv), node=fn.node, stmt="receiver")
                continue
            good += 1
    rejects = any(
        isinstance(n, ast.If) and any(isinstance(b, ast.Raise) for b in n.body) and "'!'" in util.unparse(n.test) and ("[0]" in util.unparse(n.test) or "startswith" in util.unparse(n.test))
        for n in ast.walk(fn.node)
    )
    if good >= 1 and not any(ob.rule == "O18.4" and ob.status == "violation" for ob in chk.obs):
        if not rejects:
            chk.undecided("O18.4", ADD_PLUGINS, "rejection of names starting with '!' not recognised", node=fn.node, aux=True)
        chk.ok("O18.4", ADD_PLUGINS, "add_constructor is called for '!' + entry.name on the given loader%s" % ("; names starting with '!' are rejected" if rejects else ""), node=fn.node)
    elif not addc:
        chk.bad("O18.4", ADD_PLUGINS, "no constructor plugin is ever registered", node=fn.node, stmt="none")
    # ---- O18.6 the rejection is not caught on its way out ---------------------------------------
    # an unregistered or python/* tag is rejected by a ConstructorError raised INSIDE loader.construct_*(node) (for a
    # nested node: inside the construct_mapping / construct_sequence call of the enclosing registered tag); a handler
    # around such a call that does not re-raise turns "rejected" into "silently replaced"
    SWALLOW = {"ext:yaml.constructor.ConstructorError", "ext:yaml.ConstructorError", "ext:yaml.error.MarkedYAMLError", "ext:yaml.MarkedYAMLError", "ext:yaml.error.YAMLError", "ext:yaml.YAMLError", "ext:builtins.Exception", "ext:builtins.BaseException"}
    CONSTRUCT = ("construct_mapping", "construct_sequence", "construct_object", "construct_scalar", "construct_pairs", "construct_document", "get_single_data", "get_data", "construct_yaml_map", "construct_yaml_seq")
    n_sites = 0
    bad6 = 0
    for m in prog.modules.values():
        par = None
        for n in ast.walk(m.tree):
            if not (isinstance(n, ast.Call) and isinstance(n.func, ast.Attribute) and n.func.attr in CONSTRUCT):
                continue
            n_sites += 1
            par = par or util.parents_map(m.tree)
            node, up = n, par.get(id(n))
            while up is not None:
                if isinstance(up, (ast.FunctionDef, ast.AsyncFunctionDef, ast.Lambda)):
                    break
                if isinstance(up, ast.Try) and any(node is b or any(node is x for x in ast.walk(b)) for b in up.body):
                    for h in up.handlers:
                        names = [prog.resolve(m, t) for t in (h.type.elts if isinstance(h.type, ast.Tuple) else [h.type])] if h.type is not None else ["ext:builtins.BaseException"]
                        if any(q in SWALLOW for q in names) and not any(isinstance(x, ast.Raise) for x in util.walk_no_nested(h)):
                            inner = n.func.attr not in ("get_single_data", "get_data", "construct_document")
                            if not (gate[0] and inner):
                                bad6 += 1
                            (unless_gated if inner else chk.bad)(
                                "O18.6",
                                query.where(prog, m, n),
                                "%s(...) sits in a try whose `except %s` handler does not re-raise: the ConstructorError that rejects a python/* tag or an unregistered !tag below this node is swallowed and the element is built from other data instead of the configuration being rejected" % (n.func.attr, util.unparse(h.type) if h.type is not None else ""),
                                node=h,
                                stmt="construct-error-swallowed %s" % n.func.attr,
                            )
                node, up = up, par.get(id(up))
    chk.floor("O18.6 construct sites", n_sites, 2)
    if not bad6:
        chk.ok("O18.6", "<package>", "no handler around the %d loader.construct_* / get_single_data call sites swallows a ConstructorError" % n_sites)
    # ---- O18.7 tags on merge values ------------------------------------------------------------
    # PyYAML's flatten_mapping splices the CONTENT of `<<: value` into the enclosing mapping; the value node itself is
    # never constructed, so its tag is never dispatched -- `a: {<<: !!python/object/apply:os.system {x: 1}}` or
    # `<<: !Unregistered {...}` loads without error.  Nothing is instantiated, but "rejected with an error, anywhere in
    # the document" needs the loader to look at those tags itself.
    skips = libfacts.yaml_merge_skips_tags()
    chk.count()
    if skips is False:
        chk.ok("O18.7", "<installed PyYAML>", "flatten_mapping constructs (or checks) the merged nodes itself")
    elif cls is not None:
        override = None
        for q in cls.mro:
            c = prog.classes.get(q)
            f = prog.lookup_method(c, "flatten_mapping") if c is not None else None
            if f is not None and f.cls is not None and f.cls.qual in cls.mro:
                override = f
                break
        good = False
        why = "the loader does not override flatten_mapping"
        if override is not None:
            good, why = _merge_tags_checked(chk, prog, override)
        if good:
            chk.ok("O18.7", override.qual, "the loader checks the tag of every merge value against its constructor table before PyYAML splices the content in", node=override.node)
        else:
            unless_gated(
                "O18.7",
                cls.qual,
                "a python/* tag or an unregistered !tag on the value of a merge key (`<<: !!python/object/apply:os.system {...}`, `<<: !Nope [{...}]`, also on an element of a list of merge values) is silently ignored instead of rejected: the installed SafeConstructor.flatten_mapping splices value_node.value without ever dispatching value_node.tag, and %s" % why,
                node=(override.node if override is not None else cls.node),
                stmt="merge-value-tag-ignored",
                input="a: {<<: !Unregistered {x: 1}}",
            )
    # ---- O18.9 the other places where PyYAML never looks at a node's tag -----------------------
    # the value of a `=` key below a scalar-typed mapping (`!!str {=: !!python/name:os.system x}`) and the one-pair mappings
    # of !!omap / !!pairs are used without being constructed.  The one place that sees EVERY node is Composer.compose_node:
    # the loader must reject a tag without constructor there (merge / value tags of mapping KEYS excepted), or guard each
    # consumer on its own.
    consumers = libfacts.yaml_tag_skipping_consumers()
    chk.facts.update({"PyYAML " + k: v for k, v in consumers.items()})
    skipping = [k for k, v in consumers.items() if v is not False and not k.startswith("Composer")]
    if cls is not None and skipping:
        chk.count(len(skipping))
        good, why, comp = gate
        if good:
            chk.ok("O18.9", comp.qual, "every composed node whose tag has no constructor is rejected at composition (merge / value tags of mapping keys excepted): covers %s" % "; ".join(skipping), node=comp.node)
        else:
            chk.bad(
                "O18.9",
                cls.qual,
                "a python/* tag or an unregistered !tag is silently ignored instead of rejected at positions the installed PyYAML uses without constructing them -- %s -- e.g. `a: !!str {=: !!python/name:os.system x}` or `a: !!omap [ !!python/object/apply:os.system {k: 1} ]` load without error: %s" % ("; ".join(skipping), why),
                node=(comp.node if comp is not None else cls.node),
                stmt="unconstructed-node-tag-ignored",
                input="a: !!str {=: !!python/name:os.system x}",
            )
    # (O18.10, "valid documents still load through the loader's overrides", belongs to C05 / C13 and is run there)
    # ---- O18.5 trusted-base cross-read -------------------------------------------------------
    for fact, confirmed in chk.facts.items():
        if confirmed is False:
            chk.bad("O18.5", "<installed PyYAML>", "library fact not confirmed by the installed source: %s" % fact, stmt=fact)
        else:
            chk.ok("O18.5", "<installed PyYAML>", "%s: %s" % (fact, "confirmed by static cross-read" if confirmed else "source absent, frozen fact used"))
