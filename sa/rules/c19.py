"""C19 -- nested __type__ mappings translate bottom-up with exact error locations."""
import ast

from .. import util
from ..interp import Interp, Path, exc_value, is_exc, show, strip_sites, subterms, NONE, iteration_layers
from ..report import Undecided

SELF = ("sym", "self")
TRANSLATOR = "cobald.daemon.config.mapping:Translator"
CONFIG_ERROR = "cobald.daemon.config.mapping:ConfigurationError"
ISINSTANCE = ("glob", "ext:builtins.isinstance")
WHERE = ("sym", "where")
STRUCT = ("sym", "structure")


def template(t):
    """'%s.%s' % (a, b) / f'{a}.{b}' / a + '.' + str(b)  ->  [a, '.', b];  a part that is itself formatted text
    ('%s%s' % ('%s.' % a, b)) is spliced in, adjacent literals are joined"""
    out = _template(t)
    if out is None:
        return None
    flat = []
    for x in out:
        sub = _template(x) if isinstance(x, tuple) and x[0] in ("binop", "fstr") else None
        sub = template(x) if sub is not None else None
        for y in sub if sub is not None else [x]:
            if isinstance(y, str) and flat and isinstance(flat[-1], str):
                flat[-1] += y
            else:
                flat.append(y)
    return flat


def _template(t):
    if t[0] == "binop" and t[1] == "%" and t[2][0] == "const" and isinstance(t[2][1], str):
        args = list(t[3][1]) if t[3][0] == "tuple" else [t[3]]
        parts = t[2][1].split("%s")
        if len(parts) != len(args) + 1 or "%" in "".join(parts):
            return None
        out = []
        for i, p in enumerate(parts):
            if p:
                out.append(p)
            if i < len(args):
                out.append(args[i])
        return out
    if t[0] == "fstr":
        return list(t[1])
    if t[0] == "binop" and t[1] == "+":
        a, b = _template(t[2]), _template(t[3])
        if a is not None and b is not None:
            return a + b
    if t[0] == "const" and isinstance(t[1], str):
        return [t[1]]
    if t[0] == "call" and t[1] == ("glob", "ext:builtins.str") and len(t[2]) == 1:
        return [t[2][0]]
    if t[0] in ("sym", "bound", "attr", "item", "proj"):
        return [t]
    if t[0] == "call" and t[1][0] == "attr" and t[1][2] == "format" and t[1][1][0] == "const":
        fmt = t[1][1][1]
        parts = fmt.split("{}")
        args = list(t[2])
        if len(parts) == len(args) + 1:
            out = []
            for i, p in enumerate(parts):
                if p:
                    out.append(p)
                if i < len(args):
                    out.append(args[i])
            return out
    return None


def is_rec(t):
    return t[0] == "call" and t[1] == ("attr", SELF, "translate_hierarchy")


def kinds_decide(kind):
    def decide(it, path, term):
        if term[0] == "call" and term[1] == ISINSTANCE and len(term[2]) == 2 and term[2][0] == STRUCT:
            c = term[2][1]
            names = [c] if c[0] != "tuple" else list(c[1])
            return any(n == ("glob", "ext:builtins." + kind) for n in names)
        return None

    return decide


def _same_branch(fnode, a, b):
    """a and b lie in the same innermost if/elif/else body (so a precedes b on every path reaching b)"""
    par = util.parents_map(fnode)

    def branch(n):
        cur = n
        while cur is not None:
            up = par.get(id(cur))
            if isinstance(up, ast.If):
                return (id(up), "body" if cur in up.body else "orelse")
            cur = up
        return None

    return branch(a) == branch(b)


def _LOC_HELPERS(fi):
    """own synchronous helpers of the translator other than its three steps (a location formatter, ...) are read in place"""
    return lambda f, ct: f.cls is not None and fi.cls is not None and f.cls.qual in fi.cls.mro and not f.is_async and f.name not in ("translate_hierarchy", "construct", "load_name")


def structure_rules(chk):
    prog = chk.program
    fi = prog.method(TRANSLATOR, "translate_hierarchy")
    name = fi.qual
    # ---------------- mapping branch: O19.1, O19.3
    ok1 = ok3 = True
    for has_type in (True, False):

        def decide(it, path, term, has_type=has_type):
            r = kinds_decide("dict")(it, path, term)
            if r is not None:
                return r
            if term[0] == "cmp" and term[1] == "in" and term[2] == ("const", "__type__"):
                return has_type
            return None

        def type_sub(it, path, base, idx, node, has_type=has_type):
            # `structure["__type__"]` used as the membership test (try / except KeyError)
            if idx == ("const", "__type__"):
                return [("value", ("sym", "<value of __type__>"))] if has_type else [("raise", exc_value("ext:builtins.KeyError", "no __type__"))]
            return None

        outs = Interp(prog, fi, decide=decide, sub_hook=type_sub, inline=_LOC_HELPERS(fi)).run()
        chk.count(len(outs))
        for o in outs:
            if o.kind != "return":
                chk.bad("O19.1", name, "translating a mapping ends by %s" % o.kind, node=fi.node, stmt="mapping-exit")
                ok1 = False
                continue
            cons = [e[1] for e in o.path.events if e[0] == "call" and e[1][1] == ("attr", SELF, "construct")]
            # bottom-up: nothing that can fail for the PARENT (resolving its name, calling its factory) happens before its
            # children have been translated -- else a fault deeper in the tree is reported at the parent's location,
            # children below an unresolvable parent are never built, and a name a child registers is not found
            evs_ = o.path.events
            first_child = next((i for i, e in enumerate(evs_) if e[0] == "call" and e[1][1] == ("attr", SELF, "translate_hierarchy")), None)
            early = [e[1] for i, e in enumerate(evs_) if e[0] == "call" and (first_child is None or i < first_child) and e[1][1][0] == "attr" and e[1][1][1] == SELF and e[1][1][2] in ("load_name", "construct")]
            if early and first_child is not None and ok1:
                chk.bad("O19.1", name, "%s is called for the mapping BEFORE its children are translated: a failure of the parent's factory name is reported ahead of (and instead of) faults deeper in the tree, whose location is the one the property asks for" % show(strip_sites(early[0])), node=fi.node, stmt="parent-before-children")
                ok1 = False
                continue
            if has_type:
                if len(cons) != 1 or o.value != cons[0]:
                    chk.bad("O19.1", name, "a mapping with __type__ is constructed %d times%s (required: exactly once, and the result returned)" % (len(cons), "" if len(cons) != 1 else " but %s is returned" % show(strip_sites(o.value))), node=fi.node, stmt="construct-count")
                    ok1 = False
                    continue
                arg = cons[0][2][0] if cons[0][2] else None
                kw = [v for k, v in cons[0][3] if k is None]
                if kw != [("sym", "construct_kwargs")]:
                    chk.bad("O19.1", name, "construct does not receive the extra keyword arguments (%s)" % [show(v) for v in kw], node=fi.node, stmt="construct-kwargs")
                    ok1 = False
                mapping = arg
            else:
                if cons:
                    chk.bad("O19.1", name, "a mapping without __type__ is handed to construct", node=fi.node, stmt="construct-plain")
                    ok1 = False
                    continue
                mapping = o.value
            # the mapping must be the comprehension of translated children
            if mapping is None or mapping[0] != "comp" or mapping[1] != "dict":
                chk.bad("O19.1", name, "%s is %s, not the mapping of translated children: children are not translated before their parent" % ("the mapping handed to construct" if has_type else "the translated plain mapping", show(strip_sites(mapping)) if mapping else "missing"), node=fi.node, stmt="children-not-translated")
                ok1 = False
                continue
            elt = mapping[2]
            gens = mapping[3]
            if len(gens) != 1 or gens[0][2] or elt[0] != "tuple":
                chk.bad("O19.1", name, "children are translated selectively (%s): some children stay untranslated" % [show(c) for g in gens for c in g[2]], node=fi.node, stmt="children-filtered")
                ok1 = False
                continue
            tgt, it_src, _c = gens[0]
            if not (it_src[0] == "call" and it_src[1] == ("attr", STRUCT, "items")):
                chk.bad("O19.1", name, "the child mapping ranges over %s instead of the mapping's items" % show(it_src), node=fi.node, stmt="children-domain")
                ok1 = False
                continue
            kvar, vvar = (tgt[1][0], tgt[1][1]) if tgt[0] == "tuple" else (None, None)
            k, v = elt[1]
            if k != kvar:
                chk.bad("O19.1", name, "child keys are changed to %s" % show(k), node=fi.node, stmt="child-key")
                ok1 = False
            if not is_rec(v) or list(v[2]) != [vvar]:
                chk.bad(
                    "O19.1",
                    name,
                    "a child value is %s instead of its translation: typed mappings below it (e.g. inside a list under a key) are never constructed" % show(strip_sites(v)),
                    node=fi.node,
                    stmt="child-untranslated",
                )
                ok1 = False
                continue
            extra_kw = [a if a is not None else "**" + show(b) for a, b in v[3] if a != "where"]
            if extra_kw:
                chk.bad("O19.1", name, "the translation of a mapping child is given %s: constructor arguments meant for this element (e.g. the pipeline's target=) leak into nested __type__ elements" % extra_kw, node=fi.node, stmt="child-extra-kwargs")
                ok1 = False
            w = dict((a, b) for a, b in v[3] if a is not None).get("where")
            tpl = template(w) if w is not None else None
            chk.count()
            if tpl != [WHERE, ".", kvar]:
                chk.bad("O19.3", name, "the location of a mapping child is %s, not <current location> + '.' + key" % (show(w) if w else "not passed"), node=fi.node, stmt="where-mapping")
                ok3 = False
    # ---------------- the input is not consumed: translation builds new containers
    PARAM = fi.params()[0]
    for n in ast.walk(fi.node):
        hit = None
        if isinstance(n, (ast.Assign, ast.AugAssign)):
            for t in n.targets if isinstance(n, ast.Assign) else [n.target]:
                if isinstance(t, ast.Subscript) and isinstance(t.value, ast.Name) and t.value.id == PARAM:
                    hit = "%s[...] = ..." % PARAM
        if isinstance(n, ast.Call) and isinstance(n.func, ast.Attribute) and isinstance(n.func.value, ast.Name) and n.func.value.id == PARAM and n.func.attr in ("append", "extend", "insert", "pop", "clear", "sort", "reverse", "update", "setdefault", "remove", "popitem", "__setitem__", "__delitem__"):
            hit = "%s.%s(...)" % (PARAM, n.func.attr)
        if isinstance(n, ast.Delete) and any(isinstance(t, ast.Subscript) and isinstance(t.value, ast.Name) and t.value.id == PARAM for t in n.targets):
            hit = "del %s[...]" % PARAM
        if hit:
            # only a violation while the name still denotes the INPUT (the mapping branch re-binds it to a fresh dict first)
            rebound_before = any(
                isinstance(a, ast.Assign) and any(isinstance(t, ast.Name) and t.id == PARAM for t in a.targets) and a.lineno < n.lineno and _same_branch(fi.node, a, n)
                for a in ast.walk(fi.node)
            )
            chk.count()
            if not rebound_before:
                chk.bad(
                    "O19.2",
                    name,
                    "the translation writes into its input (%s): a list that is reached twice (a YAML alias, one list shared by two parents, a second translation of the same configuration) has already been consumed, so its factories are not called again and the objects are shared" % hit,
                    node=n,
                    stmt="input-mutated %s" % hit,
                )
    # ---------------- list branch: O19.2, O19.3
    ok2 = True
    outs = Interp(prog, fi, decide=kinds_decide("list"), inline=_LOC_HELPERS(fi)).run()
    chk.count(len(outs))
    for o in outs:
        if o.kind != "return":
            chk.bad("O19.2", name, "translating a list ends by %s" % o.kind, node=fi.node, stmt="list-exit")
            ok2 = False
            continue
        t = strip_sites(o.value)

        def unwrap(t, fn):
            if t[0] == "call" and t[1] == ("glob", "ext:builtins." + fn) and len(t[2]) == 1:
                return t[2][0]
            return None

        outer_layers, comp = iteration_layers(t)
        rev_out = comp if outer_layers.count("reversed") % 2 == 1 else None
        if comp[0] != "comp" or comp[1] not in ("list", "gen"):
            chk.undecided("O19.2", name, "list translation idiom not recognised: %s" % show(t), node=fi.node)
            ok2 = False
            continue
        gens = comp[3]
        if len(gens) != 1 or gens[0][2]:
            chk.bad("O19.2", name, "list items are translated selectively", node=fi.node, stmt="list-filtered")
            ok2 = False
            continue
        tgt, src, _c = gens[0]
        layers, s = iteration_layers(src)
        if s != STRUCT:
            chk.bad("O19.2", name, "list items are taken from %s" % show(s), node=fi.node, stmt="list-domain")
            ok2 = False
            continue
        core = [x for x in layers if x in ("reversed", "enumerate")]
        if core == ["enumerate", "reversed"]:
            chk.bad("O19.2", name, "the list is reversed BEFORE it is enumerated: every reported index is counted from the end (the error location of item i is reported as [n-1-i])", node=fi.node, stmt="enumerate-after-reverse")
            ok2 = False
            continue
        if core == ["enumerate"]:
            chk.bad("O19.2", name, "list items are translated first-to-last (no reversal): later items must be translated before earlier ones", node=fi.node, stmt="list-forward")
            ok2 = False
            continue
        if core != ["reversed", "enumerate"]:
            chk.undecided("O19.2", name, "list iteration idiom not recognised: %s" % layers, node=fi.node)
            ok2 = False
            continue
        if rev_out is None:
            chk.bad("O19.2", name, "the translated items are not re-reversed: the translated list comes out in reverse order", node=fi.node, stmt="not-re-reversed")
            ok2 = False
            continue
        ivar, xvar = (tgt[1][0], tgt[1][1]) if tgt[0] == "tuple" and len(tgt[1]) == 2 else (None, None)
        elt = comp[2]
        if not is_rec(elt) or list(elt[2]) != [xvar]:
            chk.bad("O19.2", name, "a list item is %s instead of its translation" % show(elt), node=fi.node, stmt="item-untranslated")
            ok2 = False
            continue
        extra_kw = [a if a is not None else "**" + show(b) for a, b in elt[3] if a != "where"]
        if extra_kw:
            chk.bad("O19.2", name, "the translation of a list item is given %s: constructor arguments of the parent leak into the items" % extra_kw, node=fi.node, stmt="item-extra-kwargs")
            ok2 = False
        w = dict((a, b) for a, b in elt[3] if a is not None).get("where")
        tpl = template(w) if w is not None else None
        chk.count()
        if tpl != [WHERE, "[", ivar, "]"]:
            chk.bad("O19.3", name, "the location of a list item is %s, not <current location> + '[' + index + ']'" % (show(w) if w else "not passed"), node=fi.node, stmt="where-list")
            ok3 = False
    # plain data unchanged
    # one scenario per kind of scalar / plain container: isinstance(structure, X) is decided from that kind's MRO
    import builtins as _b

    SCALARS = {"str": str, "int": int, "float": float, "bool": bool, "bytes": bytes, "NoneType": type(None), "tuple": tuple, "set": set, "an object of another type": object}
    outs = []
    for label, ty in SCALARS.items():
        mro = {"ext:builtins." + c.__name__ for c in ty.__mro__}

        def decide_scalar(it, p, t, mro=mro):
            if t[0] == "call" and t[1] == ISINSTANCE and len(t[2]) == 2 and t[2][0] == STRUCT:
                c = t[2][1]
                names = [c] if c[0] != "tuple" else list(c[1])
                return any(n[0] == "glob" and n[1] in mro for n in names)
            if t[0] == "call" and t[1] == ISINSTANCE:
                return False
            return None

        for o in Interp(prog, fi, decide=decide_scalar).run():
            o.label = label
            outs.append(o)
    chk.count(len(outs))
    for o in outs:
        if o.kind != "return" or o.value != STRUCT:
            chk.bad("O19.1", name, "plain data (%s) is not returned unchanged (%s)" % (o.label, show(strip_sites(o.value)) if o.value else o.kind), node=fi.node, stmt="plain-data", input=o.label)
            ok1 = False
    if ok1:
        chk.ok("O19.1", name, "every child is translated (unfiltered) before construct, which is called exactly once iff __type__ is a key; plain data unchanged", node=fi.node)
    if ok2:
        chk.ok("O19.2", name, "items translated over reversed(list(enumerate(structure))) -- enumeration before reversal -- and re-reversed", node=fi.node)
    if ok3:
        chk.ok("O19.3", name, "child locations extend the current location: where.key and where[index]", node=fi.node)
    return fi


def wrapping_rules(chk, fi):
    """O19.4: wrap once, keep the innermost location"""
    prog = chk.program
    rule = "O19.4"
    name = fi.qual
    located = exc_value(CONFIG_ERROR, "located-below")
    unlocated = exc_value(CONFIG_ERROR, "unlocated")
    other = exc_value("rep:AnyException", "factory-failure")
    ok = True
    for branch in ("dict", "list"):
        for label, e, where_none in (("a configuration error that already has a location", located, False), ("a configuration error without location", unlocated, True), ("any other exception", other, None)):

            def decide(it, path, term, where_none=where_none, e=e):
                r = kinds_decide(branch)(it, path, term)
                if r is not None:
                    return r
                if term == ("isnone", ("attr", e, "where")):
                    return where_none
                if term[0] == "cmp" and term[1] == "in" and term[2] == ("const", "__type__"):
                    return True
                return None

            def hook(it, path, ct, node, e=e):
                if ct[0] == "call" and ct[1] in (("attr", SELF, "translate_hierarchy"), ("attr", SELF, "construct")):
                    return [("raise", e), ("value", ("sym", "translated"))]
                return None

            outs = Interp(prog, fi, decide=decide, call_hook=hook).run()
            chk.count(len(outs))
            for o in outs:
                if not any(ev[0] == "raised-at-call" for ev in o.path.events):
                    continue
                inp = "%s raised below a %s" % (label, branch)
                if o.kind != "raise":
                    chk.bad(rule, name, "%s is swallowed (path ends by %s)" % (label, o.kind), node=fi.node, stmt="swallowed %s" % label, input=inp)
                    ok = False
                    continue
                v = o.value
                if where_none is False:
                    if v != e:
                        chk.bad(rule, name, "%s is re-wrapped as %s: the innermost (exact) location is replaced by an outer one" % (label, show(v)), node=fi.node, stmt="rewrap-located", input=inp)
                        ok = False
                    continue
                if v[1] != CONFIG_ERROR or v == e:
                    chk.bad(rule, name, "%s leaves translate_hierarchy as %s instead of a ConfigurationError carrying the current location" % (label, show(v)), node=fi.node, stmt="not-wrapped %s" % label, input=inp)
                    ok = False
                    continue
                # constructed as ConfigurationError(what=..., where=where)
                ctor = [ev[1] for ev in o.path.events if ev[0] == "call" and ev[1][1] == ("glob", CONFIG_ERROR)]
                kw = {}
                if ctor:
                    params = ["what", "where"]
                    for i, a in enumerate(ctor[-1][2]):
                        kw[params[i]] = a
                    kw.update({k: val for k, val in ctor[-1][3] if k})
                if kw.get("where") != WHERE:
                    chk.bad(rule, name, "%s is reported at location %s instead of the current location" % (label, show(kw.get("where")) if kw.get("where") else "None"), node=fi.node, stmt="wrap-where %s" % label, input=inp)
                    ok = False
                want_what = ("attr", e, "what") if where_none else e
                if kw.get("what") != want_what:
                    chk.bad(rule, name, "%s is reported with what=%s instead of %s" % (label, show(kw.get("what")) if kw.get("what") else "None", show(want_what)), node=fi.node, stmt="wrap-what %s" % label, input=inp)
                    ok = False
                if v[4] != ("cause", e):
                    chk.bad(rule, name, "%s is re-raised without chaining the original error (raise ... from err)" % label, node=fi.node, stmt="wrap-cause %s" % label, input=inp)
                    ok = False
    if ok:
        chk.ok(rule, name, "located configuration errors pass unchanged; unlocated ones get the current location; other exceptions are wrapped with the current location and chained", node=fi.node, input="3 error kinds x 2 branches")
    # who may set a location: inside the translator only translate_hierarchy knows the tree path
    cls = prog.cls(TRANSLATOR)
    n = 0
    for c in [cls] + prog.subclasses(cls.qual):
        for fis in c.methods.values():
            for f in fis:
                for node in ast.walk(f.node):
                    if isinstance(node, ast.Call) and prog.resolve(f.module, node.func) == CONFIG_ERROR:
                        n += 1
                        chk.count()
                        wh = None
                        for kw_ in node.keywords:
                            if kw_.arg == "where":
                                wh = kw_.value
                        if len(node.args) > 1:
                            wh = node.args[1]
                        if wh is None or (isinstance(wh, ast.Constant) and wh.value is None):
                            continue
                        if f.name == "translate_hierarchy" and isinstance(wh, ast.Name) and wh.id == "where":
                            continue
                        chk.bad(
                            rule,
                            f.qual,
                            "a ConfigurationError is created with location %s outside the tree walk: translate_hierarchy keeps any existing location as the innermost one, so the exact path of keys and indices is never reported" % util.unparse(wh),
                            node=node,
                            stmt="foreign-where %s" % util.unparse(wh),
                        )
    chk.floor("O19.4-sites", n, 3)


def construct_rules(chk):
    prog = chk.program
    rule = "O19.5"
    fi = prog.method(TRANSLATOR, "construct")
    name = fi.qual
    ARGSV = ("sym", "<value of __args__>")
    KEYERR = exc_value("ext:builtins.KeyError", "no __args__")
    runs = []
    for present in (True, False):

        def pop_hook(it, path, ct, node, present=present):
            if ct[0] == "call" and ct[1][0] == "attr" and ct[1][2] == "pop" and ct[2] and ct[2][0] == ("const", "__args__"):
                if present:
                    return [("value", ARGSV)]
                if len(ct[2]) >= 2:
                    return [("value", ct[2][1])]
                return [("raise", KEYERR)]
            return None

        def in_decide(it, path, term, present=present):
            if term[0] == "cmp" and term[1] == "in" and term[2] == ("const", "__args__"):
                return present
            return None

        runs.append((present, Interp(prog, fi, call_hook=pop_hook, decide=in_decide).run()))
    outs = [o for _p, os_ in runs for o in os_]
    chk.count(len(outs))
    ok = True
    for present, os_ in runs:
      for o in os_:
        if o.kind != "return":
            if o.kind == "raise" and o.value == KEYERR:
                chk.bad(rule, name, "__args__ is popped without a default: a mapping without __args__ fails", node=fi.node, stmt="args-default")
            else:
                chk.bad(rule, name, "construct ends by %s" % o.kind, node=fi.node, stmt="exit")
            ok = False
            continue
        v = o.value
        pops = {}
        for e in o.path.events:
            if e[0] == "call" and e[1][1][0] == "attr" and e[1][1][2] == "pop" and e[1][2] and e[1][2][0][0] == "const":
                pops[e[1][2][0][1]] = e[1]
        if set(pops) != {"__type__", "__args__"}:
            chk.bad(rule, name, "construct removes the keys %s from the mapping (required: exactly __type__ and __args__)" % sorted(pops), node=fi.node, stmt="reserved-keys")
            ok = False
            continue
        if v[0] != "call":
            chk.bad(rule, name, "construct returns %s" % show(v), node=fi.node, stmt="no-call")
            ok = False
            continue
        fac = v[1]
        if not (fac[0] == "call" and fac[1][0] == "attr" and fac[1][2] == "load_name" and list(fac[2]) == [pops["__type__"]]):
            chk.bad(rule, name, "the factory called is %s, not the object named by __type__" % show(strip_sites(fac)), node=fi.node, stmt="factory")
            ok = False
        pos = [strip_sites(a) for a in v[2]]
        if present and pos != [("star", ARGSV)]:
            chk.bad(rule, name, "positional arguments are %s, not *__args__" % [show(a) for a in v[2]], node=fi.node, stmt="args")
            ok = False
        EMPTY_SEQS = [("list", ()), ("tuple", ()), ("call", ("glob", "ext:builtins.list"), (), ()), ("call", ("glob", "ext:builtins.tuple"), (), ())]
        if not present and pos != [] and not (len(pos) == 1 and pos[0][0] == "star" and pos[0][1] in EMPTY_SEQS):
            chk.bad(rule, name, "without __args__ the factory gets the positional arguments %s (required: none)" % [show(a) for a in v[2]], node=fi.node, stmt="args-absent")
            ok = False
        stars = [val for k, val in v[3] if k is None]
        recv = pops["__type__"][1][1]
        if len(stars) != 1 or any(k is not None for k, _ in v[3]) or stars[0] != recv:
            chk.bad(rule, name, "keyword arguments are %s, not ** of the remaining items" % [show(s) for s in stars], node=fi.node, stmt="kwargs")
            ok = False
        # the merged mapping contains the given mapping and the extra keywords
        rs = strip_sites(recv)
        if rs[0] == "dict":
            parts = [val for k, val in rs[1] if k is None]
            if parts != [("sym", "mapping"), ("sym", "kwargs")]:
                chk.bad(rule, name, "the constructor mapping is merged from %s (required: the mapping, then the extra keywords)" % [show(p) for p in parts], node=fi.node, stmt="merge")
                ok = False
        elif rs[0] == "comp":
            conds = [c for g in rs[3] for c in g[2]]
            if conds:
                chk.bad(rule, name, "the items handed to the factory are filtered (%s): a configured value that matches the filter -- an explicit null, an empty or zero value -- is dropped and the factory's default is used instead of what the configuration says" % "; ".join(show(c) for c in conds), node=fi.node, stmt="items-filtered")
                ok = False
            else:
                chk.undecided(rule, name, "the constructor mapping is rebuilt by %s" % show(rs), node=fi.node, aux=True)
        calls = [e for e in o.path.events if e[0] == "call" and e[1] == v]
        if len(calls) != 1:
            chk.bad(rule, name, "the factory is called %d times" % len(calls), node=fi.node, stmt="factory-count")
            ok = False
    if ok:
        chk.ok(rule, name, "pops __type__ and __args__, calls load_name(__type__)(*__args__, **rest) exactly once", node=fi.node)
    # load_name raises for unresolvable names
    ln = prog.method(TRANSLATOR, "load_name")
    IMPORT_ERR = exc_value("ext:builtins.ImportError", "injected")
    ATTR_ERR = exc_value("ext:builtins.AttributeError", "injected")
    KEY_ERR = exc_value("ext:builtins.KeyError", "injected")

    def hook(it, path, ct, node):
        if ct[0] == "call" and ct[1] == ("glob", "ext:builtins.__import__"):
            return [("raise", IMPORT_ERR), ("value", ("sym", "module"))]
        if ct[0] == "call" and ct[1] == ("glob", "ext:builtins.getattr"):
            return [("raise", ATTR_ERR), ("value", ("sym", "attr"))]
        return None

    def sub_hook(it, path, base, idx, node):
        if base == ("glob", "ext:sys.modules"):
            return [("raise", KEY_ERR), ("value", ("sym", "module"))]
        return None

    outs = Interp(prog, ln, call_hook=hook, sub_hook=sub_hook, unroll=1).run()
    chk.count(len(outs))
    ok = True
    for o in outs:
        failed = [e for e in o.path.events if e[0] in ("raised-at-call", "raised-at-subscript")]
        last = failed[-1] if failed else None
        if last is not None and last[1] in (ATTR_ERR, KEY_ERR) and o.kind != "raise":
            chk.bad(rule, ln.qual, "an unresolvable name (%s) does not make load_name raise" % show(last[1]), node=ln.node, stmt="unresolvable-swallowed")
            ok = False
        if o.kind == "return" and o.value == NONE:
            chk.bad(rule, ln.qual, "load_name can return None for a name", node=ln.node, stmt="returns-none")
            ok = False
    # every dot of the name is a lookup step: module, then attribute by attribute (nested classes, classmethod factories)
    NAME = ("sym", ln.params()[0]) if ln.params() else None
    splits = []
    for n in ast.walk(ln.node):
        if isinstance(n, ast.Call) and isinstance(n.func, ast.Attribute) and n.func.attr in ("split", "rsplit", "partition", "rpartition") and isinstance(n.func.value, ast.Name) and NAME is not None and n.func.value.id == NAME[1]:
            splits.append(n)
    chk.count(len(splits))
    for n in splits:
        whole = n.func.attr == "split" and len(n.args) == 1 and isinstance(n.args[0], ast.Constant) and n.args[0].value == "." and not n.keywords
        if not whole:
            chk.bad(rule, ln.qual, "the dotted name is taken apart by %s: only part of the dots become lookup steps, so a name with more than one attribute level below its module (a nested class, a classmethod of a class) no longer resolves" % util.unparse(n), node=n, stmt="name-split %s" % n.func.attr)
            ok = False
    if not splits:
        chk.undecided(rule, ln.qual, "how load_name takes the dotted name apart was not recognised", node=ln.node, aux=True)
    # the fallback walk: when the whole name is not a module, where the module part ends is NOT known -- the walk starts at the
    # top-level package (components[0]) and follows ALL remaining components (components[1:]) as attributes
    single = {}
    for n in ast.walk(ln.node):
        if isinstance(n, ast.Assign) and len(n.targets) == 1 and isinstance(n.targets[0], ast.Name):
            single.setdefault(n.targets[0].id, []).append(n.value)
    single = {k: v[0] for k, v in single.items() if len(v) == 1}
    parts = {k for k, v in single.items() if v in splits}

    def res(e, depth=0):
        while isinstance(e, ast.Name) and e.id in single and e.id not in parts and depth < 5:
            e = single[e.id]
            depth += 1
        return e

    def const_int(e):
        if e is None:
            return None
        if isinstance(e, ast.Constant) and isinstance(e.value, int):
            return e.value
        if isinstance(e, ast.UnaryOp) and isinstance(e.op, ast.USub) and isinstance(e.operand, ast.Constant) and isinstance(e.operand.value, int):
            return -e.operand.value
        return "?"

    def part_slice(e):
        """('index', i) / ('slice', lo, hi) of the components list, through `sep.join(...)`, else None"""
        e = res(e)
        if isinstance(e, ast.Call) and isinstance(e.func, ast.Attribute) and e.func.attr == "join" and len(e.args) == 1:
            e = res(e.args[0])
        if isinstance(e, ast.Subscript) and isinstance(e.value, ast.Name) and e.value.id in parts:
            sl = e.slice
            if isinstance(sl, ast.Slice):
                return ("slice", const_int(sl.lower), const_int(sl.upper))
            return ("index", const_int(sl))
        return None

    starts, walks = [], []
    for n in ast.walk(ln.node):
        if isinstance(n, ast.Subscript) and prog.resolve(ln.module, n.value) == "ext:sys.modules":
            k = part_slice(n.slice)
            if k is not None:
                starts.append((n, k))
        if isinstance(n, ast.For) and any(isinstance(c, ast.Call) and isinstance(c.func, ast.Name) and c.func.id == "getattr" for c in ast.walk(n)):
            k = part_slice(n.iter)
            if k is not None:
                walks.append((n, k))
    chk.count(len(starts) + len(walks))
    for n, k in starts:
        if k != ("index", 0) and k != ("slice", None, 1) and k != ("slice", 0, 1):
            chk.bad(rule, ln.qual, "the fallback lookup starts at sys.modules[%s] instead of the top-level package: it fixes how many trailing components are attributes, so a name with another number of attribute levels (package.module.Class.factory, a nested class) ends in ImportError although it is valid" % util.unparse(n.slice), node=n, stmt="walk-start")
            ok = False
    for n, k in walks:
        if k != ("slice", 1, None):
            chk.bad(rule, ln.qual, "the fallback lookup follows only %s as attributes instead of every component after the top-level package: a name with another number of attribute levels no longer resolves" % util.unparse(n.iter), node=n, stmt="walk-range")
            ok = False
    if ok:
        chk.ok(rule, ln.qual, "every failure to import / look up a component ends in a raise; the name is split on every dot", node=ln.node, input="%d paths" % len(outs))


_MUTATORS = {"append", "extend", "insert", "clear", "pop", "remove", "add", "update", "setdefault", "discard", "popitem", "appendleft", "sort", "reverse"}


def per_activation_state(chk, rule="O19.1"):
    """translate_hierarchy is re-entrant (it calls itself for every child, directly and through super()): whatever it
    accumulates while it walks one level must live in that activation -- a container on the instance, the class or the
    module is shared with the activations below it, which then clear / extend the outer level's partial result"""
    prog = chk.program
    from . import c05

    n = 0
    ok = True
    for cq in (TRANSLATOR, c05.PIPELINE):
        cls = prog.cls(cq)
        for fi in cls.methods.get("translate_hierarchy", []):
            n += 1
            chk.count()
            shared = {}
            for st in ast.walk(fi.node):
                if isinstance(st, ast.Assign) and len(st.targets) == 1:
                    tg, val = st.targets[0], st.value
                    pairs = list(zip(tg.elts, val.elts)) if isinstance(tg, (ast.Tuple, ast.List)) and isinstance(val, (ast.Tuple, ast.List)) and len(tg.elts) == len(val.elts) else [(tg, val)]
                    for t, v in pairs:
                        if isinstance(t, ast.Name):
                            d = util.dotted(v)
                            if d and d.startswith("self.") and d.count(".") == 1:
                                shared[t.id] = d
            for n_ in ast.walk(fi.node):
                where = None
                if isinstance(n_, ast.Call) and isinstance(n_.func, ast.Attribute) and n_.func.attr in _MUTATORS:
                    d = util.dotted(n_.func.value)
                    if d and d.startswith("self.") and d.count(".") == 1:
                        where = d
                    elif isinstance(n_.func.value, ast.Name) and n_.func.value.id in shared:
                        where = shared[n_.func.value.id]
                elif isinstance(n_, (ast.Assign, ast.AugAssign)):
                    for t in n_.targets if isinstance(n_, ast.Assign) else [n_.target]:
                        # re-binding an attribute to a fresh object is harmless as long as the walk works on locals;
                        # changing the object behind it in place (x[k] = v, x += v) is what the activations share
                        if not isinstance(t, ast.Subscript) and not isinstance(n_, ast.AugAssign):
                            continue
                        base = t.value if isinstance(t, ast.Subscript) else t
                        d = util.dotted(base)
                        if d and d.startswith("self.") and d.count(".") == 1:
                            where = d
                        elif isinstance(t, ast.Subscript) and isinstance(base, ast.Name) and base.id in shared:
                            where = shared[base.id]
                if where:
                    chk.bad(
                        rule,
                        fi.qual,
                        "%s keeps state of the walk on the instance (%s, changed by %s) although it is re-entrant: the activation that translates a nested element works on the SAME object and clears / extends what the outer level has collected so far, so the outer result loses or gains elements"
                        % (fi.name, where, util.unparse(n_)[:50]),
                        node=n_,
                        stmt="shared-walk-state %s" % where,
                    )
                    ok = False
                    break
    if ok:
        chk.ok(rule, TRANSLATOR, "%d translate_hierarchy implementations keep what they collect in locals of the activation (nothing on the instance is changed during the walk)" % n)


def run(chk):
    fi = chk.guard("O19.1", TRANSLATOR, structure_rules, chk)
    if fi is not None:
        chk.guard("O19.4", TRANSLATOR, wrapping_rules, chk, fi)
    chk.guard("O19.5", TRANSLATOR, construct_rules, chk)
    # the pipeline translator overrides the tree walk for `pipeline` lists: same index / location rules
    from . import c05

    chk.guard("O5.3", c05.PIPELINE, c05.linking_loop, chk)
    chk.guard("O19.1", TRANSLATOR, per_activation_state, chk)
    # "any failure to resolve or call a factory is reported": no swallowing handler around a factory call (shared with C05)
    chk.guard("O5.4", "<config modules>", c05.narrow_try, chk)
