"""Discovery and rules shared by several properties (runner anchors, argument binding)."""
import ast

from .. import util
from ..interp import Interp, Path, show, strip_sites, subterms
from ..report import Undecided

SELF = ("sym", "self")
PARTIAL_FN = ("glob", "ext:functools.partial")


def runner_facts(prog, cls):
    """slots of a concrete runner, filled from its own code (DESIGN.md 2.2)"""
    facts = {"monitors": [], "signal_helpers": []}
    mp = prog.lookup_method(cls, "manage_payloads")
    if mp is not None:
        for n in ast.walk(mp.node):
            if isinstance(n, ast.Await) and isinstance(n.value, ast.Attribute) and util.dotted(n.value.value) == "self":
                facts["failure_future"] = n.value.attr
    for fis in cls.methods.values():
        for fi in fis:
            created = set()
            for n in ast.walk(fi.node):
                if isinstance(n, ast.Assign) and isinstance(n.value, ast.Call) and isinstance(n.value.func, ast.Attribute) and n.value.func.attr == "create_task":
                    for t in n.targets:
                        if isinstance(t, ast.Name):
                            created.add(t.id)
            for n in ast.walk(fi.node):
                if isinstance(n, ast.Call) and isinstance(n.func, ast.Attribute) and n.func.attr == "add" and n.args:
                    a = n.args[0]
                    is_task = (isinstance(a, ast.Name) and a.id in created) or (isinstance(a, ast.Call) and isinstance(a.func, ast.Attribute) and a.func.attr == "create_task")
                    if is_task and isinstance(n.func.value, ast.Attribute) and util.dotted(n.func.value.value) == "self":
                        facts["task_registry"] = n.func.value.attr
                if isinstance(n, ast.Assign) and isinstance(n.value, ast.Call) and prog.resolve(cls.module, n.value.func) == "ext:trio.open_memory_channel":
                    t = n.targets[0]
                    if isinstance(t, ast.Tuple) and isinstance(t.elts[0], ast.Attribute) and util.dotted(t.elts[0].value) == "self":
                        facts["submit_channel"] = t.elts[0].attr
                    elif isinstance(t, ast.Tuple) and isinstance(t.elts[0], ast.Name):
                        for a in ast.walk(fi.node):
                            if isinstance(a, ast.Assign) and isinstance(a.value, ast.Name) and a.value.id == t.elts[0].id:
                                for tt in a.targets:
                                    if isinstance(tt, ast.Attribute) and util.dotted(tt.value) == "self":
                                        facts["submit_channel"] = tt.attr
            # monitors: methods invoking their `payload` parameter
            params = fi.params()
            if fi.name != "run_payload" and params:
                for n in ast.walk(fi.node):
                    if isinstance(n, ast.Call) and isinstance(n.func, ast.Name) and n.func.id in params and n.func.id in ("payload", "task", "fnc", "func"):
                        if fi.name not in facts["monitors"]:
                            facts["monitors"].append(fi.name)
    # module-level monitors: functions of the runners package that a method of the class refers to by name and that
    # invoke their `payload` parameter (a monitor that needs no `self` may live outside the class)
    facts["monitor_fis"] = {}
    pkg = cls.module.name.rpartition(".")[0]
    for fis in cls.methods.values():
        for fi in fis:
            for n in ast.walk(fi.node):
                if isinstance(n, ast.Name) and isinstance(n.ctx, ast.Load):
                    r = prog.resolve(fi.module, n)
                    g = prog.functions.get(r) if r else None
                    if g is None or g.cls is not None or not g.module.name.startswith(pkg):
                        continue
                    gp = g.params()
                    if any(isinstance(c, ast.Call) and isinstance(c.func, ast.Name) and c.func.id in gp and c.func.id in ("payload", "task", "fnc", "func") for c in ast.walk(g.node)):
                        if g.name not in facts["monitors"]:
                            facts["monitors"].append(g.name)
                        facts["monitor_fis"][g.name] = g
    ff = facts.get("failure_future")
    if ff:
        for fis in cls.methods.values():
            for fi in fis:
                for n in ast.walk(fi.node):
                    if isinstance(n, ast.Call) and isinstance(n.func, ast.Attribute) and n.func.attr == "set_exception" and util.dotted(n.func.value) == "self." + ff:
                        if fi.name not in facts["signal_helpers"] and fi.name not in facts["monitors"]:
                            facts["signal_helpers"].append(fi.name)
    return facts


def trio_structure(prog, cls):
    """how the runner starts its single trio run: {'start_fn', 'form' ('call' | 'handed'), 'entry', 'owned'}
    call:    a synchronous own method contains trio.run(self.<entry>) and is handed to run_in_executor
    handed:  run_in_executor(<executor>, trio.run, self.<entry>) directly
    owned = the entry coroutine plus the own coroutines only ever awaited from owned ones"""
    start_fn = entry = None
    form = None
    entry_handed = False
    for fis in cls.methods.values():
        for fi in fis:
            par = util.parents_map(fi.node)
            for n in ast.walk(fi.node):
                if isinstance(n, ast.Call) and prog.resolve(fi.module, n.func) == "ext:trio.run" and n.args:
                    d = util.dotted(n.args[0])
                    if d and d.startswith("self."):
                        start_fn, form, entry = fi, "call", prog.lookup_method(cls, d.split(".")[1])
                elif isinstance(n, ast.Attribute) and prog.resolve(fi.module, n) == "ext:trio.run":
                    up = par.get(id(n))
                    if isinstance(up, ast.Call) and up.func is not n and isinstance(up.func, ast.Attribute) and up.func.attr == "run_in_executor" and len(up.args) >= 3 and up.args[1] is n:
                        d = util.dotted(up.args[2])
                        if d and d.startswith("self."):
                            start_fn, form, entry = fi, "handed", prog.lookup_method(cls, d.split(".")[1])
    if start_fn is None:
        # call form with the entry handed in:  def _run_blocking(async_fn): return trio.run(async_fn)
        #                                      run_in_executor(<executor>, self._run_blocking, self.<entry>)
        for fis in cls.methods.values():
            for fi in fis:
                for n in ast.walk(fi.node):
                    if isinstance(n, ast.Call) and prog.resolve(fi.module, n.func) == "ext:trio.run" and n.args and isinstance(n.args[0], ast.Name) and n.args[0].id in fi.params():
                        idx = fi.params().index(n.args[0].id)
                        for gs in cls.methods.values():
                            for g in gs:
                                for c in ast.walk(g.node):
                                    if isinstance(c, ast.Call) and isinstance(c.func, ast.Attribute) and c.func.attr == "run_in_executor" and len(c.args) >= 3 + idx and util.dotted(c.args[1]) == "self." + fi.name:
                                        d = util.dotted(c.args[2 + idx])
                                        if d and d.startswith("self."):
                                            start_fn, form, entry = fi, "call", prog.lookup_method(cls, d.split(".")[1])
                                            entry_handed = True
    if start_fn is None or entry is None:
        return None
    owned = {entry.name}
    changed = True
    while changed:
        changed = False
        for fis in cls.methods.values():
            for f in fis:
                if f.name in owned or not f.is_async:
                    continue
                refs = []
                for gs in cls.methods.values():
                    for g_ in gs:
                        par = util.parents_map(g_.node)
                        for x in ast.walk(g_.node):
                            if isinstance(x, ast.Attribute) and x.attr == f.name and isinstance(x.value, ast.Name) and x.value.id == "self":
                                up = par.get(id(x))
                                refs.append((g_.name, isinstance(up, ast.Call) and up.func is x and isinstance(par.get(id(up)), ast.Await)))
                if refs and all(nm in owned and aw for nm, aw in refs):
                    owned.add(f.name)
                    changed = True
    return {"start_fn": start_fn, "form": form, "entry": entry, "owned": owned, "entry_handed": entry_handed}


def monitor_fi(prog, cls, name):
    """the FuncInfo of a monitor named in runner_facts(...)["monitors"]: an own method or a module-level function"""
    m = prog.lookup_method(cls, name)
    if m is not None:
        return m
    return runner_facts(prog, cls)["monitor_fis"].get(name)


def binding_rule(chk, rule, fi, forward_attr):
    """
    adopt / execute bind exactly (*args, **kwargs), in order, through an accepted idiom and forward
    the bound payload once under the caller's flavour.
    """
    prog = chk.program
    name = fi.qual
    a = fi.node.args
    pos = [x.arg for x in a.args][1:]
    if not pos or a.vararg is None or a.kwarg is None:
        chk.undecided(rule, name, "signature is not (payload, *args, flavour, **kwargs)", node=fi.node)
        return
    payload = ("sym", pos[0])
    ARGS, KWARGS = ("sym", a.vararg.arg), ("sym", a.kwarg.arg)
    ok = True
    # every named parameter besides the payload and `flavour` shadows an argument the caller means for the payload
    extra = [x for x in pos[1:]] + [x.arg for x in a.kwonlyargs if x.arg != "flavour"] + [x.arg for x in a.posonlyargs]
    if extra:
        chk.bad(
            rule,
            name,
            "%s takes the named parameter(s) %s besides (payload, *args, flavour, **kwargs): a positional or keyword argument of that name meant for the payload is swallowed, the payload runs without it" % (fi.name, extra),
            node=fi.node,
            stmt="signature-shadows %s" % ",".join(extra),
        )
        ok = False
    for has_args in (True, False):

        def decide(it, path, term, has_args=has_args):
            if term in (ARGS, KWARGS, ("truthy", ARGS), ("truthy", KWARGS)):
                return has_args
            return None

        owner = fi.cls
        outs = Interp(prog, fi, decide=decide, inline=lambda f, ct: owner is not None and f.cls is owner and f.name not in ("accept", "shutdown", "adopt", "execute")).run()
        chk.count(len(outs))
        label = "with arguments" if has_args else "without arguments"
        for o in outs:
            forks = [e for e in o.path.events if e[0] in ("branch", "fork") and e[-1] == "forked"]
            if forks:
                chk.bad(
                    rule,
                    name,
                    "whether the arguments are bound depends on %s, i.e. on the VALUES of the arguments and not on whether any were given: e.g. all-falsy positionals (0, None, '') are dropped and the payload starts without them" % show(strip_sites(forks[0][1])),
                    node=fi.node,
                    stmt="binding-condition %s" % show(strip_sites(forks[0][1]))[:60],
                    input=label,
                )
                ok = False
                continue
            if o.kind == "raise":
                chk.bad(rule, name, "%s raises %s before forwarding the payload" % (fi.name, show(o.value)), node=fi.node, stmt="raises", input=label)
                ok = False
                continue
            fw = [e[1] for e in o.path.events if e[0] == "call" and e[1][1][0] == "attr" and e[1][1][2] == forward_attr]
            if len(fw) != 1:
                chk.bad(rule, name, "%s forwards the payload %d times (%s)" % (fi.name, len(fw), label), node=fi.node, stmt="forward-count", input=label)
                ok = False
                continue
            ct = fw[0]
            args = list(ct[2])
            kws = dict((k, v) for k, v in ct[3] if k is not None)
            if len(args) != 1:
                chk.bad(rule, name, "%s forwards %d positional values instead of the one bound payload" % (fi.name, len(args)), node=fi.node, stmt="forward-arity", input=label)
                ok = False
                continue
            fl = kws.get("flavour")
            if fl != ("sym", "flavour"):
                chk.bad(rule, name, "the payload is forwarded under flavour %s instead of the caller's flavour" % show(fl), node=fi.node, stmt="flavour %s" % show(fl), input=label)
                ok = False
            bound = args[0]
            want_partial = ("call", PARTIAL_FN, (payload, ("star", ARGS)), ((None, KWARGS),))
            want_lambda_body = ("call", payload, (("star", ARGS),), ((None, KWARGS),))
            sb = strip_sites(bound)
            if sb == payload:
                if has_args:
                    chk.bad(rule, name, "the payload is forwarded without its arguments", node=fi.node, stmt="args-dropped", input=label)
                    ok = False
                continue
            if sb == want_partial:
                continue
            if sb[0] == "lambda" and not sb[1] and strip_sites(sb[2]) == want_lambda_body:
                continue
            if sb[0] == "call" and sb[1] == PARTIAL_FN and sb[2][:1] == (payload,):
                got = "partial(%s)" % ", ".join([show(x) for x in sb[2]] + [("%s=%s" % (k, show(v)) if k else "**" + show(v)) for k, v in sb[3]])
                chk.bad(
                    rule,
                    name,
                    "the arguments are bound as %s; required: exactly (*args, **kwargs) in the order given (anything else drops, reorders or renames arguments for some payload signature)" % got,
                    node=fi.node,
                    stmt="binding %s" % got[:100],
                    input=label,
                )
                ok = False
                continue
            chk.bad(rule, name, "the forwarded value is %s, not the payload bound to (*args, **kwargs)" % show(sb), node=fi.node, stmt="binding-unrecognised %s" % show(sb)[:80], input=label)
            ok = False
    if ok:
        chk.ok(rule, name, "binds exactly (*args, **kwargs) in order and forwards the bound payload once under the caller's flavour", node=fi.node)
