"""C04 -- a >> chain builds exactly the nested pipeline (structural facts the algebra rests on)."""
import ast

from .. import util
from ..interp import Interp, Path, exc_value, is_exc, show, strip_sites, subterms, NONE, iteration_layers
from ..report import Undecided, AnchorMissing

PARTIAL = util.PARTIAL
BIND = util.PARTIAL_BIND
SELF = ("sym", "self")
OTHER = ("sym", "other")
ISINSTANCE = ("glob", "ext:builtins.isinstance")
TYPEERROR = "ext:builtins.TypeError"


# ------------------------------------------------------------------ signature model (O4.3)
def fn_params(node, drop_first=True):
    a = node.args
    out = [x.arg for x in a.posonlyargs + a.args]
    if drop_first:
        out = out[1:]
    if a.vararg:
        out.append("*" + a.vararg.arg)
    out += [x.arg for x in a.kwonlyargs]
    if a.kwarg:
        out.append("**" + a.kwarg.arg)
    return out


class DecoratorEffect:
    """what a class decorator assigns onto the class it receives (abstract execution of its body)"""

    def __init__(self):
        self.assigned = {}  # attr -> FunctionDef node
        self.signature = {}  # attr -> 'raw-class' | 'raw-init' | 'unknown'
        self.sig_node = {}
        self.cond = None  # (text, node, kind): the signature is published only when an extra condition holds


def decorator_effect(prog, deco_qual) -> DecoratorEffect:
    """analyse `def deco(args): def inner(raw_cls): ...; raw_cls.x = f; return raw_cls; return inner`"""
    eff = DecoratorEffect()
    fi = prog.functions.get(deco_qual)
    if fi is None:
        return eff
    _MODULE_DEFS.clear()
    _MODULE_DEFS.update(fi.module.defs)
    inners = [n for n in fi.node.body if isinstance(n, ast.FunctionDef)]
    target = fi.node
    if inners and any(isinstance(st, ast.Return) and isinstance(st.value, ast.Name) and st.value.id == inners[-1].name for st in fi.node.body):
        target = inners[-1]
    if not target.args.args:
        return eff
    param = target.args.args[0].arg
    local_funcs = {n.name: n for n in target.body if isinstance(n, ast.FunctionDef)}
    order = []  # statement order: ('sig-read', name) / ('assign', attr)
    sig_vars = {}  # local var -> 'raw-class' (holds inspect.signature(raw_cls) taken before the replacement)
    replaced = False
    for st in target.body:
        if isinstance(st, ast.If):
            # the only accepted guard around publishing the signature: `if <signature variable> is not None:`
            t = st.test
            if isinstance(t, ast.Constant) and not t.value:
                continue  # statically dead block: nothing in it is published
            if isinstance(t, ast.UnaryOp) and isinstance(t.op, ast.Not) and isinstance(t.operand, ast.Compare) and len(t.operand.ops) == 1 and isinstance(t.operand.ops[0], ast.Is):
                t = ast.Compare(left=t.operand.left, ops=[ast.IsNot()], comparators=t.operand.comparators)
            if isinstance(t, ast.UnaryOp) and isinstance(t.op, ast.Not) and isinstance(t.operand, ast.Compare) and len(t.operand.ops) == 1 and isinstance(t.operand.ops[0], ast.IsNot):
                t = ast.Compare(left=t.operand.left, ops=[ast.Is()], comparators=t.operand.comparators)
            if isinstance(t, ast.Compare) and len(t.ops) == 1 and isinstance(t.ops[0], ast.Is) and isinstance(t.left, ast.Name) and isinstance(t.comparators[0], ast.Constant) and t.comparators[0].value is None and not st.orelse:
                continue  # runs only when no signature could be computed: for an inspectable class nothing in it is published
            if isinstance(t, ast.BoolOp) and isinstance(t.op, ast.And) and len(t.values) == 2 and any(isinstance(x, ast.Attribute) and x.attr in ("__signature__", "__wrapped__") for x in ast.walk(st)):
                g, extra = t.values
                if isinstance(g, ast.Compare) and len(g.ops) == 1 and isinstance(g.ops[0], ast.IsNot) and isinstance(g.left, ast.Name) and isinstance(g.comparators[0], ast.Constant) and g.comparators[0].value is None:
                    # `sig is not None and <extra>`: published for some inspectable classes only
                    kind = "has-parameters" if isinstance(extra, ast.Attribute) and extra.attr == "parameters" and isinstance(extra.value, ast.Name) and extra.value.id == g.left.id else "other"
                    if kind == "has-parameters":
                        eff.cond = (util.unparse(extra), st, kind)
                        t = g
            guard_ok = (
                isinstance(t, ast.Compare)
                and len(t.ops) == 1
                and isinstance(t.ops[0], ast.IsNot)
                and isinstance(t.left, ast.Name)
                and isinstance(t.comparators[0], ast.Constant)
                and t.comparators[0].value is None
            )
            if not guard_ok and any(isinstance(x, ast.Attribute) and x.attr in ("__signature__", "__wrapped__") for x in ast.walk(st)):
                for x in ast.walk(st):
                    if isinstance(x, ast.Assign) and isinstance(x.targets[0], ast.Attribute) and x.targets[0].attr in ("__signature__", "__wrapped__") and isinstance(x.targets[0].value, ast.Name):
                        eff.signature[x.targets[0].value.id] = "unknown"
                        eff.sig_node[x.targets[0].value.id] = st
                continue
        if isinstance(st, ast.FunctionDef):
            for d in st.decorator_list:
                # @functools.wraps(raw_cls.__init__)
                if isinstance(d, ast.Call) and (util.dotted(d.func) or "").split(".")[-1] == "wraps" and d.args:
                    a = util.dotted(d.args[0])
                    if a == param + ".__init__":
                        eff.signature[st.name] = "raw-init"
                    else:
                        eff.signature[st.name] = "unknown"
                    eff.sig_node[st.name] = d
            continue
        for n in ast.walk(st):
            if isinstance(n, ast.Assign):
                val = n.value
                for t in n.targets:
                    if isinstance(t, ast.Attribute) and isinstance(t.value, ast.Name) and t.value.id in local_funcs and t.attr in ("__signature__", "__wrapped__") and eff.signature.get(t.value.id) == "unknown" and eff.sig_node.get(t.value.id) is st:
                        continue
                    if isinstance(t, ast.Attribute) and isinstance(t.value, ast.Name) and t.value.id == param:
                        if isinstance(val, ast.Name) and val.id in local_funcs:
                            eff.assigned[t.attr] = local_funcs[val.id]
                            eff.assigned_name = getattr(eff, "assigned_name", {})
                            eff.assigned_name[t.attr] = val.id
                            if t.attr == "__new__":
                                replaced = True
                    if isinstance(t, ast.Name) and _is_signature_of(val, param):
                        sig_vars[t.id] = _sig_source(val, param) if (not replaced or _sig_source(val, param) == "raw-init-function") else "replaced-class"
                    if isinstance(t, ast.Attribute) and isinstance(t.value, ast.Name) and t.value.id in local_funcs:
                        if t.attr == "__signature__":
                            eff.signature[t.value.id] = _classify_sig_expr(val, param, sig_vars, replaced)
                            eff.sig_node[t.value.id] = n
                        elif t.attr == "__wrapped__":
                            eff.signature[t.value.id] = "raw-init" if util.dotted(val) == param + ".__init__" else "unknown"
                            eff.sig_node[t.value.id] = n
    return eff


FuncTypes = (ast.FunctionDef, ast.AsyncFunctionDef)


def _is_signature_of(val, param):
    """inspect.signature(raw_cls) / Signature.from_callable(raw_cls)  (also of raw_cls.__init__: see _sig_source)"""
    if isinstance(val, ast.Call) and val.args:
        d = util.dotted(val.func) or ""
        if d.split(".")[-1] in ("signature", "from_callable"):
            a = util.dotted(val.args[0])
            return a in (param, param + ".__init__")
    return False


def _sig_source(val, param):
    a = util.dotted(val.args[0])
    return "raw-class" if a == param else "raw-init-function"


def _classify_sig_expr(val, param, sig_vars, replaced):
    """recognise  <sig>.replace(parameters=[<one extra leading parameter>, *<sig>.parameters.values()])"""
    src = None
    if isinstance(val, ast.Call) and isinstance(val.func, ast.Attribute) and val.func.attr == "replace":
        base = val.func.value
        if isinstance(base, ast.Name) and base.id in sig_vars:
            src = sig_vars[base.id]
        elif _is_signature_of(base, param):
            src = _sig_source(base, param) if (not replaced or _sig_source(base, param) == "raw-init-function") else "replaced-class"
        plist = None
        for kw in val.keywords:
            if kw.arg == "parameters":
                plist = kw.value
        if src and plist is not None and _param_items(plist) == ["P", "SIG"]:
            return src if src in ("raw-class", "raw-init-function") else "unknown"
    return "unknown"


_MODULE_DEFS = {}


def _param_items(e):
    """flatten a `parameters=` expression into ['P' (one extra parameter), 'SIG' (the signature's own parameters), '?']"""
    if isinstance(e, (ast.List, ast.Tuple)):
        out = []
        for x in e.elts:
            if isinstance(x, ast.Starred):
                out.extend(_param_items(x.value))
            elif isinstance(x, ast.Call) and (util.dotted(x.func) or "").split(".")[-1] == "Parameter":
                out.append("P")
            elif isinstance(x, ast.Name) and isinstance(_MODULE_DEFS.get(x.id), ast.Assign) and isinstance(_MODULE_DEFS[x.id].value, ast.Call) and (util.dotted(_MODULE_DEFS[x.id].value.func) or "").split(".")[-1] == "Parameter":
                out.append("P")  # a module-level constant holding the extra parameter
            else:
                out.append("?")
        return out
    if isinstance(e, ast.Call):
        d = (util.dotted(e.func) or "").split(".")[-1]
        if d in ("list", "tuple") and len(e.args) == 1:
            return _param_items(e.args[0])
        if d == "chain":
            out = []
            for a in e.args:
                out.extend(_param_items(a))
            return out
        if util.unparse(e).endswith(".parameters.values()"):
            return ["SIG"]
    if isinstance(e, ast.BinOp) and isinstance(e.op, ast.Add):
        return _param_items(e.left) + _param_items(e.right)
    return ["?"]


def signature_model(prog, cls, chk=None, ignore_decorators=False):
    """
    static model of inspect.signature(cls) under CPython >= 3.9.1 (bpo-40897 MRO walk):
    returns (owner kind, owner class qual, parameter names) or ('external', base, None)
    """
    for q in cls.mro:
        c = prog.classes.get(q)
        if c is None:
            if q in ("ext:builtins.object", "ext:typing.Generic", "ext:abc.ABC"):
                continue
            return ("external", q, None)
        own_new = prog.pick(c.methods.get("__new__", []))
        own_init = prog.pick(c.methods.get("__init__", []))
        new_node = own_new.node if own_new else None
        published = None
        if not (ignore_decorators and c is cls):
            for d in c.decorators:
                eff = decorator_effect(prog, d) if d else DecoratorEffect()
                if "__new__" in eff.assigned:
                    new_node = eff.assigned["__new__"]
                    fname = eff.assigned_name["__new__"]
                    published = eff.signature.get(fname)
                    if published == "raw-class":
                        inner = signature_model(prog, c, ignore_decorators=True)
                        return ("__new__ publishing the raw class signature", c.qual, inner[2])
                    if published == "raw-init":
                        init = prog.lookup_method(c, "__init__")
                        return ("__new__ wrapping __init__", c.qual, fn_params(init.node) if init else [])
                    if published == "raw-init-function":
                        # signature of the *unbound* __init__ (with self) behind one extra leading parameter:
                        # only the extra parameter is dropped, `self` stays as a bindable slot
                        init = prog.lookup_method(c, "__init__")
                        return ("__new__ publishing the unbound __init__ signature (self included)", c.qual, fn_params(init.node, drop_first=False) if init else [])
                    if published == "unknown":
                        raise Undecided("the signature published on the replaced __new__ of %s is not recognised" % c.qual, eff.sig_node.get(fname))
        if new_node is not None:
            return ("__new__", c.qual, fn_params(new_node))
        if own_init is not None:
            return ("__init__", c.qual, fn_params(own_init.node))
    return ("object", None, [])


def declared_init(prog, cls):
    init = prog.lookup_method(cls, "__init__")
    return (init, fn_params(init.node)) if init is not None else (None, None)


def template_classes(prog):
    out = []
    for c in prog.classes.values():
        if prog.is_subclass(c.qual, util.POOL) or prog.is_subclass(c.qual, util.CONTROLLER):
            out.append(c)
    return sorted(out, key=lambda c: c.qual)


def signature_visibility(chk):
    prog = chk.program
    rule = "O4.3"
    n = 0
    seen_cond = set()
    for cls in template_classes(prog):
        for d in cls.decorators:
            eff = decorator_effect(prog, d) if d else DecoratorEffect()
            if eff.cond is not None and d not in seen_cond:
                seen_cond.add(d)
                chk.bad(
                    rule,
                    d,
                    "the decorator publishes the constructor signature on the replaced __new__ only when `%s` holds: for a class whose constructor takes no parameters inspect.signature(cls) then shows __new__(*args, **kwargs), "
                    "so the eager argument check of its templates is vacuous (cls.s(1, x=2) is accepted and only fails when the chain is bound)" % eff.cond[0],
                    node=eff.cond[1],
                    stmt="signature published conditionally: %s" % eff.cond[0],
                )
        init, declared = declared_init(prog, cls)
        if init is None:
            continue
        n += 1
        chk.count()
        try:
            kind, owner, params = signature_model(prog, cls)
        except Undecided as e:
            chk.undecided(rule, cls.qual, str(e), node=e.node)
            continue
        if kind == "external":
            chk.undecided(rule, cls.qual, "constructor signature comes from external base %s" % owner, node=cls.node, aux=True)
            continue
        if params == declared:
            chk.ok(rule, cls.qual, "inspect.signature(%s) resolves to %s of %s: %s" % (cls.name, kind, owner.split(":")[-1], params), node=cls.node)
        else:
            vac = params == ["*args", "**kwargs"] or all(p.startswith("*") for p in params)
            chk.bad(
                rule,
                cls.qual,
                "inspect.signature(%s) resolves to %s of %s = (%s), not the declared constructor (%s): the eager argument check of every "
                "template of this class is %s (e.g. %s.s(no_such_argument=0) is accepted and only fails when the chain is bound)"
                % (cls.name, kind, owner.split(":")[-1], ", ".join(params), ", ".join(declared), "vacuous" if vac else "made against the wrong signature", cls.name),
                node=cls.node,
                stmt="signature of %s hidden" % cls.name,
            )
    chk.floor(rule, n, 11)


# ------------------------------------------------------------------ O4.4 leaf flags
def s_factories(prog):
    out = []
    for fi in prog.functions.values():
        if fi.name != "s" or fi.cls is None:
            continue
        for n in ast.walk(fi.node):
            if isinstance(n, ast.Return) and isinstance(n.value, ast.Call) and prog.resolve(fi.module, n.value.func) == PARTIAL:
                out.append((fi, n.value))
    return sorted(out, key=lambda x: x[0].qual)


def takes_target(prog, cls):
    init = prog.lookup_method(cls, "__init__")
    if init is None:
        return False
    a = init.node.args
    pos = [x.arg for x in a.posonlyargs + a.args][1:]
    return bool(pos) and pos[0] == "target"


def leaf_flags(chk):
    prog = chk.program
    rule = "O4.4"
    facs = s_factories(prog)
    chk.floor(rule, len(facs), 4)
    for fi, call in facs:
        # the factory only builds the template: what is acceptable is decided by the template's check alone
        for n in ast.walk(fi.node):
            if isinstance(n, ast.Raise):
                chk.bad(rule, fi.qual, "%s rejects arguments on its own (%s): arguments the constructor accepts -- and that the same template accepts when they are supplied by a later call -- are refused here" % (fi.name, util.unparse(n)[:80]), node=n, stmt="factory-own-raise")
        leaf = None
        for kw in call.keywords:
            if kw.arg == "__leaf__":
                v = kw.value
                if not isinstance(v, ast.Constant):
                    mc = prog.module_constant(prog.resolve(fi.module, v)) if isinstance(v, (ast.Name, ast.Attribute)) else None
                    v = mc[1] if mc is not None else v  # a named module-level constant (LEAF = True)
                if isinstance(v, ast.Constant):
                    leaf = bool(v.value)
        if leaf is None:
            chk.undecided(rule, fi.qual, "__leaf__ is not a literal", node=call)
            continue
        ctor = call.args[0] if call.args else None
        if ctor is None:
            chk.undecided(rule, fi.qual, "Partial() without constructor", node=call)
            continue
        classes = []
        if isinstance(ctor, ast.Name) and fi.is_classmethod and ctor.id == fi.node.args.args[0].arg:
            # cls: every class that inherits this factory (no nearer `s` in its MRO)
            for c in prog.classes.values():
                if fi.cls.qual in c.mro:
                    owner = None
                    for q in c.mro:
                        k = prog.classes.get(q)
                        if k is not None and "s" in k.methods:
                            owner = k
                            break
                    if owner is fi.cls:
                        classes.append(c)
        else:
            r = prog.resolve(fi.module, ctor)
            if r in prog.classes:
                classes.append(prog.classes[r])
            elif isinstance(ctor, ast.Name) and ctor.id == "self":
                chk.bad(
                    rule,
                    fi.qual,
                    "the template's constructor is the factory object itself: arguments are then checked against (and later passed to) its __call__ signature instead of the controller's constructor, so positional rule arguments are misbound or rejected",
                    node=call,
                    stmt="ctor-is-self",
                )
                continue
            else:
                chk.undecided(rule, fi.qual, "constructor %s of the template does not resolve to a class" % util.unparse(ctor), node=call)
                continue
        bad = False
        for c in sorted(classes, key=lambda c: c.qual):
            init = prog.lookup_method(c, "__init__")
            if init is None:
                continue
            chk.count()
            tt = takes_target(prog, c)
            if tt and leaf:
                bad = True
                chk.bad(
                    rule,
                    fi.qual,
                    "templates of %s are marked __leaf__=True although its constructor takes `target` first (%s): the eager check binds the first "
                    "stored argument to `target`, arguments that can never bind are accepted, and in tail position the template is constructed without a target"
                    % (c.name, ", ".join(fn_params(init.node))),
                    node=call,
                    stmt="__leaf__=True for %s" % c.name,
                )
            elif not tt and not leaf:
                bad = True
                chk.bad(
                    rule,
                    fi.qual,
                    "templates of %s are marked __leaf__=False although its constructor takes no target (%s): a placeholder target is bound to its first parameter"
                    % (c.name, ", ".join(fn_params(init.node))),
                    node=call,
                    stmt="__leaf__=False for %s" % c.name,
                )
        if not bad:
            chk.ok(rule, fi.qual, "__leaf__=%s agrees with the constructors of %s" % (leaf, [c.name for c in classes]), node=call)


# ------------------------------------------------------------------ O4.1 / O4.2 / O4.5
def partial_core(chk):
    prog = chk.program
    cls = prog.cls(PARTIAL)
    init = prog.method(PARTIAL, "__init__")
    check = None
    # the signature check = the own method called from __init__ that (transitively) reaches bind_partial
    def reaches_bind(f, seen=()):
        if any(isinstance(n, ast.Attribute) and n.attr in ("bind_partial", "bind") for n in ast.walk(f.node)):
            return True
        for n in ast.walk(f.node):
            if isinstance(n, ast.Call) and isinstance(n.func, ast.Attribute) and util.dotted(n.func.value) == "self":
                g = prog.lookup_method(cls, n.func.attr)
                if g is not None and g.qual not in seen and g is not f and reaches_bind(g, seen + (f.qual,)):
                    return True
        return False

    for n in ast.walk(init.node):
        if isinstance(n, ast.Call) and isinstance(n.func, ast.Attribute) and util.dotted(n.func.value) == "self":
            g = prog.lookup_method(cls, n.func.attr)
            if g is not None and reaches_bind(g):
                check = g
    if check is None:
        # a module-level function of the same module that is handed the template:  _check_signature(self)
        for n in ast.walk(init.node):
            if isinstance(n, ast.Call) and isinstance(n.func, ast.Name) and n.args and util.dotted(n.args[0]) == "self":
                r = prog.resolve(init.module, n.func)
                g = prog.functions.get(r) if r else None
                if g is not None and g.cls is None and reaches_bind(g):
                    check = g
    if check is None:
        for fis in cls.methods.values():
            for fi in fis:
                if fi.name != "__init__" and reaches_bind(fi):
                    check = check or fi
    if check is None:
        raise Undecided("no signature check (a function reaching Signature.bind_partial) is called from Partial.__init__", init.node)
    # Partial(ctor, *args, __leaf__, **kwargs) and template(*args, **kwargs): every other NAMED parameter captures a
    # keyword argument of that name that the user means for the element (`!Logger {name: ...}`, `Ctrl.s(name=...)`)
    for fn_name, allowed_kwonly in (("__init__", ("__leaf__",)), ("__call__", ())):
        f = prog.lookup_method(cls, fn_name)
        if f is None or f.cls is not cls:
            continue
        a = f.node.args
        named = [x.arg for x in (a.posonlyargs + a.args)][(2 if fn_name == "__init__" else 1):] + [x.arg for x in a.kwonlyargs if x.arg not in allowed_kwonly]
        chk.count()
        if named and a.kwarg is not None:
            chk.bad(
                "O4.1",
                f.qual,
                "Partial.%s takes the named parameter(s) %s besides (%s*args, %s**kwargs): a keyword argument of that name meant for the element's constructor is captured by the template and the element is built without it" % (fn_name, named, "ctor, " if fn_name == "__init__" else "", "__leaf__, " if fn_name == "__init__" else ""),
                node=f.node,
                stmt="template-signature-shadows %s" % ",".join(named),
            )

    def is_check_call(e):
        if e[0] != "call":
            return False
        if check.cls is not None:
            return e[1][1] == ("attr", SELF, check.name)
        return e[1][1] == ("glob", check.qual) and list(e[1][2])[:1] == [SELF]

    # O4.1a: __init__ reaches the check on every path
    it = Interp(prog, init)
    outs = it.run()
    chk.count(len(outs))
    ok = True
    for o in outs:
        if o.kind in ("normal", "return"):
            calls = [e for e in o.path.events if is_check_call(e)]
            if not calls:
                chk.bad("O4.1", init.qual, "a Partial can be constructed without running the signature check (%s)" % check.name, node=init.node, stmt="init-skips-check")
                ok = False
            stores = {e[1][2]: e[2] for e in o.path.events if e[0] == "store" and e[1][1] == SELF}
            first_check = min([i for i, e in enumerate(o.path.events) if is_check_call(e)] or [10**6])
            for i, e in enumerate(o.path.events):
                if e[0] == "store" and e[1][1] == SELF and i > first_check and e[1][2] in ("args", "kwargs", "ctor", "leaf"):
                    chk.bad("O4.1", init.qual, "self.%s is assigned after the signature check ran" % e[1][2], node=init.node, stmt="store-after-check")
                    ok = False
            want = {"ctor": ("sym", "ctor"), "args": ("sym", "args"), "kwargs": ("sym", "kwargs"), "leaf": ("sym", "__leaf__")}
            for k, v in want.items():
                if stores.get(k) != v:
                    chk.bad("O4.1", init.qual, "self.%s is stored as %s instead of the constructor argument" % (k, show(stores.get(k)) if k in stores else "nothing"), node=init.node, stmt="store-%s" % k)
                    ok = False
    # O4.1b: currying builds a new Partial: stored positionals before new ones, duplicate-rejecting keyword merge
    call = prog.method(PARTIAL, "__call__")
    it = Interp(prog, call)
    outs = it.run()
    chk.count(len(outs))
    A, K = ("attr", SELF, "args"), ("attr", SELF, "kwargs")
    for o in outs:
        if o.kind != "return":
            chk.bad("O4.1", call.qual, "currying does not return a template", node=call.node, stmt="curry-no-return")
            ok = False
            continue
        t = o.value
        if not (t[0] == "call" and t[1] == ("glob", PARTIAL)):
            if t == SELF:
                chk.bad("O4.1", call.qual, "currying mutates and returns the template itself: the original template changes and the new arguments are not re-checked", node=call.node, stmt="curry-mutates")
            else:
                chk.bad("O4.1", call.qual, "currying returns %s instead of a new, re-checked Partial" % show(strip_sites(t)), node=call.node, stmt="curry-not-partial")
            ok = False
            continue
        pos = list(t[2])
        want_pos = [("attr", SELF, "ctor"), ("star", A), ("star", ("sym", "args"))]
        if pos != want_pos:
            if pos == [("attr", SELF, "ctor"), ("star", ("sym", "args")), ("star", A)]:
                chk.bad("O4.1", call.qual, "currying puts the NEW positional arguments before the stored ones: argument order is not the order given", node=call.node, stmt="curry-order")
            else:
                chk.bad("O4.1", call.qual, "currying passes positionals %s (required: ctor, *stored, *new)" % [show(a) for a in pos], node=call.node, stmt="curry-positionals")
            ok = False
        kws = list(t[3])
        leaf = [v for n, v in kws if n == "__leaf__"]
        if leaf != [("attr", SELF, "leaf")]:
            chk.bad("O4.1", call.qual, "currying does not carry the leaf flag over (__leaf__=%s)" % [show(v) for v in leaf], node=call.node, stmt="curry-leaf")
            ok = False
        stars = [v for n, v in kws if n is None]
        if sorted(map(repr, stars)) != sorted(map(repr, [K, ("sym", "kwargs")])):
            merged = [v for v in stars if v[0] == "dict" or (v[0] == "call" and v[1] == ("glob", "ext:builtins.dict"))]
            if merged:
                chk.bad("O4.1", call.qual, "keywords are merged through %s before the call: a keyword given twice silently overrides the earlier value instead of being rejected with TypeError" % show(strip_sites(merged[0])), node=call.node, stmt="curry-kw-merge")
            else:
                chk.bad("O4.1", call.qual, "currying passes keyword expansions %s (required: **stored, **new in one call, which rejects duplicates)" % [show(v) for v in stars], node=call.node, stmt="curry-keywords")
            ok = False
    if ok:
        chk.ok("O4.1", cls.qual, "every construction runs the check; currying returns Partial(ctor, *stored, *new, __leaf__=leaf, **stored, **new)", node=init.node)

    # O4.2 the check itself
    check_signature_rules(chk, check)

    # O4.5 __construct__
    cons = prog.method(PARTIAL, "__construct__")
    it = Interp(prog, cons)
    outs = it.run()
    chk.count(len(outs))
    ok = True
    for o in outs:
        if o.kind != "return":
            chk.bad("O4.5", cons.qual, "__construct__ does not return the constructed object", node=cons.node, stmt="no-return")
            ok = False
            continue
        t = o.value
        if not (t[0] == "call" and t[1] == ("attr", SELF, "ctor")):
            chk.bad("O4.5", cons.qual, "__construct__ calls %s instead of the stored constructor" % show(t[1]) if t[0] == "call" else "__construct__ returns %s" % show(t), node=cons.node, stmt="wrong-ctor")
            ok = False
            continue
        pos = list(t[2])
        if pos != [("star", ("sym", "args")), ("star", A)]:
            if pos == [("star", A), ("star", ("sym", "args"))]:
                chk.bad("O4.5", cons.qual, "the stored positionals are passed BEFORE the incoming ones: the target is not the first constructor argument", node=cons.node, stmt="construct-order")
            else:
                chk.bad("O4.5", cons.qual, "constructor positionals are %s (required: *incoming (the target), *stored)" % [show(a) for a in pos], node=cons.node, stmt="construct-positionals")
            ok = False
        stars = [v for n, v in t[3] if n is None]
        if sorted(map(repr, stars)) != sorted(map(repr, [K, ("sym", "kwargs")])) or any(n is not None for n, _v in t[3]):
            chk.bad("O4.5", cons.qual, "constructor keywords are %s (required: **incoming, **stored)" % [("%s=" % n if n else "**") + show(v) for n, v in t[3]], node=cons.node, stmt="construct-keywords")
            ok = False
    if ok:
        chk.ok("O4.5", cons.qual, "ctor(*incoming, *stored, **incoming, **stored): the target comes first", node=cons.node)


def check_signature_rules(chk, check):
    prog = chk.program
    rule = "O4.2"
    name = check.qual
    A, K = ("attr", SELF, "args"), ("attr", SELF, "kwargs")
    ok = True
    scen = 0
    for target_kw in (True, False):
        for leaf in (True, False):
            for bind_fails in (False, True):

                def decide(it, path, term, target_kw=target_kw, leaf=leaf):
                    if term[0] == "cmp" and term[1] == "in" and term[2] == ("const", "target"):
                        return target_kw
                    if term in (("attr", SELF, "leaf"), ("truthy", ("attr", SELF, "leaf"))):
                        return leaf
                    if term[0] == "call" and term[1] == ISINSTANCE:
                        return False  # first positional is not a pool
                    if term in (A, ("truthy", A)):
                        return True
                    return None

                def hook(it, path, ct, node, bind_fails=bind_fails):
                    if ct[0] == "call" and ct[1][0] == "attr" and ct[1][2] in ("bind_partial", "bind"):
                        if bind_fails:
                            return [("raise", exc_value(TYPEERROR, "bind"))]
                    return None

                it = Interp(prog, check, decide=decide, call_hook=hook, inline=lambda f, ct: f.cls is check.cls and f is not check and (f.cls is not None or f.module is check.module))
                # a module-level check receives the template as its first parameter: read it as `self`
                outs = it.run() if check.cls is not None else it.run(env={("sym", check.params()[0]): SELF})
                chk.count(len(outs))
                scen += 1
                label = "target keyword %s, leaf %s, binding %s" % (target_kw, leaf, "fails" if bind_fails else "succeeds")
                for o in outs:
                    binds = [e for e in o.path.events if e[0] == "call" and e[1][1][0] == "attr" and e[1][1][2] in ("bind_partial", "bind")]
                    if target_kw:
                        if not (o.kind == "raise" and o.value[1] == TYPEERROR):
                            chk.bad(rule, name, "passing `target` by keyword is not rejected with TypeError (%s)" % o.kind, node=check.node, stmt="target-not-rejected", input=label)
                            ok = False
                        elif binds:
                            chk.bad(rule, name, "`target` is only rejected after binding was attempted", node=check.node, stmt="target-late", input=label)
                            ok = False
                        continue
                    if len(binds) != 1:
                        chk.bad(rule, name, "the check binds the arguments %d times on a path" % len(binds), node=check.node, stmt="bind-count", input=label)
                        ok = False
                        continue
                    ct = binds[0][1]
                    if ct[1][2] == "bind":
                        chk.bad(rule, name, "the check uses Signature.bind, which rejects templates whose required arguments are supplied later", node=check.node, stmt="bind-not-partial", input=label)
                        ok = False
                    sigsrc = ct[1][1]
                    if not (sigsrc[0] == "call" and sigsrc[2] and sigsrc[2][0] == ("attr", SELF, "ctor")):
                        chk.bad(rule, name, "the signature is taken from %s, not from the template's constructor" % show(strip_sites(sigsrc)), node=check.node, stmt="sig-source", input=label)
                        ok = False
                    elif len(sigsrc[2]) != 1 or any(not (kk == "follow_wrapped" and vv == ("const", True)) for kk, vv in sigsrc[3]):
                        # the signature a caller sees is the one inspect reports by default: options (follow_wrapped=False, ...) make
                        # the check look at something else, e.g. (*args, **kwargs) of a functools.wraps wrapper -- a vacuous check
                        chk.bad(rule, name, "the constructor's signature is taken with options (%s): the check is made against another signature than the one the constructor is called with (a constructor behind a functools.wraps decorator is then checked against (*args, **kwargs))" % show(strip_sites(sigsrc)), node=check.node, stmt="sig-options", input=label)
                        ok = False
                    pos = list(ct[2])
                    flat = []
                    for a in pos:
                        if a[0] == "star" and a[1][0] == "tuple":
                            flat.extend(a[1][1])
                        else:
                            flat.append(a)
                    placeholders = [a for a in flat if a[0] != "star"]
                    rest = [a for a in flat if a[0] == "star"]
                    if rest != [("star", A)]:
                        chk.bad(rule, name, "the stored positionals are not what is bound: %s" % [show(a) for a in flat], node=check.node, stmt="bind-args", input=label)
                        ok = False
                    want = 0 if leaf else 1
                    if len(placeholders) != want or (placeholders and flat[0][0] == "star"):
                        chk.bad(
                            rule,
                            name,
                            "with leaf=%s the check binds %d placeholder(s) for the target (required: %d, in first position)" % (leaf, len(placeholders), want),
                            node=check.node,
                            stmt="placeholder-%s" % leaf,
                            input=label,
                        )
                        ok = False
                    stars = [v for n, v in ct[3] if n is None]
                    if stars != [K]:
                        chk.bad(rule, name, "the stored keywords are not what is bound: %s" % [show(v) for _n, v in ct[3]], node=check.node, stmt="bind-kwargs", input=label)
                        ok = False
                    if bind_fails:
                        if not (o.kind == "raise" and o.value[1] == TYPEERROR):
                            chk.bad(rule, name, "a binding failure does not surface as TypeError (path ends: %s %s)" % (o.kind, show(o.value) if o.value else ""), node=check.node, stmt="bind-failure-swallowed", input=label)
                            ok = False
                    else:
                        if o.kind == "raise":
                            chk.bad(rule, name, "arguments that bind are rejected with %s" % show(o.value), node=check.node, stmt="bindable-rejected", input=label)
                            ok = False
    if ok:
        chk.ok(rule, name, "rejects `target` before binding; bind_partial(ctor signature) with one leading placeholder iff not leaf; failures re-raised as TypeError", node=check.node, input="%d scenarios" % scen)


# ------------------------------------------------------------------ O4.6 / O4.7 / O4.8
KINDS = {
    "bind": ({BIND}, None),
    "leaf-template": ({PARTIAL}, True),
    "nonleaf-template": ({PARTIAL}, False),
    "pool": ({util.POOL}, None),
    "other-object": (set(), None),
}


def seq_options(kind, base):
    """acceptable flattened element sequences an operand of this kind stands for"""
    if kind == "bind":
        return [[("attr", base, "parent"), ("star", ("attr", base, "targets"))], [base]]
    return [[base]]


def rshift_rules(chk):
    prog = chk.program
    results = {"O4.6": True, "O4.7": True, "O4.8": True}
    n_bind_sites = 0
    for clsq, selfkind in ((PARTIAL, "nonleaf-template"), (BIND, "bind")):
        fi = prog.method(clsq, "__rshift__")
        name = fi.qual
        for kind, (isa, leaf) in KINDS.items():

            def decide(it, path, term, isa=isa, leaf=leaf):
                if term[0] == "call" and term[1] == ISINSTANCE and len(term[2]) == 2 and term[2][0] == OTHER:
                    c = term[2][1]
                    names = [c] if c[0] != "tuple" else list(c[1])
                    return any(n[0] == "glob" and n[1] in isa for n in names)
                if term in (("attr", OTHER, "leaf"), ("truthy", ("attr", OTHER, "leaf"))):
                    return leaf if leaf is not None else None
                return None

            it = Interp(prog, fi, decide=decide, unroll=2, inline=lambda f, ct, fi=fi: f.cls is fi.cls and not f.name.startswith("__"))
            outs = it.run()
            chk.count(len(outs))
            label = "%s >> %s" % (selfkind, kind)
            for o in outs:
                if o.kind != "return":
                    chk.bad("O4.6", name, "%s does not return (%s)" % (label, o.kind), node=fi.node, stmt="no-return %s" % label, input=label)
                    results["O4.6"] = False
                    continue
                t = o.value
                # --- leaf template: constructed exactly once, then treated as the pool (O4.8)
                if kind == "leaf-template":
                    cons = [e for e in o.path.events if e[0] == "call" and e[1][1] == ("attr", OTHER, "__construct__")]
                    if len(cons) != 1 or cons[0][1][2] or cons[0][1][3]:
                        chk.bad("O4.8", name, "%s: the leaf template is constructed %d times%s (required: exactly once, without a target)" % (label, len(cons), " with arguments" if cons and (cons[0][1][2] or cons[0][1][3]) else ""), node=fi.node, stmt="leaf-construct %s" % label, input=label)
                        results["O4.8"] = False
                        continue
                    if not (t[0] == "binop" and t[1] == ">>" and t[2] == SELF and t[3] == cons[0][1]):
                        chk.bad("O4.8", name, "%s: the constructed pool is not bound as `self >> pool` but %s" % (label, show(strip_sites(t))), node=fi.node, stmt="leaf-rebind %s" % label, input=label)
                        results["O4.8"] = False
                    continue
                # --- deferred binding: PartialBind(...) must preserve the flattened order (O4.6)
                if t[0] == "call" and t[1] == ("glob", BIND):
                    n_bind_sites += 1
                    got = list(t[2])
                    if t[3]:
                        chk.undecided("O4.6", name, "%s: PartialBind built with keywords" % label, node=fi.node)
                        results["O4.6"] = False
                        continue
                    if kind in ("pool", "other-object") and selfkind == "nonleaf-template":
                        chk.bad("O4.6", name, "%s builds a deferred binding instead of constructing the element" % label, node=fi.node, stmt="defer %s" % label, input=label)
                        results["O4.6"] = False
                        continue
                    wants = []
                    for a in seq_options(selfkind, SELF):
                        for b in seq_options(kind, OTHER):
                            wants.append(a + b)
                    # the constructor signature is (parent, *targets): self's own sequence must be expanded
                    wants = [w for w in wants if not (selfkind == "bind" and w[0] == SELF)]
                    if got not in wants:
                        chk.bad(
                            "O4.6",
                            name,
                            "%s builds PartialBind(%s): the flattened element order is not seq(self) ++ seq(other) = %s (an element is permuted, dropped or duplicated)"
                            % (label, ", ".join(show(a) for a in got), " | ".join("(" + ", ".join(show(x) for x in w) + ")" for w in wants)),
                            node=fi.node,
                            stmt="bind-order %s" % label,
                            input=label,
                        )
                        results["O4.6"] = False
                    continue
                # --- concrete binding
                if selfkind == "nonleaf-template":
                    want = ("call", ("attr", SELF, "__construct__"), (OTHER,), ())
                    if strip_sites(t) != want:
                        if kind in ("pool", "other-object"):
                            chk.bad("O4.6", name, "%s returns %s instead of constructing self with the right operand as its target" % (label, show(strip_sites(t))), node=fi.node, stmt="construct %s" % label, input=label)
                        else:
                            chk.bad("O4.6", name, "%s binds immediately (%s): binding must be deferred until a pool arrives" % (label, show(strip_sites(t))), node=fi.node, stmt="eager %s" % label, input=label)
                        results["O4.6"] = False
                    continue
                # PartialBind >> pool : right-to-left fold (O4.7)
                if kind != "pool":
                    chk.bad("O4.6", name, "%s binds immediately (%s): only a pool may trigger binding" % (label, show(strip_sites(t))), node=fi.node, stmt="eager %s" % label, input=label)
                    results["O4.6"] = False
                    continue
                fold_ok = check_fold(chk, name, fi, o, t, label)
                results["O4.7"] &= fold_ok
    chk.floor("O4.6", n_bind_sites, 3)
    if results["O4.6"]:
        chk.ok("O4.6", PARTIAL + "/" + BIND, "every PartialBind(...) built by >> has the flattened sequence seq(self) ++ seq(other); pools and plain objects construct immediately", input="2 receivers x 5 operand kinds")
    if results["O4.7"]:
        chk.ok("O4.7", BIND + ".__rshift__", "pool branch: last target bound first, remaining targets in reverse, parent last and returned")
    if results["O4.8"]:
        chk.ok("O4.8", PARTIAL + "/" + BIND, "a leaf template as right operand is constructed exactly once via __construct__() and then bound as the pool")


def check_fold(chk, name, fi, o, t, label):
    """t = parent >> (t[0] >> (... >> (t[-1] >> other)))  built by a reverse loop"""
    TG = ("attr", SELF, "targets")
    PARENT = ("attr", SELF, "parent")
    iters = len([e for e in o.path.events if e[0] == "loop-iter"])
    if not (t[0] == "binop" and t[1] == ">>" and t[2] == PARENT):
        chk.bad("O4.7", name, "%s: the result is %s; the parent must be bound last and its result returned" % (label, show(strip_sites(t))), node=fi.node, stmt="fold-parent", input=label)
        return False
    acc = t[3]
    red = strip_sites(acc)
    if red[0] == "call" and red[1] == ("glob", "ext:functools.reduce") and len(red[2]) == 3:
        f, src, init0 = red[2]
        body_ok = f[0] == "lambda" and len(f[1]) == 2 and f[2] == ("binop", ">>", ("bound", f[1][1]), ("bound", f[1][0]))
        layers_, base = iteration_layers(src)
        init_ok = init0 == ("binop", ">>", ("sub", TG, ("const", -1)), OTHER)
        if body_ok and init_ok and layers_.count("reversed") % 2 == 1 and base == ("sub", TG, ("slice", ("const", None), ("const", -1), ("const", None))):
            return True  # reduce(lambda bound, owner: owner >> bound, reversed(targets[:-1]), targets[-1] >> pool)
        chk.bad("O4.7", name, "%s: the fold %s does not bind the last target first and the remaining ones in reverse" % (label, show(red)), node=fi.node, stmt="fold-reduce", input=label)
        return False
    layers = []
    while acc[0] == "binop" and acc[1] == ">>":
        layers.append(acc[2])
        acc = acc[3]
    if acc != OTHER:
        chk.bad("O4.7", name, "%s: the innermost binding does not end in the pool but in %s" % (label, show(strip_sites(acc))), node=fi.node, stmt="fold-pool", input=label)
        return False
    if not layers:
        chk.bad("O4.7", name, "%s: no target is bound to the pool" % label, node=fi.node, stmt="fold-empty", input=label)
        return False
    innermost = layers[-1]
    last_forms = [("sub", TG, ("const", -1))]
    if innermost not in last_forms:
        chk.bad("O4.7", name, "%s: the pool is first bound to %s instead of the LAST target" % (label, show(innermost)), node=fi.node, stmt="fold-first", input=label)
        return False
    outer = layers[:-1]  # outermost first
    if len(outer) != iters:
        chk.bad("O4.7", name, "%s: %d loop iterations but %d bindings" % (label, iters, len(outer)), node=fi.node, stmt="fold-count", input=label)
        return False
    # every layer is an item of the same reversed iterable; outermost = last iteration
    rest_forms = [("sub", TG, ("slice", ("const", None), ("const", -1), ("const", None)))]
    for k, layer in enumerate(reversed(outer)):
        if layer[0] != "item" or layer[2] != k:
            chk.bad("O4.7", name, "%s: binding %d uses %s, not the loop item" % (label, k, show(layer)), node=fi.node, stmt="fold-item", input=label)
            return False
        src = layer[1]
        if src[0] == "sub" and src[1] == TG and src[2][0] == "slice" and src[2][3] == ("const", -1) and src[2][1] == ("const", -2) and src[2][2] == ("const", None):
            continue  # targets[-2::-1]
        layers, src = iteration_layers(src)
        if layers.count("reversed") % 2 != 1:
            chk.bad(
                "O4.7",
                name,
                "%s: the remaining targets are bound in FORWARD order (%s): the chain a >> b >> c >> pool is nested as b(a(c(pool))) instead of a(b(c(pool)))" % (label, show(layer[1])),
                node=fi.node,
                stmt="fold-forward",
                input=label,
            )
            return False
        if src not in rest_forms:
            chk.bad("O4.7", name, "%s: the loop ranges over %s instead of the targets before the last" % (label, show(src)), node=fi.node, stmt="fold-range", input=label)
            return False
    return True


def construct_failures_pass(chk):
    """O4.9: binding an element calls its constructor exactly like the hand-written nesting does -- an exception the constructor
    raises reaches the caller unchanged: no handler around a construct / ctor call or a >> binding in the template module
    swallows or translates it"""
    prog = chk.program
    rule = "O4.9"
    mod = prog.cls(PARTIAL).module
    n = 0
    ok = True
    for t in ast.walk(mod.tree):
        if not isinstance(t, ast.Try):
            continue
        builds = [c for st in t.body for c in ast.walk(st) if (isinstance(c, ast.Call) and isinstance(c.func, ast.Attribute) and c.func.attr in ("__construct__", "ctor")) or (isinstance(c, ast.BinOp) and isinstance(c.op, ast.RShift))]
        if not builds:
            continue
        n += 1
        chk.count()
        for h in t.handlers:
            raises = [r for st in h.body for r in ast.walk(st) if isinstance(r, ast.Raise)]
            same = raises and all(r.exc is None or (isinstance(r.exc, ast.Name) and r.exc.id == h.name and r.cause is None) for r in raises) and isinstance(h.body[-1], ast.Raise)
            if not same:
                fi = prog.enclosing_function(mod, t)
                chk.bad(rule, fi.qual if fi else mod.name, "a handler (`except %s`) around %s does not pass the constructor's own exception on unchanged: binding a chain fails differently from nesting the constructors by hand (e.g. an AssertionError / ValueError of an element surfaces as another type or not at all)" % (util.unparse(h.type) if h.type else "<bare>", util.unparse(builds[0])[:50]), node=h, stmt="construct-failure-translated")
                ok = False
    if ok:
        chk.ok(rule, mod.name, "%d try blocks around a construct call / >> binding, each handler re-raises the same exception" % n)


def run(chk):
    chk.guard("O4.9", PARTIAL, construct_failures_pass, chk)
    chk.guard("O4.1", PARTIAL, partial_core, chk)
    chk.guard("O4.3", "<template classes>", signature_visibility, chk)
    chk.guard("O4.4", "<.s factories>", leaf_flags, chk)
    chk.guard("O4.6", PARTIAL, rshift_rules, chk)
