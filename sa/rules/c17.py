"""C17 -- monitoring output is well-formed and lossless (line protocol escaping, JSON merge order)."""
import ast

from .. import util
from ..interp import Interp, Path, show, subterms, strip_sites, NONE
from .. import slots
from ..report import Undecided

LINE = "cobald.monitor.format_line:line_protocol"
LINE_FMT = "cobald.monitor.format_line:LineProtocolFormatter"
JSON_FMT = "cobald.monitor.format_json:JsonFormatter"

# the oracle: InfluxDB line protocol escaping table (external, fixed)
REQUIRED = {
    "measurement": {",", " "},
    "tag key": {",", "=", " "},
    "tag value": {",", "=", " "},
    "field key": {",", "=", " "},
    "string field value": {'"', "\\"},
}
STR = ("glob", "ext:builtins.str")
ISINSTANCE = ("glob", "ext:builtins.isinstance")


_PROG = {}


def _translate_table(tab):
    """the {char: replacement} literal behind  x.translate(<module constant = str.maketrans({...})>), or None"""
    prog = _PROG.get("prog")
    node = None
    if tab[0] == "glob" and prog is not None and ":" in tab[1]:
        mname, _, nm = tab[1].partition(":")
        mod = prog.modules.get(mname)
        d = mod.defs.get(nm) if mod is not None else None
        if isinstance(d, ast.Assign):
            node = d.value
    if isinstance(node, ast.Call) and util.dotted(node.func) in ("str.maketrans",) and len(node.args) == 1 and isinstance(node.args[0], ast.Dict):
        out = []
        for k, v in zip(node.args[0].keys, node.args[0].values):
            if not (isinstance(k, ast.Constant) and isinstance(k.value, str) and len(k.value) == 1 and isinstance(v, ast.Constant) and isinstance(v.value, str)):
                return None
            out.append((k.value, v.value))
        return out
    return None


def peel_replace(t):
    """t = base.replace(a1,b1).replace(a2,b2)... -> (base, [(a1,b1),(a2,b2)...]) in application order;
    base.translate(str.maketrans({c: r, ...})) is one simultaneous pass: the same pairs, backslash first"""
    chain = []
    while t[0] == "call" and t[1][0] == "attr" and ((t[1][2] == "replace" and len(t[2]) >= 2) or (t[1][2] == "translate" and len(t[2]) == 1)):
        if t[1][2] == "translate":
            pairs = _translate_table(strip_sites(t[2][0]))
            if pairs is None:
                break
            pairs = sorted(pairs, key=lambda ab: ab[0] != "\\")
            chain.extend(reversed(pairs))
            t = t[1][1]
            continue
        a, b = t[2][0], t[2][1]
        chain.append((a[1] if a[0] == "const" else None, b[1] if b[0] == "const" else None))
        t = t[1][1]
    chain.reverse()
    return t, chain


def is_rewrite(t):
    """a character-level rewrite of its receiver / argument: replace, translate, re.sub, casefold..."""
    if t[0] == "call" and t[1][0] == "attr" and t[1][2] in ("replace", "translate", "strip", "lower", "upper", "title", "casefold", "lstrip", "rstrip", "expandtabs"):
        return t[1][1]
    if t[0] == "call" and t[1][0] == "glob" and t[1][1] in ("ext:re.sub", "ext:re.subn") and len(t[2]) >= 3:
        return t[2][2]
    return None


def coerced(t):
    """str(x) / '%s' % x / format(x) / f'{x}' -> x ; else None"""
    if t[0] == "call" and t[1] in (STR, ("glob", "ext:builtins.format"), ("glob", "ext:builtins.repr")) and len(t[2]) == 1:
        return t[2][0]
    if t[0] == "binop" and t[1] == "%" and t[2] == ("const", "%s"):
        return t[3][1][0] if t[3][0] == "tuple" and len(t[3][1]) == 1 else t[3]
    if t[0] == "fstr" and len(t[1]) == 1 and not isinstance(t[1][0], str):
        return t[1][0]
    return None


def check_chain(chk, rule, name, position, chain, node):
    """the replace chain escapes every character the position requires, each as backslash + char"""
    need = REQUIRED[position]
    ok = True
    escaped = {}
    for i, (a, b) in enumerate(chain):
        if a is None or b is None:
            chk.undecided(rule, name, "%s: non-literal replace arguments" % position, node=node)
            return False
        if b == "\\" + a:
            escaped[a] = i
        elif a == "\\" and b == "\\\\":
            escaped[a] = i
        else:
            chk.bad(rule, name, "%s: replace(%r, %r) is not a line-protocol escape (backslash + the character)" % (position, a, b), node=node, stmt="%s:%r->%r" % (position, a, b))
            ok = False
    missing = need - set(escaped)
    if missing:
        chk.bad(
            rule,
            name,
            "%s: the special character(s) %s are not escaped (line protocol requires %s at this position)" % (position, sorted(missing), sorted(need)),
            node=node,
            stmt="%s missing %s" % (position, sorted(missing)),
            input="text containing %s" % sorted(missing),
        )
        ok = False
    extra = set(escaped) - need
    if extra:
        chk.bad(
            rule,
            name,
            "%s: the character(s) %s are escaped although the line protocol defines no escape for them at this position (only %s): "
            "a standard parser keeps the backslash, so the decoded text differs from the reported one" % (position, sorted(extra), sorted(need)),
            node=node,
            stmt="%s over-escapes %s" % (position, sorted(extra)),
            input="text containing %s" % sorted(extra),
        )
        ok = False
    if position == "string field value" and '"' in escaped and "\\" in escaped and escaped["\\"] > escaped['"']:
        chk.bad(rule, name, "string field value: the quote is escaped before the backslash, so the escaping backslash is doubled afterwards", node=node, stmt="escape-order")
        ok = False
    if position != "string field value" and "\\" in escaped:
        # escaping backslashes outside string fields is harmless only if done first
        if any(escaped["\\"] > i for c, i in escaped.items() if c != "\\"):
            chk.bad(rule, name, "%s: backslash is escaped after the other characters: their escaping backslashes are doubled" % position, node=node, stmt="escape-order")
            ok = False
    return ok


def split_format(elt):
    """'%s=%s' % (K, V) | f'{K}={V}' | K + '=' + V  -> (K, V) or None"""
    if elt[0] == "binop" and elt[1] == "%" and elt[2][0] == "const" and elt[3][0] == "tuple" and len(elt[3][1]) == 2:
        if elt[2][1] == "%s=%s":
            return elt[3][1]
        return None
    if elt[0] == "fstr" and len(elt[1]) == 3 and elt[1][1] == "=":
        return elt[1][0], elt[1][2]
    if elt[0] == "binop" and elt[1] == "+" and elt[2][0] == "binop" and elt[2][1] == "+" and elt[2][3] == ("const", "="):
        return elt[2][2], elt[3]
    return None


def unquote(v):
    """'"' + X + '"' -> X"""
    if v[0] == "binop" and v[1] == "+" and v[3] == ("const", '"') and v[2][0] == "binop" and v[2][1] == "+" and v[2][2] == ("const", '"'):
        return v[2][3]
    if v[0] == "fstr" and len(v[1]) == 3 and v[1][0] == '"' and v[1][2] == '"':
        return v[1][1]
    if v[0] == "binop" and v[1] == "%" and v[2] == ("const", '"%s"'):
        return v[3][1][0] if v[3][0] == "tuple" else v[3]
    return None


def line_protocol_rules(chk):
    prog = chk.program
    _PROG["prog"] = prog
    fi = prog.func(LINE)
    name = fi.qual
    mod = fi.module
    params = fi.params()
    for need in ("name", "tags", "fields", "timestamp"):
        if need not in params:
            raise Undecided("line_protocol has no parameter %r" % need, fi.node)

    pkg = mod.name.rpartition(".")[0]

    def inline(f, ct):
        # helpers of the module, also when they live in a sibling module of the package and are imported back
        return f.cls is None and not f.is_async and (f.module is mod or f.module.name.rpartition(".")[0] == pkg)

    key_names, value_names = set(), set()
    for f in [fi] + [g for g in prog.functions.values() if g.module is mod and g.cls is None]:
        for n in ast.walk(f.node):
            for g in getattr(n, "generators", []) or []:
                if isinstance(g.target, ast.Tuple) and len(g.target.elts) == 2 and all(isinstance(e, ast.Name) for e in g.target.elts):
                    key_names.add(g.target.elts[0].id)
                    value_names.add(g.target.elts[1].id)
    results = {}
    seen = {"measurement": 0, "tag key": 0, "tag value": 0, "field key": 0, "string field value": 0, "plain field value": 0}
    verdict = {"O17.1": True, "O17.2": True, "O17.3": True, "O17.4": True}
    for tag_is_str in (True, False):
        for field_is_str in (True, False):
            for ts in (True, False):

                def decide(it, path, term, tag_is_str=tag_is_str, field_is_str=field_is_str, ts=ts):
                    if term[0] == "call" and term[1] == ISINSTANCE and len(term[2]) == 2 and term[2][1] == STR:
                        x = term[2][0]
                        # the result of a text method of a text is text:  key.replace(...).replace(...)
                        while x[0] == "call" and x[1][0] == "attr" and x[1][2] in Interp.STR_TO_STR:
                            inner = decide(it, path, ("call", ISINSTANCE, (x[1][1], STR), (), 0))
                            if inner is not True:
                                break
                            return True
                        if coerced(x) is not None or (x[0] == "call" and x[1] == STR):
                            return True
                        if (x[0] == "bound" and x[1] in key_names and x[1] not in value_names) or x == ("sym", "name"):
                            return True
                        # which collection is being rendered: the last .items() call on the path
                        for e in reversed(path.events):
                            if e[0] == "call" and e[1][1][0] == "attr" and e[1][1][2] == "items":
                                src = e[1][1][1]
                                if src == ("sym", "tags"):
                                    return tag_is_str
                                if src == ("sym", "fields"):
                                    return field_is_str
                        return None
                    if term == ("isnone", ("sym", "timestamp")):
                        return not ts
                    if term == ("sym", "tags") or term == ("truthy", ("sym", "tags")):
                        return True
                    return None

                it = Interp(prog, fi, decide=decide, inline=inline, assert_raises=False)
                outs = it.run()
                chk.count(len(outs))
                label = "tag value %s, field value %s, timestamp %s" % ("str" if tag_is_str else "non-str", "str" if field_is_str else "non-str", "given" if ts else "None")
                for o in outs:
                    if o.kind == "raise":
                        # an assertion / error while formatting: which position?
                        ev = [e for e in o.path.events if e[0] == "raise"]
                        if not tag_is_str:
                            chk.bad(
                                "O17.3",
                                name,
                                "a non-string tag value is handed to the key escape un-coerced and raises %s instead of being rendered as text" % show(o.value),
                                node=fi.node,
                                stmt="tag-value-uncoerced",
                                input=label,
                            )
                            verdict["O17.3"] = False
                        else:
                            chk.bad("O17.1", name, "formatting raises %s" % show(o.value), node=fi.node, input=label, stmt="raises")
                            verdict["O17.1"] = False
                        continue
                    if o.kind != "return":
                        chk.bad("O17.1", name, "line_protocol does not return a value on some path", node=fi.node, input=label, stmt="no-return")
                        verdict["O17.1"] = False
                        continue
                    analyse_output(chk, name, fi, o, label, tag_is_str, field_is_str, ts, seen, verdict)
    for pos, floor in (("measurement", 1), ("tag key", 1), ("tag value", 1), ("field key", 1), ("string field value", 1), ("plain field value", 1)):
        if seen[pos] < floor:
            chk.undecided("O17.1", name, "position %r was not located in the output term" % pos, node=fi.node)
            verdict["O17.1"] = False
    if verdict["O17.1"]:
        chk.ok("O17.1", name, "escape coverage holds at all five syntactic positions (positions seen: %s)" % seen, node=fi.node)
    if verdict["O17.2"]:
        chk.ok("O17.2", name, "no character rewrite is applied to text after it has been escaped / assembled", node=fi.node)
    if verdict["O17.3"]:
        chk.ok("O17.3", name, "tag values are coerced to text before escaping; non-string field values are rendered by formatting", node=fi.node)
    if verdict["O17.4"]:
        chk.ok("O17.4", name, "timestamp rendered as integer nanoseconds iff given; line ends with a newline", node=fi.node)


def _flatten_concat(t):
    if t[0] == "binop" and t[1] == "+":
        return _flatten_concat(t[2]) + _flatten_concat(t[3])
    return [t]


def analyse_output(chk, name, fi, o, label, tag_is_str, field_is_str, ts, seen, verdict):
    out = o.value
    parts = _flatten_concat(out)
    # O17.2 on the whole output: nothing rewrites the assembled line
    if is_rewrite(out) is not None:
        chk.bad("O17.2", name, "the assembled line is rewritten by %s" % show(out[1]), node=fi.node, stmt="rewrite-line")
        verdict["O17.2"] = False
        return
    if parts[-1] != ("const", "\n"):
        chk.bad("O17.4", name, "the record does not end in exactly one newline (last part: %s)" % show(parts[-1]), node=fi.node, stmt="newline", input=label)
        verdict["O17.4"] = False
    # measurement
    base, chain = peel_replace(parts[0])
    if base == ("sym", "name"):
        seen["measurement"] += 1
        if not check_chain(chk, "O17.1", name, "measurement", chain, fi.node):
            verdict["O17.1"] = False
    else:
        chk.undecided("O17.1", name, "output does not start with the escaped measurement name: %s" % show(parts[0]), node=fi.node)
        verdict["O17.1"] = False
    ts_parts = []
    for p in parts[1:]:
        if p[0] == "const":
            continue
        # ",".join(<comp>)
        if p[0] == "call" and p[1][0] == "attr" and p[1][2] == "join" and p[1][1] == ("const", ",") and p[2] and p[2][0][0] == "comp":
            comp = p[2][0]
            src = None
            for g in comp[3]:
                for s in subterms(g[1]):
                    if s in (("sym", "tags"), ("sym", "fields")):
                        src = s[1]
                sortd = g[1][0] == "call" and g[1][1] == ("glob", "ext:builtins.sorted")
            if src is None:
                chk.undecided("O17.1", name, "joined comprehension over an unknown source: %s" % show(comp), node=fi.node)
                verdict["O17.1"] = False
                continue
            elt = comp[2]
            while True:
                inner = is_rewrite(elt)
                if inner is None:
                    break
                base, chain = peel_replace(elt)
                chk.bad(
                    "O17.2",
                    name,
                    "the finished `key=value` text of a %s is rewritten by .%s%s after escaping: characters inside already-escaped values are changed "
                    "(e.g. a single quote in a string value becomes an unescaped double quote)" % ("tag" if src == "tags" else "field", elt[1][2], tuple(show(a) for a in elt[2])),
                    node=fi.node,
                    stmt="rewrite-after-escape %s %s" % (src, [show(a) for a in elt[2]]),
                    input=label,
                )
                verdict["O17.2"] = False
                elt = inner
            kv = split_format(elt)
            if kv is None:
                chk.undecided("O17.1", name, "element of the %s list is not a key=value assembly: %s" % (src, show(elt)), node=fi.node)
                verdict["O17.1"] = False
                continue
            K, V = kv
            if V[0] == "call" and V[1] == STR and len(V[2]) == 1 and V[2][0][0] != "bound" and src != "tags":
                V = V[2][0]  # str() of an already rendered field value is the identity
            kpos = "tag key" if src == "tags" else "field key"
            kb, kchain = peel_replace(K)
            kb2 = coerced(kb) or kb
            if kb2[0] != "bound":
                chk.undecided("O17.1", name, "%s is not an escaped loop variable: %s" % (kpos, show(K)), node=fi.node)
                verdict["O17.1"] = False
            else:
                seen[kpos] += 1
                if not check_chain(chk, "O17.1", name, kpos, kchain, fi.node):
                    verdict["O17.1"] = False
            if src == "tags":
                vb, vchain = peel_replace(V)
                seen["tag value"] += 1
                if not check_chain(chk, "O17.1", name, "tag value", vchain, fi.node):
                    verdict["O17.1"] = False
                c = coerced(vb)
                if c is None and vb[0] == "bound":
                    if not tag_is_str:
                        chk.bad(
                            "O17.3",
                            name,
                            "tag values reach the escape un-coerced (str.replace on a non-string value): non-string tag values are not rendered as text",
                            node=fi.node,
                            stmt="tag-value-uncoerced",
                            input=label,
                        )
                        verdict["O17.3"] = False
                elif c is None:
                    chk.undecided("O17.3", name, "tag value origin not recognised: %s" % show(vb), node=fi.node)
                    verdict["O17.3"] = False
            else:
                inner = unquote(V)
                if field_is_str:
                    if inner is None:
                        # maybe not quoted at all
                        vb, vchain = peel_replace(V)
                        chk.bad("O17.1", name, "string field values are not wrapped in double quotes: %s" % show(V), node=fi.node, stmt="unquoted-string-field", input=label)
                        verdict["O17.1"] = False
                    else:
                        vb, vchain = peel_replace(inner)
                        seen["string field value"] += 1
                        if vb[0] != "bound":
                            chk.undecided("O17.1", name, "string field value origin not recognised: %s" % show(vb), node=fi.node)
                            verdict["O17.1"] = False
                        elif not check_chain(chk, "O17.1", name, "string field value", vchain, fi.node):
                            verdict["O17.1"] = False
                else:
                    if V[0] == "bound" or (coerced(V) or ("x",))[0] == "bound":
                        seen["plain field value"] += 1
                    else:
                        chk.bad("O17.1", name, "a non-string field value is transformed before rendering: %s" % show(V), node=fi.node, stmt="nonstr-field-transformed", input=label)
                        verdict["O17.1"] = False
            continue
        ts_parts.append(p)
    # O17.4 timestamp part
    if ts:
        good = False
        for p in ts_parts:
            x = None
            if p[0] == "binop" and p[1] == "%" and p[2][0] == "const" and p[2][1] in (" %d", " %i"):
                x = p[3][1][0] if p[3][0] == "tuple" and len(p[3][1]) == 1 else p[3]
            elif p[0] == "call" and p[1] == STR and len(p[2]) == 1 and p[2][0][0] == "call" and p[2][0][1] == ("glob", "ext:builtins.int"):
                x = p[2][0]  # " " + str(int(timestamp * 1e9))
            if x is not None:
                if x[0] == "call" and x[1] == ("glob", "ext:builtins.int") and len(x[2]) == 1:
                    x = x[2][0]
                if x[0] == "binop" and x[1] == "*" and ("sym", "timestamp") in (x[2], x[3]):
                    k = x[3] if x[2] == ("sym", "timestamp") else x[2]
                    if k[0] == "const" and k[1] in (1e9, 10**9):
                        good = True
                        if parts[parts.index(p) - 1] != ("const", " ") and not (p[0] == "binop" and p[1] == "%"):
                            chk.bad("O17.4", name, "the timestamp is not separated from the fields by a single space", node=fi.node, stmt="timestamp-separator")
                            verdict["O17.4"] = False
                    else:
                        chk.bad("O17.4", name, "timestamp scaled by %s instead of 1e9 (seconds -> nanoseconds)" % show(k), node=fi.node, stmt="timestamp-scale")
                        verdict["O17.4"] = False
                        good = True
        if not good:
            if not ts_parts:
                chk.bad("O17.4", name, "a given timestamp is not written to the record", node=fi.node, stmt="timestamp-dropped", input=label)
            else:
                chk.bad("O17.4", name, "timestamp is not rendered as integer nanoseconds: %s" % [show(p) for p in ts_parts], node=fi.node, stmt="timestamp-format", input=label)
            verdict["O17.4"] = False
    else:
        if ts_parts:
            chk.bad("O17.4", name, "a timestamp part is written although no timestamp was given: %s" % [show(p) for p in ts_parts], node=fi.node, stmt="timestamp-none", input=label)
            verdict["O17.4"] = False


SELF = ("sym", "self")


def as_dict_comp(t):
    """{k: v for ...}  ==  dict((k, v) for ...)  ==  a generator / list of (k, v) pairs handed to dict.update"""
    if t is None:
        return t
    if t[0] == "call" and t[1] == ("glob", "ext:builtins.dict") and len(t[2]) == 1 and not t[3]:
        t = t[2][0]
    if t[0] == "comp" and t[1] in ("gen", "list", "set") and t[2][0] == "tuple" and len(t[2][1]) == 2:
        return ("comp", "dict", t[2], t[3])
    return t


def _line_slots_by_use(prog, cls):
    """the three attributes by what format() does with them: tags start as a copy of <defaults>; a record key is a tag iff
    `key in <whitelist>`; it is a field iff `key not in <blacklist>`"""
    fmt = prog.lookup_method(cls, "format")
    if fmt is None:
        return {}
    alias = {}
    for t, v in util.simple_assignments(fmt.node):
        if isinstance(t, ast.Name) and slots._self_attr(v):
            alias.setdefault(t.id, set()).add(slots._self_attr(v))

    def attr_of(e):
        if slots._self_attr(e):
            return slots._self_attr(e)
        if isinstance(e, ast.Name) and len(alias.get(e.id, ())) == 1:
            return next(iter(alias[e.id]))
        return None

    out = {}
    for n in ast.walk(fmt.node):
        if isinstance(n, ast.Compare) and len(n.ops) == 1 and isinstance(n.ops[0], (ast.In, ast.NotIn)) and attr_of(n.comparators[0]):
            out.setdefault("whitelist" if isinstance(n.ops[0], ast.In) else "blacklist", attr_of(n.comparators[0]))
    for t, v in util.simple_assignments(fmt.node):
        if isinstance(t, ast.Name) and t.id == "tags":
            src = None
            if isinstance(v, ast.Call) and isinstance(v.func, ast.Attribute) and v.func.attr == "copy":
                src = attr_of(v.func.value)
            elif isinstance(v, ast.Call) and util.dotted(v.func) == "dict" and v.args:
                src = attr_of(v.args[0])
            elif isinstance(v, ast.Dict) and v.keys and v.keys[0] is None:
                src = attr_of(v.values[0])
            if src:
                out.setdefault("defaults", src)
    return out


def line_slots(prog):
    cls = prog.cls(LINE_FMT)
    used = _line_slots_by_use(prog, cls)
    if {"defaults", "whitelist", "blacklist"} <= set(used):
        return {"resolution": slots.attr_from_param(prog, cls, "resolution"), **used}
    return {
        "resolution": slots.attr_from_param(prog, cls, "resolution"),
        "defaults": slots.attr_from_expr(prog, cls, lambda v, t: "Mapping" in t and "tags" in t and "set(" not in t, "default tags"),
        "whitelist": slots.attr_from_expr(prog, cls, lambda v, t: "tags" in t and "RECORD_ATTRIBUTES" not in t and ("set(" in t or any(isinstance(x, (ast.SetComp, ast.Set)) for x in ast.walk(v))), "tag whitelist"),
        "blacklist": slots.attr_from_expr(prog, cls, lambda v, t: "RECORD_ATTRIBUTES" in t, "field blacklist"),
    }


def json_slots(prog):
    cls = prog.cls(JSON_FMT)
    fmt = prog.lookup_method(cls, "format")
    add_time = None
    for n in ast.walk(fmt.node):
        if isinstance(n, ast.If) and any(isinstance(x, ast.Subscript) and isinstance(x.ctx, ast.Store) and isinstance(x.slice, ast.Constant) and x.slice.value == "time" for b in n.body for x in ast.walk(b)):
            t = n.test
            if isinstance(t, ast.Attribute) and isinstance(t.value, ast.Name) and t.value.id == "self":
                add_time = t.attr
    return {
        "defaults": slots.attr_from_expr(prog, cls, lambda v, t: "fmt" in t and "datefmt" not in t, "default data"),
        "add_time": add_time or "_add_time",
    }


def line_formatter_rules(chk):
    prog = chk.program
    LS = line_slots(prog)
    cls = prog.cls(LINE_FMT)
    fmt = prog.lookup_method(cls, "format")
    init = prog.lookup_method(cls, "__init__")
    if fmt is None or init is None:
        chk.missing("O17.5", cls.qual, "format/__init__ missing")
        return
    name = fmt.qual
    rule = "O17.5"
    ok = True

    def decide(it, path, term):
        if term[0] == "cmp" and term[1] == "==" and any(x[0] == "tuple" for x in (term[2], term[3])):
            return False  # `args == ({},)`: the record carries a real mapping
        return None

    loop_paths = {}
    has_record_loop = any(isinstance(n, ast.For) and "items" in util.unparse(n.iter) for n in ast.walk(fmt.node))
    for res_none in (False, True):

        def decide2(it, path, term, res_none=res_none):
            if term == ("isnone", ("attr", SELF, LS["resolution"])):
                return res_none
            return decide(it, path, term)

        it = Interp(prog, fmt, decide=decide2, inline=lambda f, ct: not f.is_async and ((f.cls is cls and f is not fmt) or (f.cls is None and f.module.name.startswith(cls.module.name.rpartition(".")[0]) and f.name.startswith("_"))))
        outs = it.run()
        chk.count(len(outs))
        for o in outs:
            if o.kind != "return":
                continue
            call = o.value
            if not (call[0] == "call" and call[1] == ("glob", LINE)):
                chk.undecided(rule, name, "format does not return line_protocol(...): %s" % show(call), node=fmt.node)
                ok = False
                continue
            kw = dict(call[3])
            lp = prog.func(LINE).params()
            for i, a in enumerate(call[2]):
                kw[lp[i]] = a
            # measurement name is the record's message
            msg = kw.get("name")
            if msg != ("attr", ("sym", "record"), "message") and not (msg and msg[0] in ("call", "attr")):
                chk.bad(rule, name, "measurement name is %s, not the record's message" % show(msg), node=fmt.node, stmt="name")
                ok = False
            # tags: defaults, overridden by whitelisted record keys
            evs = o.path.events
            tags = kw.get("tags")
            fields = kw.get("fields")
            iters = [e for e in evs if e[0] == "loop-iter"]
            if iters or has_record_loop:
                # loop idiom: for key, value in args.items(): if key in whitelist: tags[key] = value  elif key not in blacklist: fields[key] = value
                if len(iters) != 1:
                    continue
                binds = [e[2] for e in evs if e[0] == "bind" and e[2][0] == "proj" and e[2][1][0] == "item"]
                if len(binds) < 2 or "items" not in show(binds[0][1][1]):
                    chk.undecided(rule, name, "record loop is not `for key, value in args.items()`", node=fmt.node)
                    ok = False
                    continue
                key, value = [b for b in binds if b[2] == 0][0], [b for b in binds if b[2] == 1][0]
                W = o.path.facts.get(("cmp", "in", key, ("attr", SELF, LS["whitelist"])))
                B = o.path.facts.get(("cmp", "in", key, ("attr", SELF, LS["blacklist"])))
                to_tags = [e for e in evs if e[0] == "store" and e[1] == ("sub", tags, key)]
                to_fields = [e for e in evs if e[0] == "store" and e[1] == ("sub", fields, key)]
                dest = "tags" if to_tags else ("fields" if to_fields else "dropped")
                if (to_tags and to_tags[0][2] != value) or (to_fields and to_fields[0][2] != value):
                    chk.bad(rule, name, "a record item is stored with a changed value", node=fmt.node, stmt="split-value")
                    ok = False
                want = "tags" if W is True else ("fields" if (W is False and B is False) else ("dropped" if (W is False and B is True) else None))
                if want is None:
                    chk.undecided(rule, name, "the tag/field decision does not test the whitelist and the blacklist (facts: whitelist %s, blacklist %s)" % (W, B), node=fmt.node)
                    ok = False
                elif dest != want:
                    chk.bad(rule, name, "a record key that is %s the whitelist and %s the blacklist goes to %s (required: %s)" % ("in" if W else "not in", "in" if B else "not in", dest, want), node=fmt.node, stmt="split-decision", input="whitelist %s, blacklist %s" % (W, B))
                    ok = False
                if not (tags is not None and tags[0] == "call" and tags[1][0] == "attr" and tags[1][2] == "copy" and tags[1][1] == ("attr", SELF, LS["defaults"])):
                    if tags == ("attr", SELF, LS["defaults"]):
                        chk.bad(rule, name, "the formatter's shared default-tag mapping itself is used as the record's tags: tag values of one record leak into the defaults of all later records", node=fmt.node, stmt="default-tags-not-copied")
                    else:
                        chk.undecided(rule, name, "tags do not start from a copy of the default tags: %s" % show(tags), node=fmt.node)
                    ok = False
                loop_paths["n"] = loop_paths.get("n", 0) + 1
                loop_paths.setdefault("seen", set()).add((W, B))
                # O17.4 timestamp term (same as below)
                tsv = kw.get("timestamp")
                created = ("attr", ("sym", "record"), "created")
                res = ("attr", SELF, LS["resolution"])
                want_ts = ("binop", "*", ("binop", "//", created, res), res)
                alt_ts = ("binop", "-", created, ("binop", "%", created, res))
                if res_none and tsv != NONE:
                    chk.bad("O17.4", name, "with resolution None the timestamp is %s instead of being omitted" % show(tsv), node=fmt.node, stmt="ts-none")
                    ok = False
                if not res_none and tsv not in (want_ts, alt_ts):
                    chk.bad("O17.4", name, "the record time is %s, not the time rounded down to the resolution (created // r * r)" % show(tsv), node=fmt.node, stmt="ts-floor")
                    ok = False
                continue
            upd = [e for e in evs if e[0] == "call" and e[1][1][0] == "attr" and e[1][1][2] == "update" and e[1][1][1] == tags]
            tags_ok = False
            if tags is not None and tags[0] == "call" and tags[1][0] == "attr" and tags[1][2] == "copy" and tags[1][1] == ("attr", SELF, LS["defaults"]) and len(upd) == 1:
                comp = as_dict_comp(upd[0][1][2][0]) if upd[0][1][2] else None
                if comp and comp[0] == "comp" and comp[1] == "dict":
                    conds = [c for g in comp[3] for c in g[2]]
                    if len(conds) == 1 and conds[0][0] == "cmp" and conds[0][1] == "in" and conds[0][3] == ("attr", SELF, LS["whitelist"]):
                        tags_ok = True
                    elif len(conds) == 1 and conds[0][0] == "cmp" and conds[0][1] == "not in":
                        chk.bad(rule, name, "tags are the record keys NOT in the whitelist", node=fmt.node, stmt="tags-inverted")
                        ok = False
                        tags_ok = True
                    if comp[2][0] == "tuple" and comp[2][1][0] != ("bound", "key") and comp[2][1][0][0] == "bound" and comp[2][1][1][0] == "bound" and comp[2][1][0][1] == "value":
                        chk.bad(rule, name, "tag comprehension swaps key and value", node=fmt.node, stmt="tags-swapped")
                        ok = False
            elif tags is not None and tags[0] == "dict":
                # {**defaults, **record} merge: defaults first
                srcs = [show(v) for k, v in tags[1] if k is None]
                if len(srcs) == 2 and LS["defaults"] in srcs[0]:
                    tags_ok = True
                elif len(srcs) == 2 and LS["defaults"] in srcs[1]:
                    chk.bad(rule, name, "default tags override the record's values (merge order)", node=fmt.node, stmt="tags-order")
                    ok = False
                    tags_ok = True
            if not tags_ok and tags == ("attr", SELF, LS["defaults"]):
                muts = [e for e in evs if (e[0] == "store" and e[1][0] == "sub" and e[1][1] == tags) or (e[0] == "call" and e[1][1][0] == "attr" and e[1][1][1] == tags and e[1][1][2] in ("update", "setdefault", "pop", "clear"))]
                chk.bad(
                    rule,
                    name,
                    "the formatter's shared default-tag mapping itself is used as the record's tags%s: tag values of one record leak into the defaults of all later records" % (" and written to" if muts else ""),
                    node=fmt.node,
                    stmt="default-tags-not-copied",
                )
                ok = False
                tags_ok = True
            if not tags_ok:
                # known-bad: record first, defaults applied over it
                if tags is not None and any(e[1][2] and show(e[1][2][0]).endswith(LS["defaults"]) for e in upd):
                    chk.bad(rule, name, "default tags are applied over the record's values", node=fmt.node, stmt="tags-order")
                    ok = False
                else:
                    # known-bad: the per-key copy loop sits INSIDE one try whose handler swallows the lookup error -- the first
                    # whitelisted key a record does not report ends the loop, and the keys after it are never taken
                    swallowed_loop = None
                    for t in ast.walk(fmt.node):
                        if isinstance(t, ast.Try) and any(isinstance(b, (ast.For, ast.While)) for b in t.body):
                            for h in t.handlers:
                                if all(isinstance(b, ast.Pass) or (isinstance(b, ast.Expr) and isinstance(b.value, ast.Constant)) for b in h.body):
                                    swallowed_loop = (t, h)
                    if swallowed_loop is not None:
                        t, h = swallowed_loop
                        chk.bad(rule, name, "the loop that copies the whitelisted keys runs inside ONE try whose `except %s: pass` ends it at the first key a record does not report: the whitelisted keys after it keep their defaults and the values the record does report for them are dropped (not emitted as fields either)" % (util.unparse(h.type) if h.type else ""), node=t, stmt="tags-loop-aborted-by-handler")
                        ok = False
                        return
                    chk.undecided(rule, name, "tag assembly idiom not recognised: %s" % show(tags), node=fmt.node)
                    ok = False
            fields = as_dict_comp(fields)
            if fields is not None and fields[0] == "comp" and fields[1] == "dict":
                conds = [c for g in fields[3] for c in g[2]]
                if not (len(conds) == 1 and conds[0][0] == "cmp" and conds[0][1] == "not in" and conds[0][3] == ("attr", SELF, LS["blacklist"])):
                    chk.bad(rule, name, "fields are not filtered by `key not in <whitelist + record attributes>`: %s" % [show(c) for c in conds], node=fmt.node, stmt="fields-filter")
                    ok = False
            else:
                chk.undecided(rule, name, "field assembly idiom not recognised: %s" % show(fields), node=fmt.node)
                ok = False
            # O17.4 timestamp term
            tsv = kw.get("timestamp")
            created = ("attr", ("sym", "record"), "created")
            res = ("attr", SELF, LS["resolution"])
            want = ("binop", "*", ("binop", "//", created, res), res)
            alt = ("binop", "-", created, ("binop", "%", created, res))
            if res_none:
                if tsv != NONE:
                    chk.bad("O17.4", name, "with resolution None the timestamp is %s instead of being omitted" % show(tsv), node=fmt.node, stmt="ts-none")
                    ok = False
            else:
                if tsv not in (want, alt):
                    chk.bad("O17.4", name, "the record time is %s, not the time rounded down to the resolution (created // r * r)" % show(tsv), node=fmt.node, stmt="ts-floor")
                    ok = False
    if loop_paths and loop_paths.get("seen") != {(True, None), (False, False), (False, True)} and not {(True, None), (False, False), (False, True)} <= loop_paths.get("seen", set()):
        chk.undecided(rule, name, "loop idiom: only the decisions %s were explored" % sorted(loop_paths.get("seen", ()), key=repr), node=fmt.node)
        ok = False
    # __init__: blacklist = whitelist | record attributes
    ok_bl = False
    for st in ast.walk(init.node):
        if isinstance(st, ast.Assign) and isinstance(st.targets[0], ast.Attribute) and st.targets[0].attr == LS["blacklist"]:
            txt = util.unparse(st.value)
            v = st.value
            is_union = (isinstance(v, ast.BinOp) and isinstance(v.op, ast.BitOr)) or (
                isinstance(v, ast.Call) and isinstance(v.func, ast.Attribute) and v.func.attr == "union" and (v.args or isinstance(v.func.value, ast.Call))
            ) or (isinstance(v, ast.Set) and all(isinstance(e, ast.Starred) for e in v.elts) and len(v.elts) == 2)
            # the whitelist may be named through the local that is stored into the whitelist attribute
            wl_locals = {val.id for tg, val in util.simple_assignments(init.node) if isinstance(val, ast.Name) and isinstance(tg, ast.Attribute) and tg.attr == LS["whitelist"] and len([1 for t2, _v2 in util.simple_assignments(init.node) if isinstance(t2, ast.Name) and t2.id == val.id]) == 1}
            names_wl = LS["whitelist"] in txt or any(isinstance(x, ast.Name) and x.id in wl_locals for x in ast.walk(v))
            if names_wl and "RECORD_ATTRIBUTES" in txt and is_union:
                ok_bl = True
            else:
                chk.bad(rule, init.qual, "the field blacklist is %s (required: whitelist united with the log-record attribute names)" % txt, node=st)
                ok = False
                ok_bl = True
    if not ok_bl:
        chk.undecided(rule, init.qual, "field blacklist construction not found", node=init.node)
        ok = False
    if ok:
        chk.ok(rule, name, "tags = defaults overridden by whitelisted record keys; fields = record keys outside whitelist and record attributes; time floored to the resolution", node=fmt.node)


def json_rules(chk):
    prog = chk.program
    JS = json_slots(prog)
    cls = prog.cls(JSON_FMT)
    fmt = prog.lookup_method(cls, "format")
    rule = "O17.6"
    if fmt is None:
        chk.missing(rule, cls.qual)
        return
    name = fmt.qual
    ok = True
    for add_time in (True, False):

        def decide(it, path, term, add_time=add_time):
            if term in (("attr", SELF, JS["add_time"]), ("truthy", ("attr", SELF, JS["add_time"]))):
                return add_time
            if term[0] == "cmp" and term[1] == "==" and any(x == ("attr", ("sym", "record"), "args") or x[0] == "sym" for x in (term[2], term[3])) and any(x[0] == "tuple" for x in (term[2], term[3])):
                return False
            return None

        it = Interp(prog, fmt, decide=decide, inline=lambda f, ct: not f.is_async and ((f.cls is not None and f.cls is fmt.cls and f is not fmt) or (f.cls is None and f.module.name.startswith(fmt.module.name.rpartition(".")[0]) and f.name.startswith("_"))))
        outs = it.run()
        chk.count(len(outs))
        for o in outs:
            if o.kind != "return":
                chk.bad(rule, name, "format does not return on a path (%s)" % o.kind, node=fmt.node, stmt="no-return")
                ok = False
                continue
            v = o.value
            if not (v[0] == "call" and v[1] == ("glob", "ext:json.dumps") and v[2]):
                chk.bad(rule, name, "format returns %s instead of one json.dumps of the merged mapping" % show(v), node=fmt.node, stmt="not-dumps")
                ok = False
                continue
            opts = {k_: v_ for k_, v_ in v[3] if k_}
            lossy = [k_ for k_ in ("sort_keys", "skipkeys") if k_ in opts and opts[k_] != ("const", False)]
            if lossy:
                # a record's mapping may have non-string keys next to the always-present "message": sorting mixed keys raises
                # TypeError (the record is lost), skipkeys drops them silently
                chk.bad(rule, name, "json.dumps is called with %s: a payload or default with a non-string key (int, float, bool, None) next to the string keys %s" % (", ".join("%s=%s" % (k_, show(opts[k_])) for k_ in lossy), "cannot be ordered -- TypeError, the record is lost" if "sort_keys" in lossy else "is dropped from the output"), node=fmt.node, stmt="dumps-%s" % "-".join(lossy))
                ok = False
                continue
            data = v[2][0]
            order = []
            for e in o.path.events:
                if e[0] == "store" and e[1][0] == "sub" and e[1][1] == data and e[1][2][0] == "const":
                    order.append(e[1][2][1])
                elif e[0] == "call" and e[1][1][0] == "attr" and e[1][1][1] == data and e[1][1][2] == "update":
                    a = e[1][2][0] if e[1][2] else None
                    argname = [ev[1] for ev in o.path.events if ev[0] == "bind" and ev[2] == ("attr", ("sym", "record"), "args")]
                    argsval = o.path.env.get(("sym", argname[0] if argname else "args"))
                    order.append("update(args)" if (a is not None and a == argsval) else "update(%s)" % show(a))
            origin = show(data)
            want = (["time"] if add_time else []) + ["message", "update(args)"]
            if not (data[0] == "call" and data[1][0] == "attr" and data[1][2] == "copy" and data[1][1] == ("attr", SELF, JS["defaults"])) and not (data[0] == "call" and data[1] == ("glob", "ext:builtins.dict")):
                if JS["defaults"] in origin and "copy" not in origin:
                    chk.bad(rule, name, "the record is merged into the shared defaults mapping itself (no copy): data leaks between records", node=fmt.node, stmt="defaults-not-copied")
                else:
                    chk.undecided(rule, name, "origin of the merged mapping not recognised: %s" % origin, node=fmt.node)
                ok = False
            if order != want:
                chk.bad(
                    rule,
                    name,
                    "JSON merge order is defaults, %s (required: defaults, %s -- later ones override earlier ones)" % (", ".join(order) or "nothing", ", ".join(want)),
                    node=fmt.node,
                    stmt="merge-order",
                    input="time %s" % ("enabled" if add_time else "disabled"),
                )
                ok = False
    if ok:
        chk.ok(rule, name, "defaults.copy(), then time (iff enabled), then message, then update(args); one json.dumps of that mapping is returned", node=fmt.node)


def formatter_configuration(chk):
    prog = chk.program
    LS, JS = line_slots(prog), json_slots(prog)
    # ---- JSON: the time is added unless a false, non-None datefmt disables it
    rule = "O17.7"
    cls = prog.cls(JSON_FMT)
    init = prog.lookup_method(cls, "__init__")
    DF = ("attr", SELF, "datefmt")
    got = {}
    for kind in ("none", "falsy", "truthy"):

        def decide(it, path, term, kind=kind):
            if term == ("isnone", DF):
                return kind == "none"
            if term in (DF, ("truthy", DF)):
                return kind == "truthy"
            if term[0] == "call" and term[1] == ISINSTANCE:
                return True
            if term[0] in ("attr", "truthy") and JS["defaults"] in show(term):
                return True
            return None

        for o in Interp(prog, init, decide=decide).run():
            chk.count()
            if o.kind not in ("normal", "return"):
                continue
            st = [e[2] for e in o.path.events if e[0] == "store" and e[1] == ("attr", SELF, JS["add_time"])]
            if not st:
                continue
            v = st[-1]
            t = Interp(prog, init, decide=decide).truth(v, o.path)
            if t is None and v[0] == "call" and v[1] == ("glob", "ext:builtins.bool") and len(v[2]) == 1:
                t = Interp(prog, init, decide=decide).truth(v[2][0], o.path)
            got[kind] = t
    want = {"none": True, "falsy": False, "truthy": True}
    if not got:
        chk.undecided(rule, init.qual, "the time switch of the JSON formatter is not set in __init__", node=init.node)
    elif got != want:
        bad = {k: got.get(k) for k in want if got.get(k) != want[k]}
        chk.bad(rule, init.qual, "the time is %s for datefmt %s (documented: the default None and every true format add the time, only a false non-None value disables it)" % (", ".join("added" if v else ("undetermined" if v is None else "omitted") for v in bad.values()), "/".join(bad)), node=init.node, stmt="add-time %s" % sorted(bad), input="datefmt partition none/falsy/truthy")
    else:
        chk.ok(rule, init.qual, "time added for datefmt None or true, omitted for a false non-None datefmt", node=init.node, input="datefmt partition none/falsy/truthy")
    # ---- line protocol: whitelist and default tags derived from the `tags` argument
    rule = "O17.5"
    cls = prog.cls(LINE_FMT)
    init = prog.lookup_method(cls, "__init__")
    TAGS = ("sym", "tags")
    MAPPING = ("glob", "ext:collections.abc.Mapping")
    ok = True
    for kind in ("none", "mapping", "iterable"):

        def decide(it, path, term, kind=kind):
            if term == ("isnone", TAGS):
                return kind == "none"
            if term[0] == "call" and term[1] == ISINSTANCE and term[2][0] == TAGS:
                return kind == "mapping"
            if term in (TAGS, ("truthy", TAGS)):
                return None if kind != "none" else False
            return None

        for o in Interp(prog, init, decide=decide).run():
            chk.count()
            if o.kind not in ("normal", "return"):
                continue
            if any(e[0] in ("branch", "fork") and e[-1] == "forked" for e in o.path.events):
                continue  # truthiness forks of `tags` (e.g. `tags or {}`) are explored separately
            st = {e[1][2]: strip_sites(e[2]) for e in o.path.events if e[0] == "store" and e[1][1] == SELF}
            d, w = st.get(LS["defaults"]), st.get(LS["whitelist"])
            empty = lambda x: x in (("dict", ()), ("call", ("glob", "ext:builtins.dict"), (), ()), ("call", ("glob", "ext:builtins.set"), (), ()), ("call", ("glob", "ext:builtins.frozenset"), (), ()), ("set", ()))  # noqa: E731
            if w and w[0] == "call" and w[1] == ("glob", "ext:builtins.frozenset"):
                w = ("call", ("glob", "ext:builtins.set")) + tuple(w[2:])  # membership only: frozenset is the same whitelist
            want_d = TAGS if kind == "mapping" else None
            want_w = ("call", ("glob", "ext:builtins.set"), (TAGS,), ()) if kind != "none" else None
            if (want_d is None and not empty(d)) or (want_d is not None and d not in (want_d, ("call", ("glob", "ext:builtins.dict"), (TAGS,), ()))):
                chk.bad(rule, init.qual, "with tags given as %s the default tags are %s" % (kind, show(d) if d else "unset"), node=init.node, stmt="default-tags %s" % kind, input=kind)
                ok = False
            if (want_w is None and not empty(w)) or (want_w is not None and w not in (want_w, ("call", ("glob", "ext:builtins.set"), (("call", ("attr", TAGS, "keys"), (), ()),), ()))):
                chk.bad(rule, init.qual, "with tags given as %s the tag whitelist is %s (required: the keys of a mapping / the items of an iterable)" % (kind, show(w) if w else "unset"), node=init.node, stmt="whitelist %s" % kind, input=kind)
                ok = False
    if ok:
        chk.ok(rule, init.qual, "whitelist = set(tags) for mappings and iterables; defaults = the mapping itself, else empty", node=init.node, input="tags None / mapping / iterable")


def empty_payload(chk):
    """O17.8: `logger.info(msg, {})` reaches the formatter as record.args == ({},) (logging only unwraps a NON-empty
    mapping); both formatters must continue with an empty mapping, or the record with no data is lost"""
    prog = chk.program
    rule = "O17.8"
    for qual in (LINE_FMT, JSON_FMT):
        cls = prog.cls(qual)
        fmt = prog.lookup_method(cls, "format")
        if fmt is None:
            chk.missing(rule, qual)
            continue
        rec = ("sym", fmt.params()[0])
        ARGS = ("attr", rec, "args")
        hit = {"n": 0}

        def decide(it, path, term):
            if term[0] == "cmp" and term[1] == "==" and ARGS in (term[2], term[3]) and any(x[0] == "tuple" for x in (term[2], term[3])):
                hit["n"] += 1
                return True
            return None

        outs = Interp(prog, fmt, decide=decide, unroll=1, assert_raises=False, inline=lambda f, ct: (f.cls is cls and f is not fmt) or (f.cls is None and not f.is_async and f.module.name.startswith(cls.module.name.rpartition(".")[0]) and f.name.startswith("_"))).run()
        chk.count(len(outs))
        if not hit["n"] and any((isinstance(n, ast.Call) and util.dotted(n.func) == "isinstance" and "tuple" in util.unparse(n)) or (isinstance(n, ast.Subscript) and "args" in util.unparse(n.value)) for n in ast.walk(fmt.node)):
            chk.undecided(rule, fmt.qual, "the empty-payload case is not written as a comparison with ({},)", node=fmt.node, aux=True)
            continue
        if not hit["n"]:
            # no special case: fine only if the code never needs args to be a mapping -- not the shipped shape
            chk.bad(rule, fmt.qual, "the formatter has no case for record.args == ({},): a record logged with an empty mapping is treated as a tuple of arguments and fails to format", node=fmt.node, stmt="empty-payload-case")
            continue
        ok = True
        for o in outs:
            if o.kind == "raise":
                continue
            # every later use of the payload must see an empty mapping, i.e. the name bound to record.args is re-bound
            names = [e[1] for e in o.path.events if e[0] == "bind" and e[2] == ARGS]
            rebound = [e for e in o.path.events if e[0] == "bind" and e[1] in names and strip_sites(e[2]) in (("dict", ()), ("call", ("glob", "ext:builtins.dict"), (), ()))]
            if names and not rebound:
                chk.bad(rule, fmt.qual, "when record.args == ({},) the payload is not replaced by an empty mapping: the tuple ({},) is then used as the record's data and formatting fails, so the record is lost", node=fmt.node, stmt="empty-payload-not-normalised")
                ok = False
                break
        if ok:
            chk.ok(rule, fmt.qual, "record.args == ({},) continues with an empty mapping", node=fmt.node)


def run(chk):
    chk.guard("O17.8", LINE_FMT, empty_payload, chk)
    chk.guard("O17.7", JSON_FMT, formatter_configuration, chk)
    chk.guard("O17.1", LINE, line_protocol_rules, chk)
    chk.guard("O17.5", LINE_FMT, line_formatter_rules, chk)
    chk.guard("O17.6", JSON_FMT, json_rules, chk)
