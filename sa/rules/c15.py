"""C15 -- FactoryPool spawns and releases just enough children (ownership and guard orientation)."""
import ast

from .. import util
from ..interp import alpha, Interp, Path, exc_value, show, strip_sites, subterms
from ..report import Undecided

SELF = ("sym", "self")
FACTORY = "cobald.composite.factory:FactoryPool"
ZERO = ("const", 0)
MUTATORS = {"add", "discard", "remove", "update", "clear", "pop", "difference_update", "intersection_update", "symmetric_difference_update", "append", "extend", "insert"}
ZDE = exc_value("ext:builtins.ZeroDivisionError", "injected")


def discover(chk):
    """the two child sets (active, released) from the constructor, and the role methods"""
    prog = chk.program
    cls = prog.cls(FACTORY)
    init = prog.lookup_method(cls, "__init__")
    active = released = None
    weak_active = None
    for st in ast.walk(init.node):
        if isinstance(st, ast.Assign) and isinstance(st.targets[0], ast.Attribute) and util.dotted(st.targets[0].value) == "self":
            txt = util.unparse(st.value)
            if (txt.startswith("set(") or txt.startswith("{*")) and "children" in txt:
                active = st.targets[0].attr
            elif "WeakSet(" in txt and "children" in txt:
                active, weak_active = st.targets[0].attr, st
            elif "WeakSet" in txt or txt in ("set()", "[]"):
                released = st.targets[0].attr
    if weak_active is not None:
        chk.bad("O15.1", init.qual, "the active children are kept in a weak set (%s): the pool no longer keeps its own children alive, a child nobody else references vanishes and every adjustment spawns for the same demand again" % util.unparse(weak_active.value), node=weak_active, stmt="active-set-weak")
    if released is None:
        # a released set that lives on the class is shared by every pool of the process
        getter = prog.pick(cls.methods.get("children", []), "getter")
        for a, v in cls.class_attrs.items():
            if v is not None and ("WeakSet" in util.unparse(v) or util.unparse(v) in ("set()", "[]")) and getter is not None and any(isinstance(x, ast.Attribute) and x.attr == a for x in ast.walk(getter.node)):
                chk.bad("O15.1", cls.qual, "the released-children set self.%s is created once on the CLASS and never per instance: a child released by one pool counts in the supply, utilisation, allocation and children of every other pool" % a, node=v, stmt="released-set-shared")
                released = a
    if active is None or released is None:
        raise Undecided("active / released child sets not found in FactoryPool.__init__", init.node)
    roles = {}
    meths = [prog.pick(fis) for fis in cls.methods.values()]
    meths = [f for f in meths if f is not None and f.name not in ("__init__", "run")]

    def own_calls(f, seen=None):
        """names of own methods f calls, transitively through helpers"""
        seen = seen if seen is not None else set()
        out = set()
        for n in ast.walk(f.node):
            if isinstance(n, ast.Call) and isinstance(n.func, ast.Name):
                out.add(n.func.id)
            if isinstance(n, ast.Call) and isinstance(n.func, ast.Attribute) and util.dotted(n.func.value) == "self":
                out.add(n.func.attr)
                g = prog.lookup_method(cls, n.func.attr)
                if g is not None and g.qual not in seen and g.cls is cls:
                    seen.add(g.qual)
                    out |= own_calls(g, seen)
        return out

    def free_params(f):
        # parameters a caller has to supply: a defaulted one that no call site supplies (`threshold=0`) is a constant
        fixed = {k[1] for k in util.unsupplied_defaults(prog, f)}
        return [p for p in f.params() if p not in fixed]

    for f in meths:
        if any(isinstance(n, ast.Call) and isinstance(n.func, ast.Attribute) and n.func.attr == "add" and util.dotted(n.func.value) == "self." + released for n in ast.walk(f.node)):
            roles["release"] = f
    if "release" not in roles:
        # a module-level function that is handed the two sets:  _release(child, self._hatchery, self._mortuary)
        for f in meths:
            for n in ast.walk(f.node):
                if isinstance(n, ast.Call) and isinstance(n.func, ast.Name) and any(util.dotted(a) == "self." + released for a in n.args):
                    g = prog.functions.get(prog.resolve(f.module, n.func) or "")
                    if g is not None and g.cls is None:
                        idx = [i for i, a in enumerate(n.args) if util.dotted(a) == "self." + released][0]
                        if idx < len(g.params()) and any(isinstance(c, ast.Call) and isinstance(c.func, ast.Attribute) and c.func.attr == "add" and isinstance(c.func.value, ast.Name) and c.func.value.id == g.params()[idx] for c in ast.walk(g.node)):
                            roles["release"] = g
    rel = roles.get("release")
    if rel is not None:
        for f in meths:
            if f is rel:
                continue
            direct = {n.func.attr for n in ast.walk(f.node) if isinstance(n, ast.Call) and isinstance(n.func, ast.Attribute) and util.dotted(n.func.value) == "self"}
            direct |= {n.func.id for n in ast.walk(f.node) if isinstance(n, ast.Call) and isinstance(n.func, ast.Name)}
            if rel.name in direct and not free_params(f) and any(isinstance(n, ast.For) for n in ast.walk(f.node)):
                roles["reap"] = f
        if "reap" not in roles:
            # the parameterless own method looping over the active set that the other steps call
            for f in meths:
                if f is rel or free_params(f) or prog_pick_getter(f) is not None:
                    continue
                loops = [n for n in ast.walk(f.node) if isinstance(n, ast.For) and "self." + active in util.unparse(n.iter)]
                callers = {g.name for g in meths if g is not f for c_ in ast.walk(g.node) if isinstance(c_, ast.Call) and util.dotted(c_.func) == "self." + f.name}
                if loops and callers:
                    roles["reap"] = f
        reap_ = roles.get("reap")
        for f in meths:
            if f in (rel, reap_) or not free_params(f) or f.name + "__each" == rel.name:
                continue  # (the bulk form of the release helper, see sa/normalise.py, is no step of its own)
            calls = own_calls(f)
            if "factory" in calls:
                roles["grow"] = f
            elif rel.name in calls and any(isinstance(n, ast.For) for n in ast.walk(f.node)):
                roles["shrink"] = f
    # the adjustment steps are what the run loop calls with the demand as target; their loops may live in private helpers
    runfi = prog.lookup_method(cls, "run")
    if runfi is not None and rel is not None:
        stepped = []
        for n in ast.walk(runfi.node):
            if isinstance(n, ast.Call) and isinstance(n.func, ast.Attribute) and util.dotted(n.func.value) == "self" and (n.args or n.keywords):
                g = prog.lookup_method(cls, n.func.attr)
                if g is not None and g.cls is cls and g not in stepped and g is not rel:
                    stepped.append(g)
        grow_c = [g for g in stepped if "factory" in own_calls(g)]
        shrink_c = [g for g in stepped if g not in grow_c and rel.name in own_calls(g)]
        if len(grow_c) == 1 and len(shrink_c) == 1:
            roles["grow"], roles["shrink"] = grow_c[0], shrink_c[0]
    for need in ("release", "grow", "shrink", "reap"):
        if need not in roles:
            raise Undecided("the %s step of FactoryPool was not found" % need, cls.node)
    return cls, active, released, roles


def step_closure(prog, cls, roles, fi):
    """fi and the own helpers (not themselves steps) it calls, transitively"""
    keep = set(roles.values())
    out, todo = [], [fi]
    while todo:
        f = todo.pop(0)
        if f in out:
            continue
        out.append(f)
        for n in ast.walk(f.node):
            if isinstance(n, ast.Call) and isinstance(n.func, ast.Attribute) and util.dotted(n.func.value) in ("self", "cls", cls.name):
                g = prog.lookup_method(cls, n.func.attr)
                if g is not None and g.cls is cls and g not in keep and prog_pick_getter(g) is None:
                    todo.append(g)
    return out


def rel_env(prog, cls, rel, active, released):
    """for a module-level release function: its parameters read as the caller's terms (from the call sites)"""
    if rel.cls is not None:
        return None
    env = {}
    for fis in cls.methods.values():
        for f in fis:
            for n in ast.walk(f.node):
                if isinstance(n, ast.Call) and isinstance(n.func, ast.Name) and prog.resolve(f.module, n.func) == rel.qual:
                    for pname, a in zip(rel.params(), n.args):
                        d = util.dotted(a) or ""
                        if d in ("self." + active, "self." + released):
                            env[("sym", pname)] = ("attr", SELF, d.split(".")[1])
    return env


def is_rel_call(ct, rel):
    return ct[0] == "call" and (ct[1] == ("attr", SELF, rel.name) if rel.cls is not None else ct[1] == ("glob", rel.qual))


def helper_inline(cls, roles):
    keep = {f.name for f in roles.values()}

    def flt(f, ct):
        return f.cls is cls and f.name not in keep and not f.is_async and prog_pick_getter(f) is None

    return flt


def prog_pick_getter(f):
    return f if any((n or "").split(".")[-1] == "property" for n in f.decorator_names()) else None


def ownership(chk, cls, active, released, roles):
    prog = chk.program
    rule = "O15.1"
    ok = True
    n = 0
    for fis in cls.methods.values():
        for fi in fis:
            for node in ast.walk(fi.node):
                which = None
                what = None
                if isinstance(node, ast.Call) and isinstance(node.func, ast.Attribute) and node.func.attr in MUTATORS:
                    d = util.dotted(node.func.value)
                    if d in ("self." + active, "self." + released):
                        which, what = d.split(".")[1], node.func.attr
                elif isinstance(node, (ast.Assign, ast.AugAssign)):
                    tg = node.targets if isinstance(node, ast.Assign) else [node.target]
                    for t in tg:
                        if isinstance(t, ast.Attribute) and util.dotted(t.value) == "self" and t.attr in (active, released):
                            which, what = t.attr, "assign"
                if which is None:
                    continue
                n += 1
                chk.count()
                role = [k for k, v in roles.items() if v is fi]
                role = role[0] if role else fi.name
                if role == fi.name:
                    callers = {g.name for gs in cls.methods.values() for g in gs for c_ in ast.walk(g.node) if isinstance(c_, ast.Call) and util.dotted(c_.func) == "self." + fi.name}
                    for k, v in roles.items():
                        if callers and callers <= {v.name}:
                            role = k  # a helper of that step
                allowed = False
                if what == "assign" and fi.name == "__init__" and isinstance(node, ast.Assign):
                    allowed = True
                elif which == active and what == "add" and role == "grow":
                    # the added value must be the factory's result
                    arg = node.args[0] if node.args else None
                    src = None
                    if isinstance(arg, ast.Name):
                        for st in ast.walk(fi.node):
                            if isinstance(st, ast.Assign) and any(isinstance(t, ast.Name) and t.id == arg.id for t in st.targets):
                                src = st.value
                    elif isinstance(arg, ast.Call):
                        src = arg
                    if isinstance(src, ast.Call) and util.dotted(src.func) == "self.factory" and not src.args and not src.keywords:
                        allowed = True
                    else:
                        chk.bad(rule, fi.qual, "a child that is not the fresh result of the factory is added to the active set (%s)" % util.unparse(arg), node=node, stmt="active.add(non-factory)")
                        ok = False
                        continue
                elif which == active and what in ("discard", "remove") and role == "release":
                    allowed = True
                elif which == released and what == "add" and role == "release":
                    allowed = True
                if not allowed:
                    chk.bad(
                        rule,
                        fi.qual,
                        "%s.%s in %s: the %s child set may only %s"
                        % (which, what, role, "active" if which == active else "released", "grow from the factory's result in the grow step and shrink in the release step" if which == active else "grow in the release step"),
                        node=node,
                        stmt="%s.%s in %s" % (which, what, role),
                    )
                    ok = False
    rel = roles["release"]
    if rel.cls is None:
        # a module-level release function mutates the sets through its parameters
        env = rel_env(prog, cls, rel, active, released) or {}
        pmap = {k[1]: v[2] for k, v in env.items()}
        for node in ast.walk(rel.node):
            if isinstance(node, ast.Call) and isinstance(node.func, ast.Attribute) and node.func.attr in MUTATORS and isinstance(node.func.value, ast.Name) and node.func.value.id in pmap:
                which, what = pmap[node.func.value.id], node.func.attr
                n += 1
                chk.count()
                if not ((which == active and what in ("discard", "remove")) or (which == released and what == "add")):
                    chk.bad(rule, rel.qual, "%s.%s in the release step: the %s child set may only %s" % (which, what, "active" if which == active else "released", "shrink in the release step" if which == active else "grow in the release step"), node=node, stmt="%s.%s in release" % (which, what))
                    ok = False
    chk.floor(rule, n, 5)
    if ok:
        chk.ok(rule, cls.qual, "active set: initial children + factory results (grow), removed only in release; released set: grows only in release; nothing moves back (%d writer sites)" % n, node=cls.node)


def release_atomic(chk, cls, active, released, roles):
    prog = chk.program
    rule = "O15.2"
    fi = roles["release"]
    child = ("sym", fi.params()[0])
    env = rel_env(prog, cls, fi, active, released)
    outs = Interp(prog, fi, inline=helper_inline(cls, roles)).run(env=env) if env else Interp(prog, fi, inline=helper_inline(cls, roles)).run()
    chk.count(len(outs))
    ok = True
    # `child.demand = 0` runs the child's own setter, which may fail: the failure is the caller's to see -- a handler
    # that swallows it files the child as released while it still holds (and is counted with) its demand
    for fn in [fi] + [g for gs in cls.methods.values() for g in gs if helper_inline(cls, roles)(g, None)]:
        par = util.parents_map(fn.node)
        for st in ast.walk(fn.node):
            if not (isinstance(st, (ast.Assign, ast.AugAssign)) and any(isinstance(t, ast.Attribute) and t.attr == "demand" and not (isinstance(t.value, ast.Name) and t.value.id == "self") for t in (st.targets if isinstance(st, ast.Assign) else [st.target]))):
                continue
            up, node = par.get(id(st)), st
            while up is not None and up is not fn.node:
                if isinstance(up, ast.Try) and node in up.body:
                    for h in up.handlers:
                        reraises = any(isinstance(x, ast.Raise) for x in util.walk_no_nested(h))
                        names = [prog.resolve(fn.module, t) for t in (h.type.elts if isinstance(h.type, ast.Tuple) else [h.type])] if h.type is not None else ["ext:builtins.BaseException"]
                        if not reraises and any(n in ("ext:builtins.Exception", "ext:builtins.BaseException") for n in names) and fn is fi:
                            chk.bad(rule, fn.qual, "a failure of the child's demand setter in the release step is swallowed (except %s without re-raising): the child is filed as released although it still holds its demand, and the failure never surfaces" % (util.unparse(h.type) if h.type is not None else ""), node=h, stmt="release-setter-failure-swallowed")
                            ok = False
                node, up = up, par.get(id(up))
    for o in outs:
        if o.kind not in ("normal", "return"):
            chk.bad(rule, fi.qual, "the release step can end by %s" % o.kind, node=fi.node, stmt="exit")
            ok = False
            continue
        evs = o.path.events
        dem = [e for e in evs if e[0] == "store" and e[1] == ("attr", child, "demand")]
        rm = [e for e in evs if e[0] == "call" and e[1][1] in (("attr", ("attr", SELF, active), "discard"), ("attr", ("attr", SELF, active), "remove")) and list(e[1][2]) == [child]]
        ad = [e for e in evs if e[0] == "call" and e[1][1] == ("attr", ("attr", SELF, released), "add") and list(e[1][2]) == [child]]
        cond = "; ".join(show(e[1]) for e in evs if e[0] == "branch" and e[4] == "forked")
        if len(dem) != 1 or dem[0][2] != ZERO:
            chk.bad(rule, fi.qual, "a released child's demand is %s (required: set to 0 on every path)%s" % ("not set" if not dem else "set to %s" % show(dem[-1][2]), " [path: %s]" % cond if cond else ""), node=fi.node, stmt="release-demand")
            ok = False
        if len(rm) != 1:
            chk.bad(rule, fi.qual, "a released child is not removed from the active set on every path: it would be both active and released%s" % (" [path: %s]" % cond if cond else ""), node=fi.node, stmt="release-remove")
            ok = False
        if len(ad) != 1:
            chk.bad(rule, fi.qual, "a released child is not added to the released set on every path: it disappears from the pool's children while still supplying%s" % (" [path: %s]" % cond if cond else ""), node=fi.node, stmt="release-add")
            ok = False
    if ok:
        chk.ok(rule, fi.qual, "demand = 0, removed from the active set and added to the released set on every path", node=fi.node)


def reap(chk, cls, active, released, roles):
    prog = chk.program
    rule = "O15.3"
    reap_fi, rel_fi = roles["reap"], roles["release"]
    for step in ("grow", "shrink"):
        fi = roles[step]
        it = Interp(prog, fi, unroll=1, inline=helper_inline(cls, roles))
        outs = it.run()
        chk.count(len(outs))
        ok = True
        for o in outs:
            if o.kind == "cut" or o.kind == "raise":
                continue
            own = [e[1][1][2] for e in o.path.events if e[0] == "call" and e[1][1][0] == "attr" and e[1][1][1] == SELF] if True else []
            own_last = [e[1] for e in o.path.events if e[0] == "call" and ((e[1][1][0] == "attr" and e[1][1][1] == SELF) or is_rel_call(e[1], rel_fi))]
            if own_last and is_rel_call(own_last[-1], rel_fi) and rel_fi.cls is None:
                own = own + ["<release>"]
            if not own or own[-1] != reap_fi.name:
                chk.bad(rule, fi.qual, "the %s step can finish without reaping children that have no demand left (last own calls: %s)" % (step, own[-2:]), node=fi.node, stmt="%s-no-reap" % step)
                ok = False
                break
        if ok:
            chk.ok(rule, fi.qual, "every completing path of the %s step ends in the reap step" % step, node=fi.node)
    # the reap step: iterate a copy of the active set, release iff demand <= 0
    fi = reap_fi
    loops = [n for n in ast.walk(fi.node) if isinstance(n, ast.For)]
    if len(loops) != 1:
        chk.undecided(rule, fi.qual, "reap step is not a single loop", node=fi.node)
        return
    it_expr = loops[0].iter
    if isinstance(it_expr, ast.Name):
        # a local bound once to the snapshot:  snapshot = list(self._hatchery); for child in snapshot: ...
        binds = [v for t, v in util.simple_assignments(fi.node) if isinstance(t, ast.Name) and t.id == it_expr.id]
        if len(binds) == 1:
            it_expr = binds[0]
    it_src = util.unparse(it_expr)
    if it_src == "self." + active:
        chk.bad(rule, fi.qual, "the reap step iterates the live active set while releasing from it (RuntimeError: set changed size during iteration)", node=loops[0], stmt="iterate-live-set")
    elif "self." + active not in it_src:
        chk.bad(rule, fi.qual, "the reap step ranges over %s instead of the active children" % it_src, node=loops[0], stmt="reap-domain")
    it = Interp(prog, fi, unroll=1)
    outs = it.run()
    chk.count(len(outs))
    seen = set()
    for o in outs:
        iters = [e for e in o.path.events if e[0] == "loop-iter"]
        if len(iters) != 1:
            continue
        item = [e[2] for e in o.path.events if e[0] == "bind" and e[2][0] == "item"]
        if not item:
            continue
        child = item[0]
        s = it.get_rel(("attr", child, "demand"), ZERO, o.path)
        released_now = any(e[0] == "call" and is_rel_call(e[1], rel_fi) and list(e[1][2])[:1] == [child] for e in o.path.events)
        for r in s:
            seen.add((r, released_now))
    want = {("<", True), ("=", True), (">", False)}
    if seen == want:
        chk.ok(rule, fi.qual, "releases every active child whose demand <= 0 and no other", node=fi.node, input="3 orderings of child.demand vs 0")
    else:
        chk.bad(rule, fi.qual, "reap orientation: %s (required: release iff child.demand <= 0)" % sorted("%s when demand %s 0" % ("release" if rel else "keep", r) for r, rel in seen), node=fi.node, stmt="reap-orientation", input=sorted(seen))


def guards(chk, cls, active, released, roles):
    prog = chk.program
    rule = "O15.4"
    # ---- grow
    fi = roles["grow"]
    target = ("sym", fi.params()[0])
    loops = [n for n in ast.walk(fi.node) if isinstance(n, ast.While)]
    if len(loops) != 1:
        chk.undecided(rule, fi.qual, "grow step is not a single while loop", node=fi.node)
    else:
        it = Interp(prog, fi, unroll=1, assert_raises=False, inline=helper_inline(cls, roles))
        outs = it.run()
        chk.count(len(outs))
        ok = True
        missing0 = None
        for o in outs:
            binds = [e for e in o.path.events if e[0] == "bind" and e[2][0] == "binop" and e[2][1] == "-" and e[2][2] == target]
            if binds:
                missing0 = binds[0]
        if missing0 is None:
            chk.bad(rule, fi.qual, "the missing demand is not computed as target minus the children's demands", node=fi.node, stmt="missing-term")
            ok = False
        else:
            mvar = ("sym", missing0[1])
            summed = strip_sites(missing0[2][3])
            good_sum = summed[0] == "call" and summed[1] == ("glob", "ext:builtins.sum") and summed[2] and summed[2][0][0] == "comp" and summed[2][0][2][0] == "attr" and summed[2][0][2][2] == "demand"
            if not good_sum:
                chk.bad(rule, fi.qual, "the missing demand subtracts %s instead of the sum of the children's demands" % show(summed), node=fi.node, stmt="missing-sum")
                ok = False
            else:
                dom = strip_sites(summed[2][0][3][0][1])
                if dom not in (("attr", SELF, "children"), ("attr", SELF, active)) or summed[2][0][3][0][2]:
                    chk.bad(rule, fi.qual, "the covered demand is summed over %s%s instead of the pool's children" % (show(dom), " (filtered)" if summed[2][0][3][0][2] else ""), node=fi.node, stmt="missing-domain")
                    ok = False
            seen = set()
            for o in outs:
                br = [e for e in o.path.events if e[0] == "branch" and e[3] == loops[0].lineno]
                if not br:
                    continue
                first = br[0]
                s = it.get_rel(missing0[2], ZERO, o.path) if first[4] == "forked" else None
                spawned = [e for e in o.path.events if e[0] == "call" and e[1][1] == ("attr", SELF, "factory")]
                entered = any(e[0] == "loop-iter" for e in o.path.events)
                if s is not None:
                    for r in s:
                        seen.add((r, entered))
                if entered:
                    if len([e for e in o.path.events if e[0] == "loop-iter"]) == 1 and len(spawned) != 1:
                        chk.bad(rule, fi.qual, "one grow iteration spawns %d children" % len(spawned), node=fi.node, stmt="spawn-count")
                        ok = False
                    if len([e for e in o.path.events if e[0] == "loop-iter"]) == 1 and len(spawned) == 1:
                        adds = [e for e in o.path.events if e[0] == "call" and e[1][1] == ("attr", ("attr", SELF, active), "add") and list(e[1][2]) == [spawned[0][1]]]
                        if len(adds) != 1 and o.kind != "raise":
                            chk.bad(rule, fi.qual, "the child spawned in a grow iteration is added to the active set %d times (required: once): it is not counted among the children, so the next adjustment spawns for the same demand again" % len(adds), node=fi.node, stmt="spawn-not-added")
                            ok = False
                    augs = [e for e in o.path.events if e[0] == "aug" and e[1] == mvar]
                    if not augs or augs[0][2] != "-" or not (augs[0][3][0] == "attr" and augs[0][3][2] == "demand" and augs[0][3][1][0] == "call" and augs[0][3][1][1] == ("attr", SELF, "factory")):
                        chk.bad(rule, fi.qual, "after spawning, the missing demand is not reduced by the new child's demand (%s)" % [(e[2], show(e[3])) for e in augs], node=fi.node, stmt="missing-update")
                        ok = False
            # two iterations: each spawn is booked with ITS OWN demand (a factory may hand out children of varying size)
            it2 = Interp(prog, fi, unroll=2, assert_raises=False, inline=helper_inline(cls, roles))
            for o in it2.run():
                chk.count()
                if len([e for e in o.path.events if e[0] == "loop-iter"]) != 2:
                    continue
                spawned = [e[1] for e in o.path.events if e[0] == "call" and e[1][1] == ("attr", SELF, "factory")]
                augs = [e for e in o.path.events if e[0] == "aug" and e[1] == mvar]
                if len(spawned) == 2 and len(augs) == 2 and ok:
                    second = augs[1][3]
                    if spawned[0] in list(subterms(second)) and spawned[1] not in list(subterms(second)):
                        chk.bad(rule, fi.qual, "the second spawned child is booked with the FIRST child's demand (%s): with a factory whose children differ in size the pool over-spawns or leaves demand uncovered" % show(strip_sites(second)), node=fi.node, stmt="missing-update-remembered")
                        ok = False
            want = {("<", False), ("=", False), (">", True)}
            if seen and seen != want:
                chk.bad(rule, fi.qual, "grow guard: %s (required: spawn while missing demand > 0)" % sorted("%s when missing %s 0" % ("spawn" if en else "stop", r) for r, en in seen), node=loops[0], stmt="grow-guard", input=sorted(seen))
                ok = False
            elif not seen:
                chk.undecided(rule, fi.qual, "grow guard not decided", node=loops[0])
                ok = False
        if ok:
            chk.ok(rule, fi.qual, "spawns one factory child per iteration while target - sum(child demands) > 0, subtracting each new child's demand", node=fi.node)
    # ---- shrink
    fi = roles["shrink"]
    target = ("sym", fi.params()[0])
    loops = [n for f in step_closure(prog, cls, roles, fi) for n in ast.walk(f.node) if isinstance(n, ast.For)]
    if len(loops) != 1:
        chk.undecided(rule, fi.qual, "shrink step is not a single for loop", node=fi.node)
        return
    it = Interp(prog, fi, unroll=1, inline=helper_inline(cls, roles))
    outs = it.run()
    chk.count(len(outs))
    ok = True
    excess0 = None
    for o in outs:
        for e in o.path.events:
            if e[0] == "bind" and e[2][0] == "binop" and e[2][1] == "-" and e[2][3] == target:
                excess0 = e
    if excess0 is None:
        chk.bad(rule, fi.qual, "the excess demand is not computed as the active children's demand minus the target", node=fi.node, stmt="excess-term")
        return
    evar = ("sym", excess0[1])
    summed = strip_sites(excess0[2][2])
    if not (summed[0] == "call" and summed[1] == ("glob", "ext:builtins.sum") and summed[2] and summed[2][0][0] == "comp" and summed[2][0][2][0] == "attr" and summed[2][0][2][2] == "demand"):
        chk.bad(rule, fi.qual, "the excess demand starts from %s instead of the sum of the active children's demands" % show(summed), node=fi.node, stmt="excess-sum")
        ok = False
    rel_name = roles["release"].name
    seen = set()
    for o in outs:
        iters = [e for e in o.path.events if e[0] == "loop-iter"]
        if len(iters) != 1:
            continue
        item = [e[2] for e in o.path.events if e[0] == "bind" and e[2][0] == "item"]
        child = item[0]
        # the iterable must be (a sorted copy of) the active set
        src = child[1]
        if ("attr", SELF, active) not in list(subterms(src)) and not any(e[0] == "bind" and e[2] == src and False for e in o.path.events):
            srcs = [e[2] for e in o.path.events if e[0] == "bind" and ("sym", e[1]) == src]
            if not any(("attr", SELF, active) in list(subterms(s_)) for s_ in srcs + [src]):
                chk.bad(rule, fi.qual, "shrink ranges over %s, not over the active children" % show(src), node=fi.node, stmt="shrink-domain")
                ok = False
        cd = ("attr", child, "demand")
        s0 = it.get_rel(excess0[2], ZERO, o.path)
        s1 = it.get_rel(cd, excess0[2], o.path)
        released_now = [e for e in o.path.events if e[0] == "call" and is_rel_call(e[1], roles["release"])]
        broke = any(e[0] == "loop-break" for e in o.path.events)
        for a in s0:
            for b in s1:
                seen.add((a, b, "break" if broke else ("release" if released_now else "keep")))
        if released_now:
            if len(released_now) != 1 or list(released_now[0][1][2])[:1] != [child]:
                chk.bad(rule, fi.qual, "one shrink iteration releases %s" % [show(a) for e in released_now for a in e[1][2]], node=fi.node, stmt="release-arg")
                ok = False
            augs = [e for e in o.path.events if e[0] == "aug" and e[1] == evar]
            if len(augs) != 1 or augs[0][2] != "-" or augs[0][3] != cd:
                chk.bad(rule, fi.qual, "releasing a child does not reduce the excess by that child's demand (%s)" % [(e[2], show(e[3])) for e in augs], node=fi.node, stmt="excess-update")
                ok = False
            else:
                i_aug = o.path.events.index(augs[0])
                i_rel = o.path.events.index(released_now[0])
                if i_rel < i_aug:
                    chk.bad(rule, fi.qual, "the excess is reduced by the child's demand AFTER the child has been released: releasing sets that demand to 0, so the excess is never used up and every further child that fits the initial excess is released as well", node=fi.node, stmt="excess-update-after-release")
                    ok = False
    want = set()
    for a in "<=>":
        for b in "<=>":
            if a in "<=":
                want.add((a, b, "break"))
            else:
                want.add((a, b, "release" if b in "<=" else "keep"))
    if seen != want:
        diff = sorted(seen - want)
        chk.bad(
            rule,
            fi.qual,
            "shrink decisions differ from the documented ones: %s (required: stop when excess <= 0; otherwise release the child iff child.demand <= excess)"
            % "; ".join("excess %s 0, child.demand %s excess -> %s" % d for d in diff[:4]),
            node=fi.node,
            stmt="shrink-guards",
            input=diff,
        )
        ok = False
    if ok:
        chk.ok(rule, fi.qual, "stops when excess <= 0; releases a child iff child.demand <= excess, subtracting its demand", node=fi.node, input="9 orderings")


def aggregation(chk, cls, active, released, roles):
    prog = chk.program
    rule = "O15.5"
    ch = prog.pick(cls.methods.get("children", []), "getter")
    if ch is None:
        chk.bad(rule, cls.qual, "FactoryPool has no children property", node=cls.node, stmt="no-children")
        return
    outs = Interp(prog, ch).run()
    v = outs[0].value if len(outs) == 1 and outs[0].kind == "return" else None
    A, R = ("attr", SELF, active), ("attr", SELF, released)
    both = v is not None and all(x in list(subterms(v)) for x in (A, R))
    if not both:
        chk.bad(rule, ch.qual, "children is %s: it must contain the active AND the released children (released ones still supply)" % (show(v) if v else "?"), node=ch.node, stmt="children-both")
    else:
        chk.ok(rule, ch.qual, "children = active + released", node=ch.node)
    CH = ("attr", SELF, "children")
    terms = {}
    for prop in ("supply", "utilisation", "allocation"):
        g = prog.pick(cls.methods.get(prop, []), "getter")
        if g is None:
            chk.bad(rule, cls.qual, "FactoryPool does not define %s" % prop, node=cls.node, stmt="missing-%s" % prop)
            continue

        def binop_hook(it, path, op, l, r, node):
            if op == "/" and prop != "supply":
                return [("raise", ZDE), ("value", ("binop", op, l, r))]
            return None

        outs = Interp(prog, g, binop_hook=binop_hook).run()
        chk.count(len(outs))
        main = [o for o in outs if o.kind == "return" and not any(e[0] == "caught" for e in o.path.events)]
        fb = [o for o in outs if o.kind == "return" and any(e[0] == "caught" for e in o.path.events)]
        esc = [o for o in outs if o.kind == "raise"]
        if esc:
            chk.bad(rule, g.qual, "%s raises %s when no child has supply (documented fallback: 1.0)" % (prop, show(esc[0].value)), node=g.node, stmt="%s-escape" % prop)
            continue
        none_exit = [o for o in outs if o.kind == "normal" or (o.kind == "return" and o.value in (None, ("const", None)))]
        if none_exit:
            chk.bad(rule, g.qual, "%s can complete without returning a value (it reads back as None instead of the aggregate over the children)" % prop, node=g.node, stmt="%s-returns-none" % prop)
            continue
        if len(main) != 1:
            chk.undecided(rule, g.qual, "%s is not a single aggregate" % prop, node=g.node)
            continue
        t = strip_sites(main[0].value)
        if prop == "supply":
            good = t[0] == "call" and t[1] == ("glob", "ext:builtins.sum") and t[2] and t[2][0][0] == "comp" and t[2][0][2] == ("attr", t[2][0][3][0][0], "supply") and t[2][0][3][0][1] == CH and not t[2][0][3][0][2]
            if good:
                chk.ok(rule, g.qual, "supply = sum over all children (active and released)", node=g.node)
            else:
                chk.bad(rule, g.qual, "supply is %s, not the sum of the supplies of ALL children" % show(t), node=g.node, stmt="supply")
            continue
        # mean over the children with supply > 0
        ok = t[0] == "binop" and t[1] == "/"
        if ok:
            num, den = t[2], t[3]
            ok = num[0] == "call" and num[1] == ("glob", "ext:builtins.sum") and num[2] and num[2][0][0] == "comp" and den[0] == "call" and den[1] == ("glob", "ext:builtins.len")
        if not ok:
            chk.bad(rule, g.qual, "%s is %s, not a mean" % (prop, show(t)), node=g.node, stmt="%s-shape" % prop)
            continue
        comp = num[2][0]
        var, dom, conds = comp[3][0]
        if comp[2] != ("attr", var, prop):
            chk.bad(rule, g.qual, "%s averages the children's %s" % (prop, show(comp[2])), node=g.node, stmt="%s-attr" % prop)
            continue
        if den[2][0] != dom:
            chk.bad(rule, g.qual, "%s sums over %s but divides by the size of %s" % (prop, show(dom), show(den[2][0])), node=g.node, stmt="%s-domain" % prop)
            continue
        # dom: [child for child in self.children if child.supply > 0]
        flt = dom
        fine = flt[0] == "comp" and flt[2] == flt[3][0][0] and flt[3][0][1] == CH and len(flt[3][0][2]) == 1
        if fine:
            c = flt[3][0][2][0]
            v = flt[3][0][0]
            fine = c in (("cmp", ">", ("attr", v, "supply"), ZERO), ("cmp", "<", ZERO, ("attr", v, "supply")))
        if not fine:
            chk.bad(rule, g.qual, "%s is averaged over %s instead of exactly the children that have supply (supply > 0)" % (prop, show(flt)), node=g.node, stmt="%s-filter" % prop)
            continue
        if not fb or any(o.value != ("const", 1.0) for o in fb):
            chk.bad(rule, g.qual, "the fallback of %s without supplying children is %s (documented: 1.0)" % (prop, [show(o.value) for o in fb] or "missing"), node=g.node, stmt="%s-fallback" % prop)
            continue
        terms[prop] = t
        chk.ok(rule, g.qual, "%s = mean of child.%s over the children with supply > 0, same collection for sum and count; fallback 1.0" % (prop, prop), node=g.node)
    if len(terms) == 2:
        def swap(t):
            if isinstance(t, tuple):
                if t and t[0] == "attr" and t[2] in ("utilisation", "allocation"):
                    return ("attr", swap(t[1]), "allocation" if t[2] == "utilisation" else "utilisation")
                return tuple(swap(x) for x in t)
            return t
        if alpha(swap(terms["utilisation"])) != alpha(terms["allocation"]):
            chk.bad(rule, cls.qual, "utilisation and allocation are not the same aggregate under the attribute swap", node=cls.node, stmt="sibling-symmetry")


def orderable_sort(chk, cls, active, released, roles):
    """O15.4 (sort): the steps never sort the children themselves, nor tuples that contain them, without a key: pools are
    not orderable, so the first tie on the leading elements raises TypeError and ends the pool's service"""
    prog = chk.program
    rule = "O15.4"
    n = 0
    ok = True
    for step, fi in sorted(roles.items()):
        for c in ast.walk(fi.node):
            is_sorted = isinstance(c, ast.Call) and (util.dotted(c.func) in ("sorted", "min", "max") or (isinstance(c.func, ast.Attribute) and c.func.attr == "sort"))
            if not is_sorted:
                continue
            n += 1
            chk.count()
            if any(k.arg == "key" for k in c.keywords):
                continue
            src = c.args[0] if c.args else (c.func.value if isinstance(c.func, ast.Attribute) else None)
            # what are the elements?  a comprehension whose element is a tuple mentioning the loop variable, or the child set itself
            elems_are_children = src is not None and ("self." + active in util.unparse(src) or "self.children" in util.unparse(src)) and not isinstance(src, (ast.GeneratorExp, ast.ListComp))
            tuple_with_child = False
            if isinstance(src, (ast.GeneratorExp, ast.ListComp)) and isinstance(src.elt, ast.Tuple):
                loop_vars = {x.id for g in src.generators for x in ast.walk(g.target) if isinstance(x, ast.Name)}
                tuple_with_child = any(isinstance(e, ast.Name) and e.id in loop_vars for e in src.elt.elts)
            if elems_are_children or tuple_with_child:
                chk.bad(
                    rule,
                    fi.qual,
                    "%s orders %s without a key: %s, and pools define no ordering -- TypeError on the first such comparison ends the pool's service" % (util.unparse(c.func), "tuples that contain the child itself" if tuple_with_child else "the children themselves", "two children with equal leading elements are compared by the child objects" if tuple_with_child else "the children are compared directly"),
                    node=c,
                    stmt="sort-without-key",
                )
                ok = False
    if ok:
        chk.ok(rule, cls.qual, "no step orders children (or tuples containing them) without a key (%d sort sites)" % n, node=cls.node)


def demand_storage(chk, cls, active, released, roles):
    """O15.6: a demand write is kept and is what the adjustment cycle reads back"""
    prog = chk.program
    rule = "O15.6"
    g = prog.pick(cls.methods.get("demand", []), "getter")
    st = prog.pick(cls.methods.get("demand", []), "setter")
    if g is None or st is None:
        chk.bad(rule, cls.qual, "FactoryPool does not define demand as a readable and writable property", node=cls.node, stmt="demand-property")
        return
    value = ("sym", st.params()[0])
    stored = set()
    ok = True
    for o in Interp(prog, st, inline=helper_inline(cls, roles)).run():
        chk.count()
        if o.kind == "raise":
            continue
        w = [e[1] for e in o.path.events if e[0] == "store" and e[1][0] == "attr" and e[1][1] == SELF and e[2] == value]
        if len(w) != 1:
            chk.bad(rule, st.qual, "a demand write can complete without storing the written value (%d stores): the pool keeps adjusting to the old demand" % len(w), node=st.node, stmt="demand-not-stored")
            ok = False
        stored.update(w)
    read = set()
    for o in Interp(prog, g).run():
        chk.count()
        if o.kind == "return":
            read.add(o.value)
        elif o.kind != "raise":
            read.add(None)
    if ok and (len(stored) != 1 or read != stored):
        chk.bad(rule, g.qual, "demand reads back %s but a write stores into %s: the adjustment cycle does not see the requested demand" % (sorted(show(r) if r else "None" for r in read), sorted(show(w) for w in stored)), node=g.node, stmt="demand-readback")
        ok = False
    init = prog.lookup_method(cls, "__init__")
    if ok and stored:
        attr = next(iter(stored))
        for o in Interp(prog, init).run():
            chk.count()
            if o.kind in ("normal", "return") and not any(e[0] == "store" and e[1] == attr for e in o.path.events):
                chk.bad(rule, init.qual, "the constructor does not initialise %s: reading the demand before the first write raises AttributeError and ends the pool's service" % show(attr), node=init.node, stmt="demand-not-initialised")
                ok = False
                break
    if ok:
        chk.ok(rule, cls.qual, "a demand write stores the value in %s, which the getter returns and the constructor initialises" % show(next(iter(stored))), node=st.node)


def run(chk):
    res = chk.guard("O15.1", FACTORY, discover, chk)
    if not res:
        return
    from . import c09

    chk.guard("O9.5", FACTORY, c09.factory_run, chk)
    for rule, fn in (("O15.1", ownership), ("O15.2", release_atomic), ("O15.3", reap), ("O15.4", guards), ("O15.4", orderable_sort), ("O15.5", aggregation), ("O15.6", demand_storage)):
        chk.guard(rule, FACTORY, fn, chk, *res)
