"""C10 -- execute hands the payload's outcome to the caller and leaves the runtime alone."""
import ast

from .. import libfacts, util
from ..interp import Interp, Path, exc_value, is_exc, show, strip_sites, subterms, NONE
from .. import slots
from ..report import Undecided
from . import common

SELF = ("sym", "self")
PAYLOAD = ("sym", "payload")
SERVICE_RUNNER = "cobald.daemon.runners.service:ServiceRunner"
META = "cobald.daemon.runners.meta_runner:MetaRunner"

INJECT = {
    "an Exception subclass": exc_value("rep:AnyException", "payload"),
    "RuntimeError": exc_value("ext:builtins.RuntimeError", "payload"),
    "KeyError": exc_value("ext:builtins.KeyError", "payload"),
    "a BaseException": exc_value("rep:OtherBase", "payload"),
}


def chain_functions(chk):
    prog = chk.program
    fns = [("execute", prog.method(SERVICE_RUNNER, "execute")), ("MetaRunner.run_payload", prog.method(META, "run_payload"))]
    runners = util.concrete_runners(prog)
    for r in runners:
        fi = prog.lookup_method(r, "run_payload")
        if fi is None or fi.cls is not r:
            raise Undecided("%s has no own run_payload" % r.qual, r.node)
        fns.append((r.name + ".run_payload", fi))
    return fns, runners


PUBLIC = ("run_payload", "register_payload", "execute", "adopt", "accept", "shutdown", "run", "stop", "aclose", "manage_payloads", "ready")


def own_helpers(fi):
    """inline the private synchronous helpers of the class (and its bases) an entry point delegates to"""

    pkg = fi.module.name.rpartition(".")[0]

    def flt(f, ct):
        if f.cls is None:
            # module-level helpers of the runners package (a shared "submit and wait" function, ...)
            return not f.is_async and f.module.name.startswith(pkg)
        return fi.cls is not None and not f.is_async and f is not fi and f.name not in PUBLIC and ct[1][0] == "attr" and ct[1][1] == SELF

    return flt


def helper_closure(prog, fi):
    """fi plus the own-class helpers it reaches (for syntactic scans)"""
    seen, todo = {}, [fi]
    while todo:
        f = todo.pop()
        if f.qual in seen:
            continue
        seen[f.qual] = f
        for n in ast.walk(f.node):
            if isinstance(n, ast.Call) and isinstance(n.func, ast.Attribute) and isinstance(n.func.value, ast.Name) and n.func.value.id == "self" and n.func.attr not in PUBLIC and fi.cls is not None:
                g = prog.lookup_method(fi.cls, n.func.attr)
                if g is not None and not g.is_async:
                    todo.append(g)
            elif isinstance(n, ast.Call) and isinstance(n.func, ast.Name):
                r = prog.resolve(f.module, n.func)
                g = prog.functions.get(r) if r else None
                if g is not None and g.cls is None and not g.is_async and g.module.name.startswith(fi.module.name.rpartition(".")[0]):
                    todo.append(g)
    return list(seen.values())


def leaf_kind(prog, fi):
    """how the runner's run_payload runs the payload"""
    for f in helper_closure(prog, fi):
        for n in ast.walk(f.node):
            if isinstance(n, (ast.Attribute, ast.Name)):
                r = prog.resolve(f.module, n)
                if r == "ext:asyncio.run_coroutine_threadsafe":
                    return "asyncio"
                if r == "ext:trio.from_thread.run":
                    return "trio"
    # the crossing bound once at construction:  self._submit = partial(asyncio.run_coroutine_threadsafe, loop=...)
    for o in Interp(prog, fi, inline=own_helpers(fi)).run():
        for e in o.path.events:
            if e[0] == "call" and e[1][1] == ("glob", "ext:asyncio.run_coroutine_threadsafe"):
                return "asyncio"
            if e[0] == "call" and e[1][1] == ("glob", "ext:trio.from_thread.run"):
                return "trio"
    return "direct"


def handler_representatives(prog, fi):
    """one injected exception per class named by an except clause on the way: a handler that is meant for the
    machinery (a poll timeout, a closed loop) must not swallow or rewrite the SAME class raised by the payload"""
    out = {}
    for f in helper_closure(prog, fi):
        for h in ast.walk(f.node):
            if isinstance(h, ast.ExceptHandler) and h.type is not None:
                for ty in h.type.elts if isinstance(h.type, ast.Tuple) else [h.type]:
                    q = prog.resolve(f.module, ty)
                    if q and libfacts.is_exception_class(q, prog) and q not in ("ext:builtins.BaseException", "ext:builtins.Exception"):
                        out["%s (named by a handler in %s)" % (q.split(":")[-1].replace("builtins.", ""), f.name)] = exc_value(libfacts.canon_exc(q), "payload")
    return out


def accepted_own_raise(fi, n):
    """`if k not in self.M: raise KeyError(k)` in front of `self.M[k]`: the look-before-you-leap spelling of the
    KeyError the subscription raises anyway -- not an exception of the chain's own"""
    par = util.parents_map(fi.node)
    up = par.get(id(n))
    # `e = fut.exception(); if e is not None: raise e`: the payload's own exception, taken from the future that ran it
    if isinstance(up, ast.If) and n in up.body and isinstance(n.exc, ast.Name) and n.cause is None:
        src = [a for a in ast.walk(fi.node) if isinstance(a, ast.Assign) and len(a.targets) == 1 and isinstance(a.targets[0], ast.Name) and a.targets[0].id == n.exc.id]
        if len(src) == 1 and isinstance(src[0].value, ast.Call) and isinstance(src[0].value.func, ast.Attribute) and src[0].value.func.attr == "exception" and not src[0].value.args:
            return True
    if not isinstance(up, ast.If) or n not in up.body or up.orelse:
        return False
    t = up.test
    if isinstance(t, ast.UnaryOp) and isinstance(t.op, ast.Not) and isinstance(t.operand, ast.Compare) and len(t.operand.ops) == 1 and isinstance(t.operand.ops[0], ast.In):
        key, mp = t.operand.left, t.operand.comparators[0]
    elif isinstance(t, ast.Compare) and len(t.ops) == 1 and isinstance(t.ops[0], ast.NotIn):
        key, mp = t.left, t.comparators[0]
    else:
        return False
    e = n.exc
    if not (isinstance(e, ast.Call) and util.dotted(e.func) == "KeyError" and len(e.args) == 1 and not e.keywords and ast.dump(e.args[0]) == ast.dump(key)):
        return False
    if n.cause is not None and not (isinstance(n.cause, ast.Constant) and n.cause.value is None):
        return False
    want = (ast.dump(mp), ast.dump(key))
    return any(isinstance(s, ast.Subscript) and (ast.dump(s.value), ast.dump(s.slice)) == want for s in ast.walk(fi.node))


def is_leaf_call(ct, kind):
    """the call whose outcome is the payload's outcome"""
    if ct[0] != "call":
        return False
    f = ct[1]
    if kind == "direct":
        return f == PAYLOAD
    if kind == "trio":
        return f == ("glob", "ext:trio.from_thread.run")
    if kind == "asyncio":
        return f[0] == "attr" and f[2] == "result"
    return False


def identity_and_transparency(chk):
    prog = chk.program
    fns, runners = chain_functions(chk)
    chk.floor("O10.runners", len(runners), 3)
    for label, fi in fns:
        name = fi.qual
        kind = leaf_kind(prog, fi) if label.endswith(".run_payload") and label != "MetaRunner.run_payload" else None

        def next_call(ct, kind=kind, label=label):
            if ct[0] != "call":
                return False
            if kind is not None:
                return is_leaf_call(ct, kind)
            f = ct[1]
            return f[0] == "attr" and f[2] == "run_payload"

        # ---- O10.1 return-value identity
        it = Interp(prog, fi, inline=own_helpers(fi))
        outs = it.run()
        chk.count(len(outs))
        ok = True
        n_ret = 0
        for o in outs:
            if o.kind == "raise":
                continue
            if o.kind != "return":
                chk.bad("O10.1", name, "%s can complete without returning the payload's result" % label, node=fi.node, stmt="no-return")
                ok = False
                continue
            n_ret += 1
            v = o.value
            calls = [e for e in o.path.events if e[0] == "call" and next_call(e[1])]
            if len(calls) != 1:
                chk.bad("O10.4", name, "%s runs / forwards the payload %d times on a path (required: exactly once)" % (label, len(calls)), node=fi.node, stmt="forward-count")
                ok = False
                continue
            if v != calls[0][1]:
                chk.bad(
                    "O10.1",
                    name,
                    "%s returns %s instead of the very object produced by %s" % (label, show(strip_sites(v)), show(strip_sites(calls[0][1]))),
                    node=fi.node,
                    stmt="return-transformed %s" % show(strip_sites(v))[:80],
                )
                ok = False
        if n_ret == 0:
            chk.bad("O10.1", name, "%s never returns a result" % label, node=fi.node, stmt="never-returns")
            ok = False
        if ok:
            chk.ok("O10.1", name, "%s returns the un-transformed result of %s" % (label, "the payload" if kind else "the next run_payload"), node=fi.node)
        # ---- O10.2 exception transparency
        ok = True
        own = [(f, n) for f in helper_closure(prog, fi) for n in ast.walk(f.node) if isinstance(n, ast.Raise) and not accepted_own_raise(f, n)]

        def never_taken(f, n):
            """`if not isinstance(runner, BaseRunner): raise TypeError(...)` whose test the type facts decide: the guard
            was evaluated on the explored paths and was False, decided (not forked), on every one of them"""
            up = util.parents_map(f.node).get(id(n))
            if not isinstance(up, ast.If) or n not in up.body:
                return False
            seen = [ev for o in outs for ev in o.path.events if ev[0] == "branch" and ev[3] == up.lineno]
            return bool(seen) and all(ev[2] is False and ev[4] == "determined" for ev in seen)

        own = [(f, n) for f, n in own if not never_taken(f, n)]
        for _f, n in own:
            chk.bad(
                "O10.2",
                name,
                "%s raises an exception of its own (%s): the caller of execute gets an exception the payload never raised, and the payload is not run" % (label, util.unparse(n.exc) if n.exc is not None else "re-raise"),
                node=n,
                stmt="own-raise %s" % (util.unparse(n.exc)[:60] if n.exc is not None else ""),
            )
            ok = False
        inject = dict(INJECT)
        inject.update(handler_representatives(prog, fi))
        for what, e in inject.items():

            def hook(it, path, ct, node, e=e):
                if next_call(ct):
                    return [("raise", e)]
                return None

            outs = Interp(prog, fi, call_hook=hook, inline=own_helpers(fi)).run()
            chk.count(len(outs))
            for o in outs:
                if not any(ev[0] == "raised-at-call" for ev in o.path.events):
                    continue
                if o.kind != "raise" or o.value != e:
                    chk.bad(
                        "O10.2",
                        name,
                        "when the payload raises %s, %s %s: the caller does not get the very exception the payload raised"
                        % (what, label, ("raises %s instead" % show(o.value)) if o.kind == "raise" else "completes by %s" % o.kind),
                        node=fi.node,
                        stmt="exception-not-transparent",
                        input=what,
                    )
                    ok = False
        if ok:
            chk.ok("O10.2", name, "an exception thrown by the payload leaves %s unchanged" % label, node=fi.node, input=sorted(inject))
    return fns, runners


def leaves(chk, fns):
    """O10.4 / O10.5: the leaves invoke the payload exactly once, unbound, and route into their own loop / token"""
    prog = chk.program
    for label, fi in fns[2:]:
        name = fi.qual
        kind = leaf_kind(prog, fi)
        outs = Interp(prog, fi, inline=own_helpers(fi)).run()
        chk.count(len(outs))
        ok = True
        for o in outs:
            if o.kind != "return":
                continue
            inv = [e[1] for e in o.path.events if e[0] == "call" and e[1][1] == PAYLOAD]
            handed = [e[1] for e in o.path.events if e[0] == "call" and PAYLOAD in e[1][2] and e[1][1] != PAYLOAD]
            if kind == "direct":
                if len(inv) != 1 or inv[0][2] or inv[0][3] or handed:
                    chk.bad("O10.4", name, "the thread runner does not call payload() exactly once in the caller's thread (%d calls, handed to %s)" % (len(inv), [show(h[1]) for h in handed]), node=fi.node, stmt="direct-call")
                    ok = False
            elif kind == "asyncio":
                sub = [e[1] for e in o.path.events if e[0] == "call" and e[1][1] == ("glob", "ext:asyncio.run_coroutine_threadsafe")]
                if len(inv) != 1 or inv[0][2] or inv[0][3] or len(sub) != 1:
                    chk.bad("O10.4", name, "the asyncio runner does not create exactly one coroutine payload() and submit it once", node=fi.node, stmt="asyncio-call")
                    ok = False
                    continue
                args = list(sub[0][2]) + [v for k_, v in sub[0][3] if k_ in (None, "loop")]
                if args[:1] != [inv[0]]:
                    chk.bad("O10.4", name, "the submitted coroutine is not payload()", node=fi.node, stmt="asyncio-coro")
                    ok = False
                loop = args[1] if len(args) > 1 else None
                if loop != ("attr", SELF, "asyncio_loop"):
                    chk.bad("O10.5", name, "the coroutine is submitted to %s instead of the runner's own event loop" % show(loop), node=fi.node, stmt="asyncio-loop")
                    ok = False
            elif kind == "trio":
                runs = [e[1] for e in o.path.events if e[0] == "call" and e[1][1] == ("glob", "ext:trio.from_thread.run")]
                if len(runs) != 1 or inv:
                    chk.bad("O10.4", name, "the trio runner does not hand the payload to trio.from_thread.run exactly once", node=fi.node, stmt="trio-call")
                    ok = False
                    continue
                if list(runs[0][2]) != [PAYLOAD]:
                    chk.bad("O10.4", name, "trio.from_thread.run is given %s instead of just the payload" % [show(a) for a in runs[0][2]], node=fi.node, stmt="trio-args")
                    ok = False
                tok = dict(runs[0][3]).get("trio_token")
                if tok != ("attr", SELF, slots.trio_token(prog, fi.cls)):
                    chk.bad("O10.5", name, "the payload is run with trio_token=%s instead of the runner's own token (a missing token only works from trio-spawned threads)" % show(tok), node=fi.node, stmt="trio-token")
                    ok = False
        if ok:
            chk.ok("O10.4", name, "%s runner: payload run exactly once, routed into the runner's own %s" % (kind, {"asyncio": "loop", "trio": "trio token", "direct": "caller thread"}[kind]), node=fi.node)


def bypass(chk, fns, runners):
    """O10.3: nothing reachable from run_payload touches the failure monitor / future / registry / channel"""
    prog = chk.program
    rule = "O10.3"
    for label, fi in fns[2:]:
        cls = fi.cls
        name = fi.qual
        facts = common.runner_facts(prog, cls)
        forbidden_attrs = {a for a in (facts.get("failure_future"), facts.get("task_registry"), facts.get("submit_channel")) if a}
        forbidden_methods = set(facts.get("monitors", ())) | set(facts.get("signal_helpers", ()))
        seen, todo = set(), [fi]
        bad = []
        while todo:
            f = todo.pop()
            if f.qual in seen:
                continue
            seen.add(f.qual)
            asserts = {id(x) for n in ast.walk(f.node) if isinstance(n, ast.Assert) for x in ast.walk(n)}
            par = util.parents_map(f.node)
            for n in ast.walk(f.node):
                if isinstance(n, ast.Attribute) and isinstance(n.value, ast.Name) and n.value.id == "self":
                    chk.count()
                    if id(n) in asserts:
                        continue
                    if n.attr in forbidden_attrs:
                        # only uses that can change or feed the object count: a method call on it, a store,
                        # or handing it to another call -- a plain read (e.g. into a local for an assert) does not
                        up = par.get(id(n))
                        mutating = isinstance(n.ctx, ast.Store) or (isinstance(up, ast.Attribute) and isinstance(par.get(id(up)), ast.Call) and par[id(up)].func is up) or (isinstance(up, ast.Call) and n in up.args)
                        if not mutating:
                            continue
                        bad.append((n, "self.%s" % n.attr))
                    elif n.attr in forbidden_methods:
                        bad.append((n, "self.%s" % n.attr))
                    else:
                        m = prog.lookup_method(cls, n.attr)
                        if m is not None and m.cls is not None and m.qual not in seen and n.attr not in ("run_payload",):
                            todo.append(m)
        for n, what in bad:
            chk.bad(rule, name, "execute reaches %s (the %s of background payloads): an executed payload's outcome would count as a background failure or be tracked as a background task" % (what, "failure monitor / failure future / task registry / submit channel"), node=n, stmt="touches %s" % what)
        if not bad:
            chk.ok(rule, name, "run_payload reaches none of %s" % sorted(forbidden_attrs | forbidden_methods), node=fi.node)
    # MetaRunner.run_payload / execute must not register
    for label, fi in fns[:2]:
        for n in ast.walk(fi.node):
            if isinstance(n, ast.Attribute) and n.attr in ("register_payload", "adopt"):
                chk.bad(rule, fi.qual, "%s registers the payload as a background payload" % label, node=n, stmt="registers")


def binding(chk):
    prog = chk.program
    fi = prog.method(SERVICE_RUNNER, "execute")
    common.binding_rule(chk, "O10.4", fi, forward_attr="run_payload")


def no_lock_across_payload(chk, fns):
    """O10.6: no function on the execute chain holds a threading lock while the payload runs: executes are independent --
    one that is held up (or that itself executes another payload) must not block or deadlock the others"""
    prog = chk.program
    rule = "O10.6"
    from . import c11

    mods = {f.module for _l, fi in fns for f in helper_closure(prog, fi)}
    locks, secs = c11.lock_sections(prog, sorted(mods, key=lambda m: m.name))
    chain_nodes = {id(f.node): (label, f) for label, fi in fns for f in helper_closure(prog, fi)}
    bad = False
    chk.count(len(secs))
    for lk, m, fnode, body in secs:
        if id(fnode) not in chain_nodes:
            continue
        label, f = chain_nodes[id(fnode)]
        holds = [c for st in body for c in ast.walk(st) if isinstance(c, ast.Call) and ((isinstance(c.func, ast.Attribute) and c.func.attr in ("run_payload", "result", "run", "run_sync")) or (isinstance(c.func, ast.Name) and c.func.id in ("payload",)))]
        # a wrapping decorator: the whole body of the decorated function runs under the lock
        decorated = body is fnode.body
        if holds or decorated:
            bad = True
            chk.bad(rule, f.qual, "%s holds the lock `%s` while the payload runs (%s): all executes are serialised behind it, a payload that executes another payload deadlocks on a non-reentrant lock, and a long-running execute starves every other caller" % (label, lk, util.unparse(holds[0].func) if holds else "wrapping decorator"), node=fnode, stmt="lock %s across payload" % lk)
    if not bad:
        chk.ok(rule, "<execute chain>", "no function on the execute chain runs or forwards the payload inside a threading lock section (%d lock sections in its modules)" % len(secs))


def payload_is_opaque(chk):
    """O10.7: the execute chain treats the payload as an opaque callable.  Using it as a dictionary key / set member (its
    __hash__ and __eq__ are the caller's: an unhashable callable never runs, two equal payloads executed at the same time
    share one entry) or cleaning up such bookkeeping in a `finally` (a KeyError there replaces the payload's result or
    exception) changes the outcome the caller sees"""
    prog = chk.program
    rule = "O10.7"
    fns, _runners = chain_functions(chk)
    n = 0
    ok = True
    for label, fi in fns:
        ps = [p for p in fi.params() if p in ("payload",)] or fi.params()[:1]
        if not ps:
            continue
        pay = ps[0]
        par = util.parents_map(fi.node)
        for x in ast.walk(fi.node):
            if not (isinstance(x, ast.Name) and x.id == pay and isinstance(x.ctx, ast.Load)):
                continue
            n += 1
            chk.count()
            up = par.get(id(x))
            keyed = (isinstance(up, ast.Subscript) and up.slice is x) or (isinstance(up, ast.Call) and x in up.args and isinstance(up.func, ast.Attribute) and up.func.attr in ("add", "discard", "remove", "setdefault", "pop", "index", "count")) or (isinstance(up, ast.Compare) and any(isinstance(o, (ast.In, ast.NotIn, ast.Eq, ast.NotEq)) for o in up.ops)) or (isinstance(up, (ast.Set, ast.Dict)))
            if keyed:
                chk.bad(rule, fi.qual, "%s uses the payload as a key / member / comparand (%s): an unhashable callable is refused before it runs, two equal payloads executed at the same time share one entry, and removing the entry in a cleanup block raises KeyError in place of the payload's own result or exception" % (label, util.unparse(up)[:60]), node=x, stmt="payload-keyed in %s" % fi.name)
                ok = False
    if ok:
        chk.ok(rule, "<execute chain>", "%d uses of the payload on the execute chain: it is only bound, handed on and called" % n)


def concurrent_result_is_total(chk):
    """O10.8: concurrent.futures.Future.result() raises the stored exception only when it is TRUTHY (library fact, cross-read:
    `if self._exception:`); an exception class that defines __len__ / __bool__ can be false, and result() then returns None.
    Where the execute chain takes the payload's outcome from such a future it must ask `exception() is not None` itself"""
    prog = chk.program
    from .. import libfacts

    rule = "O10.8"
    chk.facts.update({k: v for k, v in libfacts.cross_read().items() if "concurrent.futures" in k})
    fns, _runners = chain_functions(chk)
    n = 0
    ok = True
    for label, fi in fns:
        futs = {}
        for a in ast.walk(fi.node):
            if isinstance(a, ast.Assign) and len(a.targets) == 1 and isinstance(a.targets[0], ast.Name) and isinstance(a.value, ast.Call) and prog.resolve(fi.module, a.value.func) in ("ext:asyncio.run_coroutine_threadsafe",):
                futs[a.targets[0].id] = a
        direct = [c for c in ast.walk(fi.node) if isinstance(c, ast.Call) and isinstance(c.func, ast.Attribute) and c.func.attr == "result" and isinstance(c.func.value, ast.Call) and prog.resolve(fi.module, c.func.value.func) == "ext:asyncio.run_coroutine_threadsafe"]
        for c in direct:
            n += 1
            chk.count()
            chk.bad(rule, fi.qual, "%s returns run_coroutine_threadsafe(...).result(): a payload exception whose truth value is false is not raised -- the caller gets None" % label, node=c, stmt="concurrent-result-unchecked in %s" % fi.name, input="payload raises an exception e with bool(e) == False")
            ok = False
        for nm in futs:
            results = [c for c in ast.walk(fi.node) if isinstance(c, ast.Call) and isinstance(c.func, ast.Attribute) and c.func.attr == "result" and isinstance(c.func.value, ast.Name) and c.func.value.id == nm]
            for c in results:
                n += 1
                chk.count()
                # accepted: an earlier `e = fut.exception()` whose value is tested with `is not None` and raised
                asked = [a for a in ast.walk(fi.node) if isinstance(a, ast.Call) and isinstance(a.func, ast.Attribute) and a.func.attr == "exception" and isinstance(a.func.value, ast.Name) and a.func.value.id == nm and a.lineno <= c.lineno]
                tested = any(isinstance(t, ast.If) and isinstance(t.test, ast.Compare) and len(t.test.ops) == 1 and isinstance(t.test.ops[0], ast.IsNot) and isinstance(t.test.comparators[0], ast.Constant) and t.test.comparators[0].value is None and any(isinstance(r, ast.Raise) for r in t.body) and t.lineno <= c.lineno for t in ast.walk(fi.node))
                if not (asked and tested):
                    chk.bad(
                        rule,
                        fi.qual,
                        "%s hands the caller %s.result() of a concurrent future without asking `exception() is not None` first: Future.result() raises the stored exception only if it is truthy, so a payload exception that is false (it defines __len__ or __bool__) is swallowed and execute returns None instead of raising it" % (label, nm),
                        node=c,
                        stmt="concurrent-result-unchecked in %s" % fi.name,
                        input="payload raises an exception e with bool(e) == False",
                    )
                    ok = False
    if ok:
        chk.ok(rule, "<execute chain>", "%d outcomes taken from a concurrent future: each asks exception() is not None before result()" % n)


def run(chk):
    chk.guard("O10.8", "<execute chain>", concurrent_result_is_total, chk)
    chk.guard("O10.7", "<execute chain>", payload_is_opaque, chk)
    res = chk.guard("O10.1", "<execute chain>", identity_and_transparency, chk)
    if res:
        chk.guard("O10.6", "<execute chain>", no_lock_across_payload, chk, res[0])
    if res:
        fns, runners = res
        chk.guard("O10.4", "<leaves>", leaves, chk, fns)
        chk.guard("O10.3", "<bypass>", bypass, chk, fns, runners)
    chk.guard("O10.4", SERVICE_RUNNER + ".execute", binding, chk)
