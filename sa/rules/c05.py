"""C05 -- a YAML pipeline section builds the chain it describes."""
import ast

from .. import util
from ..interp import Interp, Path, exc_value, is_exc, show, strip_sites, subterms, NONE, iteration_layers
from ..report import Undecided
from . import c04, c19

SELF = ("sym", "self")
YAML_CTOR = "cobald.daemon.config.yaml:yaml_constructor"
ADD_PLUGINS = "cobald.daemon.core.config:add_constructor_plugins"
PIPELINE = "cobald.daemon.core.config:PipelineTranslator"
ISINSTANCE = ("glob", "ext:builtins.isinstance")
HASATTR = ("glob", "ext:builtins.hasattr")
CONFIG_MODULES = ("cobald.daemon.core.config", "cobald.daemon.config.mapping", "cobald.daemon.config.yaml")


def node_kinds(chk):
    prog = chk.program
    rule = "O5.1"
    outer = prog.func(YAML_CTOR)
    inner = [f for f in prog.functions.values() if f.parent is outer]
    bound_env = None
    if not inner:
        # return functools.partial(<module-level constructor>, factory, eager): its leading parameters are the outer's
        for r in ast.walk(outer.node):
            if isinstance(r, ast.Return) and isinstance(r.value, ast.Call) and prog.resolve(outer.module, r.value.func) == "ext:functools.partial" and r.value.args:
                g = prog.functions.get(prog.resolve(outer.module, r.value.args[0]) or "")
                if g is not None and g.cls is None:
                    inner = [g]
                    bound = r.value.args[1:]
                    bound_env = {("sym", p): ("sym", a.id) for p, a in zip(g.params(), bound) if isinstance(a, ast.Name)}
                    bound_env.update({("sym", k.arg): ("sym", k.value.id) for k in r.value.keywords if k.arg and isinstance(k.value, ast.Name)})
    if len(inner) != 1:
        chk.undecided(rule, outer.qual, "yaml_constructor does not define exactly one constructor function", node=outer.node)
        return
    fi = inner[0]
    name = fi.qual
    params = [p for p in fi.params() if ("sym", p) not in (bound_env or {})]
    loader, node = ("sym", params[0]), ("sym", params[1])
    ok = True
    KINDS = {"MappingNode": "mapping", "SequenceNode": "sequence", "ScalarNode": "scalar", None: "other"}
    for kind, label in KINDS.items():

        def decide(it, path, term, kind=kind):
            if term[0] == "call" and term[1] == ISINSTANCE and len(term[2]) == 2 and term[2][0] == node:
                c = term[2][1]
                names = [c] if c[0] != "tuple" else list(c[1])
                return any(n[0] == "glob" and kind is not None and n[1].endswith("." + kind) for n in names)
            return None

        # module-level helpers of the same module that do the node dispatch are inlined; `deep` is whatever they are given
        _it = Interp(prog, fi, decide=decide, inline=lambda f, ct: f.cls is None and f.module is fi.module and f.parent is None and not f.is_async and f is not fi)
        outs = _it.run(env=bound_env) if bound_env else _it.run()
        chk.count(len(outs))

        def drop_empty(ct):
            """factory(*(), **{}) is factory()"""
            args = tuple(a for a in ct[2] if not (a[0] == "star" and strip_sites(a[1]) in (("tuple", ()), ("list", ()))))
            kws = tuple((k, v) for k, v in ct[3] if not (k is None and strip_sites(v) in (("dict", ()), ("call", ("glob", "ext:builtins.dict"), (), ()))))
            return (ct[0], ct[1], args, kws) + tuple(ct[4:])

        for o in outs:
            facs = [drop_empty(e[1]) for e in o.path.events if e[0] == "call" and e[1][1] == ("sym", "factory")]
            if o.kind == "return" and o.value is not None and o.value[0] == "call" and o.value[1] == ("sym", "factory"):
                o.value = drop_empty(o.value)
            if label == "other":
                if o.kind != "raise":
                    chk.bad(rule, name, "a node that is neither mapping, sequence nor scalar does not raise (%s)" % o.kind, node=fi.node, stmt="other-node", input=label)
                    ok = False
                continue
            if o.kind != "return" or len(facs) != 1 or o.value != facs[0]:
                chk.bad(rule, name, "a %s node does not return exactly one factory call (%d calls, path ends by %s)" % (label, len(facs), o.kind), node=fi.node, stmt="%s-call-count" % label, input=label)
                ok = False
                continue
            ct = facs[0]
            cons = [e[1] for e in o.path.events if e[0] == "call" and e[1][1][0] == "attr" and e[1][1][1] == loader and e[1][1][2].startswith("construct_")]
            if label == "scalar":
                if ct[2] or ct[3]:
                    chk.bad(rule, name, "a bare tag calls the factory with arguments %s" % show(strip_sites(ct)), node=fi.node, stmt="scalar-args", input=label)
                    ok = False
                continue
            want_cons = "construct_mapping" if label == "mapping" else "construct_sequence"
            if len(cons) != 1 or cons[0][1][2] != want_cons or list(cons[0][2]) != [node]:
                chk.bad(rule, name, "a %s node is not constructed by exactly one loader.%s(node)" % (label, want_cons), node=fi.node, stmt="%s-construct" % label, input=label)
                ok = False
                continue
            deep = dict((k, v) for k, v in cons[0][3] if k).get("deep")
            if deep != ("sym", "eager"):
                chk.bad(rule, name, "%s arguments are constructed with deep=%s instead of following the `eager` setting" % (label, show(deep) if deep else "default"), node=fi.node, stmt="%s-deep" % label, input=label)
                ok = False
            if label == "mapping":
                good = not ct[2] and list(ct[3]) == [(None, cons[0])]
            else:
                good = list(ct[2]) == [("star", cons[0])] and not ct[3]
            if not good:
                chk.bad(rule, name, "a %s node calls %s (required: factory(%s))" % (label, show(strip_sites(ct)), "**mapping" if label == "mapping" else "*sequence"), node=fi.node, stmt="%s-call-shape" % label, input=label)
                ok = False
    # the constructor function is what yaml_constructor returns
    rets = [n for n in outer.node.body if isinstance(n, ast.Return)]
    if bound_env is None and (not rets or not (isinstance(rets[-1].value, ast.Name) and rets[-1].value.id == fi.name)):
        chk.bad(rule, outer.qual, "yaml_constructor does not return its constructor function", node=outer.node, stmt="no-return")
        ok = False
    if ok:
        chk.ok(rule, name, "mapping -> factory(**construct_mapping(node, deep=eager)); sequence -> factory(*construct_sequence(node, deep=eager)); scalar -> factory(); anything else raises", node=fi.node, input="4 node kinds")


def plugin_registration(chk):
    prog = chk.program
    rule = "O5.2"
    fi = prog.func(ADD_PLUGINS)
    name = fi.qual
    ATTR_ERR = exc_value("ext:builtins.AttributeError", "no-s")
    ok = True
    for has_s in (True, False):

        def attr_hook(it, path, base, attr, node, has_s=has_s):
            return None

        def hook(it, path, ct, node):
            return None

        it = Interp(prog, fi, unroll=1)
        # designated: the `.s` attribute read raises AttributeError when the plugin has none
        orig = it.read_attr

        def read_attr(base, attr, path, node=None, has_s=has_s, orig=orig):
            if attr == "s" and not has_s:
                raise _AttrRaise()
            return orig(base, attr, path, node)

        outs = run_with_attr_error(prog, fi, has_s)
        chk.count(len(outs))
        for o in outs:
            iters = [e for e in o.path.events if e[0] == "loop-iter"]
            if len(iters) != 1 or o.kind == "raise":
                continue
            adds = [e[1] for e in o.path.events if e[0] == "call" and e[1][1][0] == "attr" and e[1][1][2] == "add_constructor"]
            if len(adds) != 1:
                chk.bad(rule, name, "a plugin entry registers %d constructors" % len(adds), node=fi.node, stmt="add-count")
                ok = False
                continue
            ct = adds[0]
            kw = dict((k, v) for k, v in ct[3] if k)
            cons = kw.get("constructor", ct[2][1] if len(ct[2]) > 1 else None)
            if cons is None or not (cons[0] == "call" and cons[1] == ("glob", YAML_CTOR)):
                chk.bad(rule, name, "the registered constructor is %s, not yaml_constructor(factory)" % (show(strip_sites(cons)) if cons else "missing"), node=fi.node, stmt="constructor")
                ok = False
                continue
            fac = cons[2][0] if cons[2] else None
            entry_load = None
            for e in o.path.events:
                if e[0] == "call" and e[1][1][0] == "attr" and e[1][1][2] == "load" and e[1][1][1][0] == "item":
                    entry_load = e[1]
            if has_s:
                good = fac is not None and fac[0] == "attr" and fac[2] == "s" and fac[1][0] == "call" and fac[1][1][2] == "load"
            else:
                good = fac is not None and fac[0] == "call" and fac[1][0] == "attr" and fac[1][2] == "load"
            if not good:
                chk.bad(rule, name, "a plugin %s `.s` template factory is registered as %s" % ("with a" if has_s else "without a", show(strip_sites(fac)) if fac else "nothing"), node=fi.node, stmt="factory-%s" % has_s, input="plugin has .s: %s" % has_s)
                ok = False
            eg = dict((k, v) for k, v in cons[3] if k).get("eager")
            if eg is None or not (eg[0] == "attr" and eg[2] == "eager"):
                chk.bad(rule, name, "the plugin's eager setting is not handed to yaml_constructor (%s)" % (show(eg) if eg else "missing"), node=fi.node, stmt="eager")
                ok = False
    if ok:
        chk.ok(rule, name, "registers yaml_constructor(plugin.s if it has one else plugin, eager=settings.eager) per entry point", node=fi.node)


class _AttrRaise(Exception):
    pass


def run_with_attr_error(prog, fi, has_s):
    """interpret fi; reading `.s` raises AttributeError when has_s is False"""
    ATTR_ERR = exc_value("ext:builtins.AttributeError", "no-s")

    class I(Interp):
        def e_Attribute(self, node, path):
            if node.attr == "s" and not has_s:
                out = []
                for k, p, b in self.eval(node.value, path):
                    if k == "raise":
                        out.append((k, p, b))
                    else:
                        p.ev("raised-at-attr", ATTR_ERR, node.lineno)
                        out.append(("raise", p, ATTR_ERR))
                return out
            return super().e_Attribute(node, path)

    return I(prog, fi, unroll=1).run()


def linking_loop(chk):
    prog = chk.program
    rule = "O5.3"
    fi = prog.method(PIPELINE, "translate_hierarchy")
    name = fi.qual
    PARTIAL = ("glob", util.PARTIAL)
    KEY_ERR = exc_value("ext:builtins.KeyError", "no-pipeline")

    ok = True
    n_paths = 0
    for item_kinds in (("tpl", "tpl"), ("tpl", "map"), ("map", "tpl"), ("map", "map")):
        for tail_is_partial in (True, False):

            def decide(it, path, term, item_kinds=item_kinds, tail_is_partial=tail_is_partial):
                if term[0] == "call" and term[1] == HASATTR and len(term[2]) == 2 and term[2][1] == ("const", "__rshift__"):
                    x = term[2][0]
                    if x[0] == "proj" and x[1][0] == "item":
                        i = x[1][2]
                        return item_kinds[min(i, 1)] == "tpl" if i >= 1 else item_kinds[0] == "tpl"
                    return None
                if term[0] == "isnone" and term[1][0] in ("call", "binop"):
                    return False  # a constructed pipeline element is an object, never None
                if term[0] == "call" and term[1] == ISINSTANCE and len(term[2]) == 2 and term[2][1] == PARTIAL:
                    x = term[2][0]
                    # only the raw translation of the tail element can still be a template
                    if x[0] == "call" and x[1] == ("attr", SELF, "translate_hierarchy") and not any(k == "target" for k, _v in x[3]):
                        return tail_is_partial
                    return False
                return None

            it = Interp(prog, fi, decide=decide, unroll=2, inline=lambda f, ct, fi=fi: f.cls is fi.cls and f.name not in ("translate_hierarchy", "construct", "load_name"))
            outs = it.run()
            chk.count(len(outs))
            for o in outs:
                if o.kind == "raise":
                    # the "no template survives" guard must never fire for a well-formed pipeline: a template in tail
                    # position (the pool written as a __type__ mapping) is constructed, not reported
                    if is_exc(o.value) and o.value[1] == "ext:builtins.AssertionError" and any(e[0] == "loop-iter" for e in o.path.events) and ok:
                        chk.bad(rule, name, "a well-formed pipeline (%s tail) makes the translation fail with AssertionError: the template in tail position is not constructed before the no-template-survives guard" % ("template" if tail_is_partial else "object"), node=fi.node, stmt="tail-guard-fires", input="kinds %s, tail %s" % (item_kinds, "template" if tail_is_partial else "object"))
                        ok = False
                    continue
                iters = [e for e in o.path.events if e[0] == "loop-iter"]
                if o.kind != "return":
                    chk.bad(rule, name, "the pipeline translation ends by %s" % o.kind, node=fi.node, stmt="exit")
                    ok = False
                    continue
                if not iters:
                    continue
                n_paths += 1
                label = "%d elements, kinds (last to first) %s, tail %s" % (len(iters), item_kinds[: len(iters)], "template" if tail_is_partial else "object")
                appends = [e[1] for e in o.path.events if e[0] == "call" and e[1][1][0] == "attr" and e[1][1][2] in ("append", "appendleft")]
                front = {c[1][2] for c in appends} == {"appendleft"}  # collected front-first: already in configuration order
                if len({c[1][2] for c in appends}) > 1:
                    chk.undecided(rule, name, "results are collected at both ends", node=fi.node)
                    return
                if len(appends) != len(iters):
                    chk.bad(rule, name, "%d elements but %d results collected" % (len(iters), len(appends)), node=fi.node, stmt="append-count", input=label)
                    ok = False
                    continue
                # iteration source
                items = [e[2] for e in o.path.events if e[0] == "bind" and e[2][0] == "proj" and e[2][1][0] == "item" and e[2][2] == 1]
                idxs = [e[2] for e in o.path.events if e[0] == "bind" and e[2][0] == "proj" and e[2][1][0] == "item" and e[2][2] == 0]
                if len(items) < len(iters) or len(idxs) < len(iters):
                    chk.undecided(rule, name, "loop target is not (index, item)", node=fi.node)
                    return
                src = strip_sites(items[0][1][1])
                layers, s = iteration_layers(src)
                core = [x for x in layers if x in ("reversed", "enumerate")]
                if core == ["enumerate", "reversed"]:
                    chk.bad(rule, name, "the pipeline is reversed before it is enumerated: error locations carry indices counted from the end", node=fi.node, stmt="enumerate-after-reverse")
                    ok = False
                    continue
                if core == ["enumerate"]:
                    chk.bad(rule, name, "the pipeline is linked first-to-last: every element must receive the NEXT object as its target, so construction has to run last to first", node=fi.node, stmt="forward-iteration")
                    ok = False
                    continue
                if core != ["reversed", "enumerate"]:
                    chk.undecided(rule, name, "pipeline iteration idiom not recognised: %s" % layers, node=fi.node)
                    return
                acc_prev = None
                for i in range(len(iters)):
                    item, idx = items[i], idxs[i]
                    acc = appends[i][2][0] if appends[i][2] else None
                    a = strip_sites(acc)
                    where_tpl = None

                    def rec_call(t):
                        return t[0] == "call" and t[1] == ("attr", SELF, "translate_hierarchy")

                    if i == 0:
                        base = a
                        constructed = False
                        if a[0] == "call" and a[1][0] == "attr" and a[1][2] == "__construct__":
                            base, constructed = a[1][1], True
                        if not rec_call(base) or list(base[2]) != [strip_sites(item)]:
                            chk.bad(rule, name, "the last element (the pool) is %s instead of the translation of the last item" % show(a), node=fi.node, stmt="tail", input=label)
                            ok = False
                            break
                        if any(k == "target" for k, _v in base[3]):
                            chk.bad(rule, name, "the last element is given a target", node=fi.node, stmt="tail-target", input=label)
                            ok = False
                        if tail_is_partial and not constructed:
                            chk.bad(rule, name, "a template in tail position is not constructed: the pipeline ends in an unbound template", node=fi.node, stmt="tail-not-constructed", input=label)
                            ok = False
                        if constructed and (a[2] or a[3]):
                            chk.bad(rule, name, "the tail template is constructed with arguments", node=fi.node, stmt="tail-construct-args", input=label)
                            ok = False
                        where_tpl = dict((k, v) for k, v in base[3] if k).get("where")
                    else:
                        prev = strip_sites(acc_prev)
                        kind = item_kinds[min(i, 1)]
                        if a[0] == "binop" and a[1] == ">>":
                            if a[2] != strip_sites(item) or a[3] != prev:
                                chk.bad(rule, name, "element %d is linked as %s instead of item >> previous accumulator" % (i, show(a)), node=fi.node, stmt="link-rshift", input=label)
                                ok = False
                                break
                        elif rec_call(a):
                            kw = dict((k, v) for k, v in a[3] if k)
                            if list(a[2]) != [strip_sites(item)]:
                                chk.bad(rule, name, "element %d translates %s instead of its own item" % (i, [show(x) for x in a[2]]), node=fi.node, stmt="link-item", input=label)
                                ok = False
                                break
                            if kw.get("target") != prev:
                                chk.bad(
                                    rule,
                                    name,
                                    "element %d (counted from the tail) is translated %s although the next object %s exists: the element is not linked to it%s"
                                    % (i, "with target=%s" % show(kw["target"]) if "target" in kw else "without a target", show(prev), " (the accumulator is tested for truthiness, not for `is not None`: a falsy pool is mistaken for 'no successor')" if any(e[0] == "branch" and e[4] == "forked" and e[1] == acc_prev for e in o.path.events) else ""),
                                    node=fi.node,
                                    stmt="link-target-missing",
                                    input=label,
                                )
                                ok = False
                                break
                            where_tpl = kw.get("where")
                        else:
                            chk.bad(rule, name, "element %d becomes %s, which links it neither by >> nor by target=" % (i, show(a)), node=fi.node, stmt="link-shape", input=label)
                            ok = False
                            break
                    if where_tpl is not None:
                        tpl = c19.template(where_tpl)
                        if tpl != [("sym", "where"), "[", strip_sites(idx), "]"]:
                            chk.bad(rule, name, "the location of element %d is %s, not <where>[<original index>]" % (i, show(where_tpl)), node=fi.node, stmt="where", input=label)
                            ok = False
                    acc_prev = acc
                # result re-reversed
                r = strip_sites(o.value)
                rev = iteration_layers(r)[0].count("reversed") % 2 == 1
                if rev == front:
                    chk.bad(rule, name, "the collected objects are returned in construction order (last to first) instead of configuration order", node=fi.node, stmt="not-re-reversed")
                    ok = False
    # the "no template survives" guard
    src = ast.unparse(fi.node)
    if "assert not isinstance" not in src and "raise" not in src:
        chk.notes.append("no guard against surviving templates found")
    if n_paths < 8:
        chk.undecided(rule, name, "only %d linking paths explored" % n_paths, node=fi.node)
        ok = False
    if ok:
        chk.ok(rule, name, "reversed(list(enumerate(pipeline))); every element is linked to the previous accumulator in target position exactly once (>> or target=); template tail constructed; appended after re-binding; re-reversed", node=fi.node, input="%d paths: 1-2 elements x template/__type__ kinds x template/object tail" % n_paths)
    # not-a-pipeline structures are delegated to the plain translator with all arguments
    def sub_hook(it, path, base, idx, node):
        if base == ("sym", "structure"):
            return [("raise", KEY_ERR)]
        return None
    outs = Interp(prog, fi, sub_hook=sub_hook).run()
    for o in outs:
        if not any(e[0] == "raised-at-subscript" for e in o.path.events):
            continue  # ended before the lookup of the pipeline key (an argument guard)
        if o.kind != "return" or not (o.value[0] == "call" and o.value[1][0] == "attr" and o.value[1][2] == "translate_hierarchy" and o.value[1][1][0] == "call"):
            chk.bad(rule, name, "a structure without a pipeline key is not delegated to the plain translation", node=fi.node, stmt="delegate")
        else:
            kw = [k for k, _v in o.value[3]]
            if "where" not in kw or None not in kw:
                chk.bad(rule, name, "the delegation drops the location or the extra keyword arguments (%s)" % kw, node=fi.node, stmt="delegate-args")


def narrow_try(chk):
    """O5.4: no handler that can complete normally has a factory / digest call in its try body"""
    prog = chk.program
    rule = "O5.4"
    ALLOWED_ATTR = {"load", "pop", "get", "keys", "items", "split"}
    ALLOWED_NAMES = {"ext:builtins.__import__", "ext:builtins.getattr", "ext:builtins.open", "ext:builtins.len"}
    n = 0
    for modname in CONFIG_MODULES:
        mod = prog.module(modname)
        for t in ast.walk(mod.tree):
            if not isinstance(t, ast.Try):
                continue
            swallowing = [h for h in t.handlers if not util.handler_reraises_all_paths(prog, None, h)]
            if not swallowing:
                continue
            n += 1
            fi = prog.enclosing_function(mod, t)
            where = fi.qual if fi else modname
            offenders = []
            for st in t.body:
                for c in ast.walk(st):
                    if isinstance(c, ast.BinOp) and isinstance(c.op, ast.RShift):
                        offenders.append((c, "a >> binding"))
                    if not isinstance(c, ast.Call):
                        continue
                    chk.count()
                    r = prog.resolve(mod, c.func)
                    if r in ALLOWED_NAMES:
                        continue
                    if isinstance(c.func, ast.Attribute) and c.func.attr in ALLOWED_ATTR:
                        continue
                    offenders.append((c, "the call %s" % util.unparse(c.func)))
            types = ", ".join(util.unparse(h.type) if h.type else "<bare>" for h in swallowing)
            if offenders:
                for c, what in offenders:
                    chk.bad(
                        rule,
                        where,
                        "%s sits inside a try whose `except %s` handler does not re-raise: an exception of that type raised INSIDE a plugin / constructor / factory is mistaken for the condition the handler was written for and swallowed or redirected"
                        % (what, types),
                        node=c,
                        stmt="wide-try %s except %s" % (util.unparse(c.func) if isinstance(c, ast.Call) else ">>", types),
                    )
            else:
                chk.ok(rule, where, "try body of the non-re-raising `except %s` contains no factory, constructor or digest call" % types, node=t)
    chk.floor(rule, n, 3)


def run(chk):
    # the document is read while its stream is open (shared with C13)
    from . import c13

    chk.guard("O13.7", c13.YAML_LOAD, c13.read_while_open, chk)
    chk.guard("O5.1", YAML_CTOR, node_kinds, chk)
    chk.guard("O5.2", ADD_PLUGINS, plugin_registration, chk)
    chk.guard("O5.3", PIPELINE, linking_loop, chk)
    chk.guard("O5.4", "<config modules>", narrow_try, chk)
    # O5.5 / O5.6: the legacy constructor and the templates hand the configured arguments through unchanged
    chk.guard("O19.5", "Translator.construct", c19.construct_rules, chk)
    chk.guard("O19.1", c19.TRANSLATOR, c19.structure_rules, chk)
    chk.guard("O19.1", c19.TRANSLATOR, c19.per_activation_state, chk)
    # "loading a configuration ... yields": the loader's tag checks leave valid documents (merge keys, registered tags) alone
    from . import c18

    chk.guard("O18.10", "COBalDLoader", c18.loader_overrides_keep_valid_documents, chk)
    chk.guard("O4.1", util.PARTIAL, c04.partial_core, chk)
