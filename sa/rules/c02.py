"""C02 -- termination cancels every coroutine payload and finishes its cleanup first."""
import ast

from .. import libfacts, util
from ..interp import Interp, Path, iteration_layers, exc_value, is_exc, show, strip_sites, subterms, NONE, REPRESENTATIVES
from .. import slots
from ..report import Undecided
from . import common

SELF = ("sym", "self")
META = "cobald.daemon.runners.meta_runner:MetaRunner"
BASE = util.BASE_RUNNER
GATHER = ("glob", "ext:asyncio.gather")
SHIELD = ("glob", "ext:asyncio.shield")


def is_awaited(evs, i):
    """is the call of event i awaited: directly, through a later `await <value>`, or via an awaited shield/wait_for"""
    e = evs[i]
    if e[3]:
        return True
    ct = e[1]
    for e2 in evs[i + 1 :]:
        if e2[0] == "await" and e2[1] == ct:
            return True
        if e2[0] == "call" and e2[1][1] in (SHIELD, ("glob", "ext:asyncio.wait_for")) and ct in e2[1][2]:
            j = evs.index(e2)
            if is_awaited(evs, j):
                return True
    return False


def find_close_all(prog):
    """the MetaRunner coroutine that awaits runner.aclose() for the runners"""
    cls = prog.cls(META)
    for fis in cls.methods.values():
        for fi in fis:
            if fi.is_async and any(isinstance(n, ast.Attribute) and n.attr == "aclose" for n in ast.walk(fi.node)):
                return fi
    # ... or a module-level coroutine of the same module that is handed the runners
    for q, fi in prog.functions.items():
        if fi.cls is None and fi.module is cls.module and fi.is_async and any(isinstance(n, ast.Attribute) and n.attr == "aclose" for n in ast.walk(fi.node)):
            return fi
    raise Undecided("no close-all coroutine (awaiting runner.aclose()) in MetaRunner", cls.node)


def supervisor(chk):
    prog = chk.program
    rule = "O2.1"
    fi = slots.supervisor(prog)
    name = fi.qual
    close = find_close_all(prog)
    CLOSE = ("attr", SELF, close.name) if close.cls is not None else ("glob", close.qual)
    ok = True
    for label in ("AnyException", "OtherBase", "KeyboardInterrupt", "asyncio.CancelledError"):
        e = REPRESENTATIVES[label]

        def hook(it, path, ct, node, e=e):
            if ct[0] == "call" and ct[1] == GATHER:
                return [("raise", e)]
            return None

        outs = Interp(prog, fi, call_hook=hook).run()
        chk.count(len(outs))
        for o in outs:
            evs = o.path.events
            if not any(ev[0] == "raised-at-call" for ev in evs):
                continue
            closes = [(i, ev) for i, ev in enumerate(evs) if ev[0] == "call" and ev[1][1] == CLOSE]
            awaited_ok = any(is_awaited(evs, i) for i, _ev in closes)
            if label == "KeyboardInterrupt" and o.kind == "raise":
                chk.bad(
                    rule,
                    name,
                    "a KeyboardInterrupt at the join is re-raised by the supervising coroutine: raising it inside the event loop aborts the loop again before asyncio.run has waited for the trio thread, so run() returns while trio payloads are still cleaning up (it must be absorbed here after close-all; MetaRunner.run treats the interrupt as a clean stop anyway)",
                    node=fi.node,
                    stmt="kbi-reraised",
                    input=label,
                )
                ok = False
            if not closes:
                chk.bad(rule, name, "when the join over the runners ends with %s, the supervising coroutine exits without closing the runners: running payloads are not cancelled before run() returns" % label, node=fi.node, stmt="no-close-all on %s" % label, input=label)
                ok = False
            elif not awaited_ok:
                chk.bad(rule, name, "on %s the close-all coroutine is created but not awaited: cleanup has not finished when run() ends" % label, node=fi.node, stmt="close-all-not-awaited on %s" % label, input=label)
                ok = False
            else:
                tasks_arg = closes[0][1][1][2]
                if not tasks_arg:
                    chk.bad(rule, name, "close-all is not given the runner tasks to wait for", node=fi.node, stmt="close-all-args")
                    ok = False
    if ok:
        chk.ok(rule, name, "every exceptional exit of the supervising coroutine first awaits the close-all coroutine (shielded)", node=fi.node, input="Exception, BaseException, KeyboardInterrupt, CancelledError at the join")
    # ---- O2.2 close-all ---------------------------------------------------------------------
    rule = "O2.2"
    name = close.qual
    RUNNERS = ("attr", SELF, slots.runners_map(prog))
    close_env = None
    tasks_param = close.params()[0] if close.params() else None
    if close.cls is None:
        # a module-level close-all is handed the runner mapping and the tasks: read its parameters as the caller's terms
        close_env = {}
        for n in ast.walk(fi.node):
            if isinstance(n, ast.Call) and prog.resolve(fi.module, n.func) == close.qual:
                for pname, a in zip(close.params(), n.args):
                    d = util.dotted(a) or ""
                    if d.startswith("self.") and d.count(".") == 1:
                        close_env[("sym", pname)] = ("attr", SELF, d.split(".")[1])
                    else:
                        tasks_param = pname
    outs = Interp(prog, close, unroll=2).run(env=close_env) if close_env else Interp(prog, close, unroll=2).run()
    chk.count(len(outs))
    ok = True
    for o in outs:
        if o.kind not in ("normal", "return"):
            continue
        evs = o.path.events
        iters = [e for e in evs if e[0] == "loop-iter"]
        acl = [e for e in evs if e[0] == "call" and e[1][1][0] == "attr" and e[1][1][2] == "aclose"]
        acl_idx = [i for i, e in enumerate(evs) if e[0] == "call" and e[1][1][0] == "attr" and e[1][1][2] == "aclose"]
        if len(acl) != len(iters) or any(not is_awaited(evs, i) for i in acl_idx):
            chk.bad(rule, name, "close-all does not await aclose() of every runner (%d runners, %d awaited aclose)" % (len(iters), len([e for e in acl if e[3]])), node=close.node, stmt="aclose-each")
            ok = False
            break
        # the wait for a runner's aclose() is unbounded: AsyncioRunner.aclose IS the "cancel until none is left" loop, so
        # a deadline on it (wait_for(..., timeout) / async with asyncio.timeout(...)) abandons payloads that are still
        # unwinding and lets run() raise before they have finished
        bounded = None
        for e2 in evs:
            if e2[0] == "call" and e2[1][1] == ("glob", "ext:asyncio.wait_for") and any(a in e2[1][2] for a in [x[1] for x in acl]):
                tmo = dict(e2[1][3]).get("timeout", e2[1][2][1] if len(e2[1][2]) > 1 else None)
                if tmo is not None and tmo != ("const", None):
                    bounded = "asyncio.wait_for(..., timeout=%s)" % show(tmo)
        for w in ast.walk(close.node):
            if isinstance(w, ast.AsyncWith) and any(isinstance(n, ast.Attribute) and n.attr == "aclose" for b in w.body for n in ast.walk(b)):
                for item in w.items:
                    c = item.context_expr
                    if isinstance(c, ast.Call) and (prog.resolve(close.module, c.func) or "") in ("ext:asyncio.timeout", "ext:asyncio.timeout_at") and not (c.args and isinstance(c.args[0], ast.Constant) and c.args[0].value is None):
                        bounded = "async with %s" % util.unparse(c)
        if bounded:
            chk.bad(rule, name, "close-all bounds the wait for a runner's aclose() by %s: when the deadline passes, the cancel-until-none-is-left loop of the asyncio runner is abandoned and run() raises while payloads are still unwinding" % bounded, node=close.node, stmt="aclose-bounded")
            ok = False
            break
        for e in acl:
            src = e[1][1][1]
            if not (src[0] == "item" and strip_sites(src[1]) == ("call", ("attr", RUNNERS, "values"), (), ())):
                chk.bad(rule, name, "close-all ranges over %s instead of all runners" % show(src), node=close.node, stmt="aclose-domain")
                ok = False
        # the closing order is the launch order: a runner whose aclose() WAITS for its payloads (asyncio) is only
        # waited for after the others have been told to close (trio) -- see stop_order below
        lays = iteration_layers(strip_sites(acl[0][1][1][1][1]))[0] if acl and acl[0][1][1][1][0] == "item" else []
        if any(x in ("reversed", "sorted") for x in lays) and ok:
            chk.bad(rule, name, "close-all walks the runners in %s order instead of the order they were launched in: the asyncio runner's aclose() waits until every asyncio payload is gone before the trio runner has been told to cancel its payloads" % "/".join(x for x in lays if x in ("reversed", "sorted")), node=close.node, stmt="close-order")
            ok = False
            break
        # the mapping is emptied only after the runners have been closed and joined: while they unwind the runtime is
        # still `running`, and a registration that finds no runner then is refused with "unknown runner"
        clears = [i for i, e in enumerate(evs) if (e[0] == "call" and e[1][1] == ("attr", RUNNERS, "clear")) or (e[0] == "store" and e[1] == RUNNERS)]
        awaits_after = [i for i, e in enumerate(evs) if clears and i > clears[0] and ((e[0] == "call" and e[3]) or e[0] == "await")]
        if clears and awaits_after and ok:
            chk.bad(rule, name, "close-all empties the runner mapping BEFORE it has closed and joined the runners: while payloads are still finishing their cleanup the runtime counts as running, so adopt() finds no runner for the flavour and raises RuntimeError('unknown runner') instead of returning None", node=close.node, stmt="mapping-cleared-before-close")
            ok = False
            break
        joins = [(i, e) for i, e in enumerate(evs) if e[0] == "call" and e[1][1] in (GATHER, ("glob", "ext:asyncio.wait")) and is_awaited(evs, i)]
        last_acl = max([i for i, e in enumerate(evs) if e[0] == "call" and e[1][1][0] == "attr" and e[1][1][2] == "aclose"] or [-1])
        if not joins or joins[-1][0] < last_acl:
            chk.bad(rule, name, "close-all returns without awaiting the runner tasks: run() may end while a runner (and trio.run) is still unwinding", node=close.node, stmt="no-join")
            ok = False
            break
        jargs = joins[-1][1][1][2]
        jkw = dict(joins[-1][1][1][3])
        if joins[-1][1][1][1] == GATHER and jkw.get("return_exceptions") != ("const", True):
            chk.bad(
                rule,
                name,
                "the final join is gather(...) without return_exceptions=True: it ends with the FIRST failed runner task (close-all runs exactly when one has failed) instead of waiting for all of them, so run() ends while other runners are still unwinding, and the statements after it are skipped",
                node=close.node,
                stmt="join-first-exception",
            )
            ok = False
        if joins[-1][1][1][1] == ("glob", "ext:asyncio.wait") and "return_when" in jkw and jkw["return_when"] != ("glob", "ext:asyncio.ALL_COMPLETED"):
            chk.bad(rule, name, "the final join is asyncio.wait(..., return_when=%s): it does not wait for all runner tasks" % show(jkw["return_when"]), node=close.node, stmt="join-first-completed")
            ok = False
        param = ("sym", tasks_param) if tasks_param else None
        if not any(a == ("star", param) or a == param for a in jargs):
            chk.bad(rule, name, "the final join waits for %s instead of all runner tasks" % [show(a) for a in jargs], node=close.node, stmt="join-args")
            ok = False
    if ok:
        chk.ok(rule, name, "awaits aclose() of every runner in the unfiltered mapping, then a join over all runner tasks", node=close.node)


def stop_order(chk):
    """O2.8: stop() tells the runners to close in launch order, and the launch order puts every runner whose aclose()
    waits for its payloads (a loop around an await: the asyncio runner) after the coroutine runners whose aclose() only
    signals (trio).  BaseRunner.stop blocks until aclose() is through: stopping the waiting runner first means the
    others are not cancelled until ITS payloads are gone -- which never happens when one of them waits for a trio
    payload to finish."""
    prog = chk.program
    rule = "O2.8"
    meta = prog.cls(META)
    stop = prog.lookup_method(meta, "stop")
    RUNNERS = ("attr", SELF, slots.runners_map(prog))
    ok = True
    n = 0
    for o in Interp(prog, stop, unroll=1).run():
        for e in o.path.events:
            if e[0] == "call" and e[1][1][0] == "attr" and e[1][1][2] == "stop" and e[1][1][1][0] == "item":
                n += 1
                lays, base = iteration_layers(strip_sites(e[1][1][1][1]))
                if any(x in ("reversed", "sorted") for x in lays) and ok:
                    chk.bad(rule, stop.qual, "stop() walks the runners in %s order instead of the order they were launched in: the asyncio runner's stop() blocks until every asyncio payload is gone while the trio runner has not been told to cancel yet -- an asyncio payload whose cleanup waits for a trio payload then keeps run() from ever returning" % "/".join(x for x in lays if x in ("reversed", "sorted")), node=stop.node, stmt="stop-order")
                    ok = False
    chk.count(n)
    if n == 0:
        chk.undecided(rule, stop.qual, "stop() does not walk the runner mapping", node=stop.node)
        return
    # launch order = runner_types order: waiting runners last among the coroutine runners
    rt = meta.class_attrs.get("runner_types")
    listed = [prog.resolve(meta.module, e) for e in rt.elts] if isinstance(rt, (ast.Tuple, ast.List)) else None
    if listed is None:
        chk.undecided(rule, meta.qual, "runner_types is not a literal tuple", node=meta.node)
        return

    def waits(q):
        c = prog.classes.get(q)
        ac = prog.lookup_method(c, "aclose") if c is not None else None
        if ac is None:
            return False
        fns = [ac] + [g for gs in c.methods.values() for g in gs if g.is_async and g is not ac and any(isinstance(x, ast.Attribute) and x.attr == g.name for x in ast.walk(ac.node))]
        return any(isinstance(w, (ast.While, ast.For, ast.AsyncFor)) and any(isinstance(x, ast.Await) for x in ast.walk(w)) for f in fns for w in ast.walk(f.node))

    def flavour(q):
        c = prog.classes.get(q)
        return prog.resolve(c.module, c.class_attrs.get("flavour")) if c is not None else None

    waiting = [i for i, q in enumerate(listed) if waits(q)]
    signalling = [i for i, q in enumerate(listed) if not waits(q) and flavour(q) in ("ext:trio", "ext:asyncio")]
    if waiting and signalling and min(waiting) < max(signalling):
        chk.bad(rule, meta.qual, "runner_types launches (and therefore stops) %s, whose aclose() waits for its payloads, before %s, whose aclose() only signals" % (listed[min(waiting)].split(":")[-1], listed[max(signalling)].split(":")[-1]), node=rt, stmt="launch-order")
        ok = False
    if ok:
        chk.ok(rule, stop.qual, "runners are stopped in launch order; runners whose aclose() waits for payloads (%s) come after those that only signal" % ", ".join(listed[i].split(":")[-1] for i in waiting), node=stop.node)


def mapping_cleared(chk, rule):
    """after a run has ended the runner mapping is empty again, so that registrations for the NEXT run are
    queued instead of being sent to closed runners (shared by C01 and C12)"""
    prog = chk.program
    close = find_close_all(prog)
    RUNNERS = ("attr", SELF, slots.runners_map(prog))
    ok = True
    # on EVERY exit of the supervising coroutine -- failure and interrupt (through close-all or a finally) and also the
    # graceful one (stop() closed the runners, the join returned normally, close-all never ran) -- the mapping is emptied:
    # a payload registered after the run must find no dead runner
    sup = slots.supervisor(prog)
    CLOSE = ("attr", SELF, close.name)
    for label in (None, "AnyException", "KeyboardInterrupt", "asyncio.CancelledError"):

        def hook(it, path, ct, node, label=label):
            if ct[0] == "call" and ct[1] == GATHER and not any(e[0] == "inline-enter" and e[1] == close.qual for e in path.events):
                return [("value", ("sym", "results"))] if label is None else [("raise", REPRESENTATIVES[label])]
            return None

        for o in Interp(prog, sup, call_hook=hook, unroll=1, inline=lambda f, ct: f.qual == close.qual).run():
            chk.count()
            if o.kind == "cut":
                continue
            evs = o.path.events
            if not any(e[0] == "call" and e[1][1] == GATHER for e in evs):
                continue
            cleared = [e for e in evs if (e[0] == "call" and e[1][1] == ("attr", RUNNERS, "clear")) or (e[0] == "store" and e[1] == RUNNERS and strip_sites(e[2]) in (("dict", ()), ("call", ("glob", "ext:builtins.dict"), (), ())))]
            if not cleared:
                how = "after a graceful stop (the join over the runner tasks returned normally)" if label is None else "after the join ended with %s" % label
                chk.bad(
                    rule,
                    sup.qual,
                    "%s the supervising coroutine leaves the stopped runners in the runner mapping: a payload registered after the run is handed to a dead runner instead of being queued for the next run -- an asyncio payload makes register_payload / adopt raise RuntimeError('Event loop is closed'), a thread payload is started outside of any run and its failure is lost" % how[0].upper() + how[1:] if False else "%s the supervising coroutine leaves the stopped runners in the runner mapping: a payload registered after the run is handed to a dead runner instead of being queued for the next run -- an asyncio payload makes register_payload / adopt raise RuntimeError('Event loop is closed'), a thread payload is started outside of any run and its failure is lost" % how,
                    node=sup.node,
                    stmt="runners-not-cleared %s" % ("graceful" if label is None else label),
                    input=how,
                )
                ok = False
    if ok:
        chk.ok(rule, sup.qual, "the runner mapping is emptied on every exit of the supervising coroutine (graceful stop, failure, interrupt, cancellation)", node=sup.node)


def asyncio_runner(chk):
    prog = chk.program
    cls = [c for c in util.concrete_runners(prog) if prog.resolve(c.module, c.class_attrs.get("flavour")) == "ext:asyncio"]
    if len(cls) != 1:
        raise Undecided("asyncio runner not found")
    cls = cls[0]
    facts = common.runner_facts(prog, cls)
    reg = facts.get("task_registry")
    rule = "O2.3"
    if reg is None:
        chk.bad(rule, cls.qual, "payload tasks are not kept in a registry: the runner cannot cancel them when it is closed", node=cls.node, stmt="no-registry")
        return
    T = ("attr", SELF, reg)
    # (a) every created task is registered on the same path
    n_create = 0
    for fis in cls.methods.values():
        for fi in fis:
            if not any(isinstance(n, ast.Attribute) and n.attr == "create_task" for n in ast.walk(fi.node)):
                continue
            for o in Interp(prog, fi).run():
                created = [e[1] for e in o.path.events if e[0] == "call" and e[1][1][0] == "attr" and e[1][1][2] == "create_task"]
                added = [e[1] for e in o.path.events if e[0] == "call" and e[1][1] == ("attr", T, "add")]
                n_create += len(created)
                chk.count()
                for c in created:
                    if not any(list(a[2]) == [c] for a in added):
                        chk.bad(rule, fi.qual, "a payload task is created but not added to the task registry on the same path: it is never cancelled on shutdown", node=fi.node, stmt="task-unregistered")
    # (b) aclose: every normal exit only when the registry is empty; cancel every task that is not done
    ac = prog.lookup_method(cls, "aclose")
    name = ac.qual
    # own coroutines that only aclose (or another such helper) awaits are part of aclose: `await self._cancel_tasks()`
    close_fns = [ac]
    grew = True
    while grew:
        grew = False
        for fis in cls.methods.values():
            for g in fis:
                if g in close_fns or g.name.startswith("__"):
                    continue
                users = [h for hs in cls.methods.values() for h in hs for n in ast.walk(h.node) if isinstance(n, ast.Attribute) and n.attr == g.name and util.dotted(n) == "self." + g.name]
                if users and all(h in close_fns for h in users):
                    close_fns.append(g)
                    grew = True
    outs = Interp(prog, ac, unroll=1, inline=lambda f, ct: f in close_fns and f is not ac).run()
    chk.count(len(outs))
    ok = True
    n_exits = 0
    loop_fn = ([g for g in close_fns if any(isinstance(n, ast.While) for n in ast.walk(g.node))] or [ac])[0]
    for o in outs:
        if o.kind not in ("normal", "return"):
            continue
        n_exits += 1
        empty = o.path.facts.get(("truthy", T)) is False
        for k_, v_ in o.path.facts.items():
            if v_ is False and k_[0] == "truthy":
                x = strip_sites(k_[1])
                if x in (("call", ("attr", T, "copy"), (), ()), ("call", ("glob", "ext:builtins.list"), (T,), ()), ("call", ("glob", "ext:builtins.set"), (T,), ()), ("call", ("glob", "ext:builtins.tuple"), (T,), ())):
                    empty = True  # a fresh snapshot of the registry is empty
        if not empty:
            conds = "; ".join("%s=%s" % (show(e[1]), e[2]) for e in o.path.events if e[0] in ("branch", "fork"))
            chk.bad(
                rule,
                name,
                "aclose can return while payload tasks are still registered (decisions on that path: %s): those payloads are not cancelled until none is left, so a payload that absorbs one cancellation keeps running after run() has ended" % conds,
                node=ac.node,
                stmt="exit-with-tasks",
            )
            ok = False
    loops = [n for n in ast.walk(loop_fn.node) if isinstance(n, ast.While)]
    if not loops:
        if any(isinstance(n, ast.If) for n in ast.walk(loop_fn.node)) and any(isinstance(n, ast.Attribute) and n.attr == "cancel" for n in ast.walk(loop_fn.node)):
            chk.bad(rule, name, "tasks are cancelled once instead of until none is left (no loop)", node=ac.node, stmt="cancel-once")
        else:
            chk.undecided(rule, name, "close loop idiom not recognised", node=ac.node)
        ok = False
    else:
        loop = loops[0]
        fors = [n for n in loop.body if isinstance(n, ast.For)]
        if len(fors) != 1:
            chk.undecided(rule, name, "close loop body is not `for task in registry: ...; await`", node=loop)
            ok = False
        else:
            f = fors[0]
            src = util.unparse(f.iter)
            if "self." + reg not in src:
                # a local holding a snapshot of the registry (e.g. bound by `while pending := self._tasks.copy()`)
                snap = any(
                    isinstance(a, (ast.NamedExpr, ast.Assign)) and "self." + reg in util.unparse(a.value) and src in [util.unparse(t) for t in ([a.target] if isinstance(a, ast.NamedExpr) else a.targets)]
                    for a in ast.walk(loop_fn.node)
                )
                fresh = any(
                    isinstance(a, (ast.NamedExpr, ast.Assign)) and "self." + reg in util.unparse(a.value) and src in [util.unparse(t) for t in ([a.target] if isinstance(a, ast.NamedExpr) else a.targets)]
                    for a in ast.walk(loop)
                )
                if not snap:
                    chk.bad(rule, name, "the close loop ranges over %s instead of the task registry" % src, node=f, stmt="close-domain")
                    ok = False
                elif not fresh:
                    chk.bad(
                        rule,
                        name,
                        "every round of the close loop ranges over %s, a snapshot of the task registry taken ONCE before the loop: a payload task registered after the snapshot (adopted while the runner shuts down) is never cancelled and never removed, "
                        "so the loop -- and with it run() -- never ends" % src,
                        node=f,
                        stmt="close-domain-stale-snapshot",
                    )
                    ok = False
            it = Interp(prog, loop_fn, unroll=1, inline=lambda f_, ct: (f_ in close_fns and f_ is not loop_fn) or (f_.cls is None and f_.module is loop_fn.module and f_.name.startswith("_")))
            p = Path()
            outs2 = it.exec_block([f], p)
            seen = set()
            for o in outs2:
                iters = [e for e in o.path.events if e[0] == "loop-iter"]
                if len(iters) != 1:
                    continue
                task = [e[2] for e in o.path.events if e[0] == "bind" and e[2][0] == "item"][0]
                done = None
                for e in o.path.events:
                    if e[0] == "branch" and e[1][0] == "call" and e[1][1] == ("attr", task, "done"):
                        done = e[2]
                    if e[0] == "branch" and e[1][0] == "unop" and e[1][2][0] == "call" and e[1][2][1] == ("attr", task, "done"):
                        done = not e[2]
                cancelled = any(e[0] == "call" and e[1][1] == ("attr", task, "cancel") for e in o.path.events)
                removed = any(e[0] == "call" and e[1][1] in (("attr", T, "discard"), ("attr", T, "remove")) and list(e[1][2]) == [task] for e in o.path.events)
                seen.add((done, cancelled, removed))
                chk.count()
            want = {(True, False, True), (False, True, False)}
            if seen != want:
                msgs = []
                for done, c, r in sorted(seen, key=repr):
                    if done is False and not c:
                        msgs.append("a task that is not done is not cancelled")
                    if done is False and r:
                        msgs.append("a task that is not done is removed from the registry (it is then never cancelled again)")
                    if done is True and not r:
                        msgs.append("a finished task is never removed: the loop cannot end")
                    if done is None:
                        msgs.append("the body does not test task.done()")
                chk.bad(rule, name, "close loop body: %s" % ("; ".join(sorted(set(msgs))) or sorted(seen, key=repr)), node=f, stmt="close-body", input=sorted(seen, key=repr))
                ok = False
            after = loop.body[loop.body.index(f) + 1 :]
            if not any(isinstance(n, ast.Await) for st in after for n in ast.walk(st)):
                chk.bad(rule, name, "the close loop does not await between rounds: cancelled tasks never get to run their cleanup (busy loop on the event loop thread)", node=loop, stmt="no-await-between-rounds")
                ok = False
    # (c) who removes from the registry
    for fis in cls.methods.values():
        for fi in fis:
            for n in ast.walk(fi.node):
                if isinstance(n, ast.Call) and isinstance(n.func, ast.Attribute) and n.func.attr in ("discard", "remove", "clear", "pop") and util.dotted(n.func.value) == "self." + reg:
                    chk.count()
                    if fi in close_fns:
                        continue
                    arg = util.unparse(n.args[0]) if n.args else ""
                    if "current_task" in arg and fi.name in facts["monitors"]:
                        continue
                    # a helper of the monitor that is handed asyncio.current_task() for exactly this parameter
                    if n.args and isinstance(n.args[0], ast.Name) and n.args[0].id in fi.params():
                        idx = fi.params().index(n.args[0].id)
                        sites = [(g, c) for gs in cls.methods.values() for g in gs for c in ast.walk(g.node) if isinstance(c, ast.Call) and util.dotted(c.func) == "self." + fi.name]
                        if sites and all(g.name in facts["monitors"] and idx < len(c.args) and "current_task" in util.unparse(c.args[idx]) for g, c in sites):
                            continue
                    chk.bad(rule, fi.qual, "%s removes %s from the task registry: a running payload can drop out of the set that is cancelled on shutdown" % (fi.name, arg or "tasks"), node=n, stmt="registry-removal in %s" % fi.name)
                    ok = False
    if ok:
        chk.ok(rule, name, "tasks registered on creation; aclose only returns with an empty registry, cancels every unfinished task each round, removes only finished ones and awaits between rounds", node=ac.node, input="%d normal exits" % n_exits)


def trio_runner(chk):
    prog = chk.program
    cls = [c for c in util.concrete_runners(prog) if prog.resolve(c.module, c.class_attrs.get("flavour")) == "ext:trio"]
    if len(cls) != 1:
        raise Undecided("trio runner not found")
    cls = cls[0]
    rule = "O2.4"
    ok = True
    # the function run by trio.run and the one that calls trio.run
    ts = common.trio_structure(prog, cls)
    if ts is None:
        chk.undecided(rule, cls.qual, "trio.run(self.<entry>) not found", node=cls.node)
        return
    entry, blocking, form = ts["entry"], ts["start_fn"], ts["form"]
    # (b) after the receive loop, the nursery scope is cancelled while still inside the async with
    outs = Interp(prog, entry, unroll=1, inline=lambda f, ct: f.cls is cls and f.name in ts["owned"] and f is not entry).run()
    chk.count(len(outs))
    for o in outs:
        if o.kind not in ("normal", "return"):
            continue
        evs = o.path.events
        exits = [i for i, e in enumerate(evs) if e[0] in ("loop-exit", "loop-cut")]
        cancels = [i for i, e in enumerate(evs) if e[0] == "call" and e[1][1][0] == "attr" and e[1][1][2] == "cancel" and e[1][1][1][0] == "attr" and e[1][1][1][2] == "cancel_scope"]
        wexit = [i for i, e in enumerate(evs) if e[0] == "with-exit"]
        if not exits:
            continue
        if not cancels or not wexit or not (exits[-1] < cancels[0] < wexit[-1]):
            chk.bad(rule, entry.qual, "after the submit channel is closed the nursery's cancel scope is not cancelled inside the nursery block: running trio payloads are never cancelled and trio.run never returns", node=entry.node, stmt="no-scope-cancel")
            ok = False
    # (c) aclose closes the channel inside the trio run; manage_payloads awaits the whole run and closes on cancellation
    facts = common.runner_facts(prog, cls)
    ch = facts.get("submit_channel")
    ac = prog.lookup_method(cls, "aclose")
    mp = prog.lookup_method(cls, "manage_payloads")
    closers = [fi for fis in cls.methods.values() for fi in fis if any(isinstance(n, ast.Call) and isinstance(n.func, ast.Attribute) and n.func.attr == "aclose" and util.dotted(n.func.value) == "self.%s" % ch for n in ast.walk(fi.node))]
    if not closers:
        chk.bad(rule, cls.qual, "nothing closes the submit channel: the receive loop never ends and trio payloads are never cancelled", node=cls.node, stmt="channel-never-closed")
        ok = False
    else:
        cl = closers[0]
        src = ast.unparse(ac.node)
        routed = False
        # locals that are plain aliases of attributes (`closer, token = self._aclose_trio, self._trio_token`) and local
        # functions / lambdas (`def close_from_thread(): return trio.from_thread.run(closer, trio_token=token)`)
        alias = {}
        for t_, v_ in util.simple_assignments(ac.node):
            if isinstance(t_, ast.Name):
                alias.setdefault(t_.id, []).append(v_)
        local_fns = {d.name: d for d in ast.walk(ac.node) if isinstance(d, (ast.FunctionDef, ast.Lambda)) and d is not ac.node and hasattr(d, "name")}

        def deref(x):
            while isinstance(x, ast.Name) and len(alias.get(x.id, [])) == 1:
                x = alias[x.id][0]
            return x

        def through_thread(x):
            """does evaluating / calling x run  trio.from_thread.run(self.<closer>, trio_token=self.<token>)"""
            x = deref(x)
            if isinstance(x, ast.Name) and x.id in local_fns:
                x = local_fns[x.id]
            for c in ast.walk(x):
                if not isinstance(c, ast.Call):
                    continue
                fn, args = c.func, list(c.args)
                if prog.resolve(ac.module, fn) == "ext:functools.partial" and args:
                    fn, args = args[0], args[1:]
                if prog.resolve(ac.module, fn) == "ext:trio.from_thread.run" and args and util.dotted(deref(args[0])) == "self.%s" % cl.name:
                    if any(k.arg == "trio_token" and util.dotted(deref(k.value)) == "self.%s" % slots.trio_token(prog, cls) for k in c.keywords):
                        return True
            return False

        for n in ast.walk(ac.node):
            if isinstance(n, ast.Call) and isinstance(n.func, ast.Attribute) and n.func.attr == "run_in_executor":
                if any(through_thread(a) for a in n.args[1:2]) or (len(n.args) > 2 and prog.resolve(ac.module, n.args[1]) == "ext:trio.from_thread.run" and through_thread(ast.Call(func=n.args[1], args=n.args[2:], keywords=[]))):
                    routed = True
                    if not (n.args and isinstance(n.args[0], ast.Constant) and n.args[0].value is None):
                        chk.bad(rule, ac.qual, "the channel is closed through a private executor", node=n, stmt="aclose-executor", aux=True)
        if not routed and cl is not ac:
            chk.bad(rule, ac.qual, "aclose does not run %s inside the trio run (trio.from_thread.run with the runner's token)" % cl.name, node=ac.node, stmt="aclose-routing")
            ok = False
    # manage_payloads: awaits the executor future; on CancelledError awaits aclose and re-raises
    CANCEL = REPRESENTATIVES["asyncio.CancelledError"]

    def hook(it, path, ct, node):
        if ct[0] == "call" and ct[1][0] == "attr" and ct[1][2] == "run_in_executor":
            return [("raise", CANCEL), ("value", NONE)]
        return None

    outs = Interp(prog, mp, call_hook=hook).run()
    chk.count(len(outs))
    for o in outs:
        evs = o.path.events
        rie = [e for e in evs if e[0] == "call" and e[1][1][0] == "attr" and e[1][1][2] == "run_in_executor"]
        if len(rie) != 1 or not rie[0][3]:
            chk.bad(rule, mp.qual, "manage_payloads does not await the executor future of the whole trio run", node=mp.node, stmt="run-not-awaited")
            ok = False
            continue
        a = rie[0][1][2]
        # (d) the default executor, which asyncio.run joins before returning
        if not a or a[0] != NONE:
            chk.bad(
                rule,
                mp.qual,
                "trio.run is started on %s instead of the loop's default executor (run_in_executor(None, ...)): only the default executor is joined by asyncio.run, so on KeyboardInterrupt run() returns while trio payloads are still in (shielded) cleanup"
                % (show(a[0]) if a else "nothing"),
                node=mp.node,
                stmt="private-executor",
            )
            ok = False
        want_target = [("attr", SELF, blocking.name)] if form == "call" else [("glob", "ext:trio.run"), ("attr", SELF, entry.name)]
        if ts["entry_handed"]:
            want_target.append(("attr", SELF, entry.name))
        if list(a[1 : 1 + len(want_target)]) != want_target:
            chk.bad(rule, mp.qual, "the executor does not run %s" % (blocking.name if form == "call" else "trio.run(self.%s)" % entry.name), node=mp.node, stmt="executor-target")
            ok = False
        if any(e[0] == "raised-at-call" for e in evs):
            acl = [e for e in evs if e[0] == "call" and e[1][1] == ("attr", SELF, "aclose") and e[3]]
            if not acl:
                chk.bad(rule, mp.qual, "when the runner task is cancelled, manage_payloads does not await aclose(): the trio run keeps going", node=mp.node, stmt="cancel-no-aclose")
                ok = False
            if o.kind != "raise" or o.value != CANCEL:
                chk.bad(rule, mp.qual, "the cancellation is not re-raised after closing", node=mp.node, stmt="cancel-swallowed")
                ok = False
    for n in ast.walk(cls.node):
        if isinstance(n, ast.Call) and prog.resolve(cls.module, n.func) == "ext:threading.Thread":
            chk.bad(rule, cls.qual, "the trio runner starts a bare thread: nothing joins it before run() returns", node=n, stmt="bare-thread")
            ok = False
        if isinstance(n, ast.Call) and isinstance(n.func, ast.Attribute) and n.func.attr == "clone" and ch and util.dotted(n.func.value) == "self.%s" % ch:
            chk.bad(rule, cls.qual, "the submit channel is cloned: closing the runner's own handle no longer ends the receive loop while a clone is open, so the nursery is never cancelled and run() hangs", node=n, stmt="channel-clone")
            ok = False
    chk.facts.update({k: v for k, v in libfacts.cross_read().items() if "default executor" in k})
    if ok:
        chk.ok(rule, cls.qual, "scope cancelled after the receive loop; channel closed inside the trio run; the whole trio.run is awaited on the default executor; cancellation closes and re-raises", node=cls.node)


def aclose_wakes_manage(chk, rule):
    """closing a future-based runner completes its failure future, so that manage_payloads (and run) return"""
    prog = chk.program
    for cls in util.concrete_runners(prog):
        facts = common.runner_facts(prog, cls)
        ff = facts.get("failure_future")
        if not ff:
            continue
        F = ("attr", SELF, ff)
        ac = prog.lookup_method(cls, "aclose")
        STOPPED = ("attr", ("attr", SELF, slots.stopped_event(prog)), "is_set")
        ok = True
        for done in (False, True):

            def decide(it, path, term, done=done):
                if term[0] == "call" and term[1] == STOPPED:
                    return False
                if term[0] == "call" and term[1] == ("attr", F, "done"):
                    return done
                return None

            INVALID = exc_value("ext:asyncio.InvalidStateError", "future already done")

            def hook(it, path, ct, node, done=done):
                if done and ct[0] == "call" and ct[1] in (("attr", F, "set_result"), ("attr", F, "set_exception")):
                    return [("raise", INVALID)]
                return None

            for o in Interp(prog, ac, decide=decide, call_hook=hook, unroll=1, inline=lambda f, ct, cls=cls: f.cls is not None and f.cls.qual in cls.mro and not f.is_async and f.name.startswith("_") and not f.name.startswith("__")).run():
                chk.count()
                if o.kind == "raise" and o.value == INVALID:
                    chk.bad(rule, ac.qual, "aclose completes a future that is already done and does not handle the InvalidStateError", node=ac.node, stmt="aclose-double-complete")
                    ok = False
                    continue
                if o.kind not in ("normal", "return", "cut"):
                    continue
                res = [e for e in o.path.events if e[0] == "call" and e[1][1] in (("attr", F, "set_result"), ("attr", F, "cancel"), ("attr", F, "set_exception"))]
                if done:
                    continue
                if not done and not res:
                    chk.bad(rule, ac.qual, "closing a running %s does not complete its failure future: manage_payloads never returns, so stop() / shutdown() never make run() end" % cls.name, node=ac.node, stmt="aclose-no-wake")
                    ok = False
        if ok:
            chk.ok(rule, ac.qual, "aclose completes the failure future (unless already done), which ends manage_payloads", node=ac.node)


def thread_runner(chk):
    prog = chk.program
    cls = [c for c in util.concrete_runners(prog) if prog.resolve(c.module, c.class_attrs.get("flavour")) == "ext:threading"]
    if len(cls) != 1:
        raise Undecided("thread runner not found")
    cls = cls[0]
    rule = "O2.5"
    ok = True
    n = 0
    for node in ast.walk(cls.node):
        if isinstance(node, ast.Call) and prog.resolve(cls.module, node.func) == "ext:threading.Thread":
            n += 1
            chk.count()
            d = {k.arg: k.value for k in node.keywords}.get("daemon")
            if d is None:
                # thread = Thread(...); thread.daemon = True; thread.start()
                par = util.parents_map(cls.node)
                up = par.get(id(node))
                var = up.targets[0].id if isinstance(up, ast.Assign) and len(up.targets) == 1 and isinstance(up.targets[0], ast.Name) else None
                fn = util.enclosing(par, node, (ast.FunctionDef, ast.AsyncFunctionDef))
                if var and fn is not None:
                    sets = [a for a in ast.walk(fn) if isinstance(a, ast.Assign) and len(a.targets) == 1 and isinstance(a.targets[0], ast.Attribute) and a.targets[0].attr == "daemon" and isinstance(a.targets[0].value, ast.Name) and a.targets[0].value.id == var]
                    starts = [c for c in ast.walk(fn) if isinstance(c, ast.Call) and isinstance(c.func, ast.Attribute) and c.func.attr == "start" and isinstance(c.func.value, ast.Name) and c.func.value.id == var]
                    if len(sets) == 1 and isinstance(sets[0].value, ast.Constant) and sets[0].value.value is True and starts and all(sets[0].lineno < c.lineno for c in starts) and sets[0] in fn.body and all(any(c in ast.walk(st) for st in fn.body) for c in starts):
                        d = sets[0].value
            if not (isinstance(d, ast.Constant) and d.value is True):
                chk.bad(rule, cls.qual, "payload threads are not daemon threads (daemon=%s): a blocked thread payload keeps the process from terminating" % (util.unparse(d) if d is not None else "unset"), node=node, stmt="daemon")
                ok = False
        if isinstance(node, ast.Call) and isinstance(node.func, ast.Attribute) and node.func.attr == "join" and not isinstance(node.func.value, (ast.Constant, ast.JoinedStr)) and "path" not in util.unparse(node.func.value):
            # thread.join() / thread.join(timeout): only a positive literal timeout bounds the wait
            to = node.args[0] if node.args else next((k.value for k in node.keywords if k.arg == "timeout"), None)
            bounded = isinstance(to, ast.Constant) and isinstance(to.value, (int, float)) and not isinstance(to.value, bool) and to.value >= 0
            if not bounded:
                chk.bad(rule, cls.qual, "payload threads are joined%s: a blocked thread payload prevents termination" % (" with the timeout %s, which is not a literal bound (None waits forever)" % util.unparse(to) if to is not None else ""), node=node, stmt="join")
                ok = False
        if isinstance(node, ast.Assign) and any(isinstance(t, ast.Attribute) and t.attr == "daemon" for t in node.targets) and not (isinstance(node.value, ast.Constant) and node.value.value is True):
            chk.bad(rule, cls.qual, "thread.daemon is set to %s" % util.unparse(node.value), node=node, stmt="daemon-assign")
            ok = False
    for node in ast.walk(cls.node):
        if isinstance(node, ast.Attribute) and node.attr in ("is_alive", "isAlive"):
            chk.bad(rule, cls.qual, "the thread runner polls whether payload threads are alive: closing it waits for blocked thread payloads, which then prevent termination", node=node, stmt="is_alive")
            ok = False
    ac = prog.lookup_method(cls, "aclose")
    if ac is not None:
        for node in ast.walk(ac.node):
            if isinstance(node, (ast.While, ast.For, ast.AsyncFor)):
                chk.bad(rule, ac.qual, "aclose of the thread runner loops (%s): it must not wait for thread payloads" % util.unparse(node).split("\n")[0], node=node, stmt="aclose-loops")
                ok = False
    chk.floor(rule, n, 1)
    if ok:
        chk.ok(rule, cls.qual, "every payload thread is a daemon thread; nobody joins or polls them; aclose does not loop", node=cls.node)


def stop_chain(chk):
    prog = chk.program
    rule = "O2.6"
    stop = prog.method(META, "stop")
    outs = Interp(prog, stop, unroll=2).run()
    ok = True
    for o in outs:
        iters = [e for e in o.path.events if e[0] == "loop-iter"]
        stops = [e for e in o.path.events if e[0] == "call" and e[1][1][0] == "attr" and e[1][1][2] == "stop"]
        chk.count()
        if len(stops) != len(iters):
            chk.bad(rule, stop.qual, "MetaRunner.stop does not stop every runner", node=stop.node, stmt="stop-each")
            ok = False
            break
        for e in stops:
            src = e[1][1][1]
            if not (src[0] == "item" and slots.runners_map(prog) in show(src[1]) and "values" in show(src[1])):
                chk.bad(rule, stop.qual, "MetaRunner.stop ranges over %s" % show(src), node=stop.node, stmt="stop-domain")
                ok = False
    bstop = prog.method(BASE, "stop")
    STOPPED = ("attr", ("attr", SELF, slots.stopped_event(prog)), "is_set")
    for stopped in (True, False):
        pkg = bstop.module.name.rpartition(".")[0]
        outs = Interp(prog, bstop, decide=lambda it, p, t, stopped=stopped: stopped if (t[0] == "call" and t[1] == STOPPED) else None, inline=lambda f, ct: not f.is_async and ((f.cls is None and f.module.name.startswith(pkg)) or (f.cls is not None and f.name not in ("aclose", "stop", "run")))).run()
        for o in outs:
            sub = [e[1] for e in o.path.events if e[0] == "call" and e[1][1] == ("glob", "ext:asyncio.run_coroutine_threadsafe")]
            res = [e for e in o.path.events if e[0] == "call" and e[1][1][0] == "attr" and e[1][1][2] == "result"]
            chk.count()
            if stopped:
                if sub:
                    chk.bad(rule, bstop.qual, "stop submits aclose although the runner is already stopped (the loop may be gone)", node=bstop.node, stmt="stop-when-stopped")
                    ok = False
                continue
            if len(sub) != 1 or len(res) != 1:
                chk.bad(rule, bstop.qual, "stop does not submit aclose() thread-safely to the loop and block on its result", node=bstop.node, stmt="stop-shape")
                ok = False
                continue
            args = list(sub[0][2]) + [v for k_, v in sub[0][3] if k_ == "loop"]
            if not (args and args[0][0] == "call" and args[0][1] == ("attr", SELF, "aclose")) or args[1:] != [("attr", SELF, "asyncio_loop")]:
                chk.bad(rule, bstop.qual, "stop submits %s" % [show(a) for a in args], node=bstop.node, stmt="stop-args")
                ok = False
            if res[0][1][1][1] != sub[0]:
                chk.bad(rule, bstop.qual, "stop does not wait for the submitted close", node=bstop.node, stmt="stop-wait")
                ok = False
    # the writers of the flag stop() reads: cleared before the payloads are managed, set again on EVERY exit of run()
    brun = prog.method(BASE, "run")
    EV = ("attr", SELF, slots.stopped_event(prog))
    MANAGE = ("attr", SELF, "manage_payloads")
    n_paths = 0
    for label in (None, "AnyException", "OtherBase", "KeyboardInterrupt", "asyncio.CancelledError"):

        def hook(it, path, ct, node, label=label):
            if label is not None and ct[0] == "call" and ct[1] == MANAGE:
                return [("raise", REPRESENTATIVES[label])]
            return None

        for o in Interp(prog, brun, call_hook=hook, inline=lambda f, ct: f.cls is not None and not f.is_async and f.name not in ("stop",)).run():
            evs = o.path.events
            man = [i for i, e in enumerate(evs) if e[0] == "call" and e[1][1] == MANAGE]
            if not man:
                continue
            n_paths += 1
            chk.count()
            flips = [(i, e[1][1][2]) for i, e in enumerate(evs) if e[0] == "call" and e[1][1][0] == "attr" and e[1][1][1] == EV and e[1][1][2] in ("set", "clear")]
            before = [k for i, k in flips if i < man[0]]
            if not before or before[-1] != "clear":
                chk.bad(rule, brun.qual, "run() does not clear the stopped flag before managing payloads: stop() takes the running runner for stopped and returns without closing it, so shutdown never ends the run", node=brun.node, stmt="stopped-not-cleared")
                ok = False
            if not flips or flips[-1][1] != "set" or flips[-1][0] < man[0]:
                chk.bad(
                    rule,
                    brun.qual,
                    "run() can end (%s) without setting the stopped flag again: a later stop() / shutdown() submits aclose() to an event loop that is already gone and raises or blocks forever"
                    % ("manage_payloads raising %s" % label if label else "normally"),
                    node=brun.node,
                    stmt="stopped-not-set",
                    input=label or "normal end",
                )
                ok = False
    chk.floor(rule + ".run-exits", n_paths, 5)
    if ok:
        chk.ok(rule, stop.qual, "stop() reaches every runner; each submits aclose() to the loop thread-safely and waits, unless already stopped; run() clears the stopped flag before managing payloads and sets it on every exit", node=stop.node)


def run(chk):
    chk.guard("O2.1", META, supervisor, chk)
    chk.guard("O2.3", "<asyncio runner>", asyncio_runner, chk)
    chk.guard("O2.4", "<trio runner>", trio_runner, chk)
    chk.guard("O2.5", "<thread runner>", thread_runner, chk)
    chk.guard("O2.6", META + ".stop", stop_chain, chk)
    chk.guard("O2.7", "<runners>", aclose_wakes_manage, chk, "O2.7")
    chk.guard("O2.8", META + ".stop", stop_order, chk)
