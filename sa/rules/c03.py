"""C03 -- every adopted payload and every service is started exactly once."""
import ast

from .. import util
from .. import interp as interp_mod
from ..interp import Interp, Path, exc_value, is_exc, show, strip_sites, subterms, NONE, abs_value
from .. import slots
from ..report import Undecided, AnchorMissing
from . import common

SELF = ("sym", "self")
TRIO_RUNNER = "cobald.daemon.runners.trio_runner:TrioRunner"
META = "cobald.daemon.runners.meta_runner:MetaRunner"
SERVICE_RUNNER = "cobald.daemon.runners.service:ServiceRunner"
SERVICE_UNIT = "cobald.daemon.runners.service:ServiceUnit"
FROM_THREAD_RUN = ("glob", "ext:trio.from_thread.run")

SHUTDOWN_EXCS = {
    "trio.RunFinishedError": exc_value("ext:trio.RunFinishedError", "injected"),
    "trio.Cancelled": exc_value("ext:trio.Cancelled", "injected"),
    "trio.ClosedResourceError": exc_value("ext:trio.ClosedResourceError", "injected"),
}
BARE_RUNTIME = exc_value("ext:builtins.RuntimeError", "in-trio-thread")


def submit_channel(prog, cls):
    """the attribute holding the send side of open_memory_channel, and whether the class closes it"""
    attr = common.runner_facts(prog, cls).get("submit_channel")
    closes = []
    if attr:
        for fis in cls.methods.values():
            for fi in fis:
                for n in ast.walk(fi.node):
                    if isinstance(n, ast.Call) and isinstance(n.func, ast.Attribute) and n.func.attr in ("aclose", "close") and util.dotted(n.func.value) == "self." + attr:
                        closes.append((fi, n))
    return attr, closes


def send_after_close(chk):
    prog = chk.program
    rule = "O3.5"
    cls = prog.cls(TRIO_RUNNER)
    attr, closes = submit_channel(prog, cls)
    if attr is None:
        chk.undecided(rule, cls.qual, "no submit channel (open_memory_channel pair) found", node=cls.node)
        return
    reg = prog.lookup_method(cls, "register_payload")
    name = reg.qual
    CH = ("attr", SELF, attr)

    def is_send_site(ct):
        if ct[0] != "call":
            return None
        f = ct[1]
        if f == FROM_THREAD_RUN and ct[2] and ct[2][0] == ("attr", CH, "send"):
            return "from_thread.run(send)"
        if f == ("attr", CH, "send_nowait"):
            return "send_nowait"
        if f == ("attr", CH, "send"):
            return "send"
        return None

    # enumerate the send sites first
    it = Interp(prog, reg)
    sites = set()
    for o in it.run():
        for e in o.path.events:
            if e[0] == "call" and is_send_site(e[1]):
                sites.add(is_send_site(e[1]))
    # a fallback site is only reached when the first one raises the bare RuntimeError
    def run(throw_first, throw_second):
        def hook(it, path, ct, node):
            k = is_send_site(ct)
            if k == "from_thread.run(send)":
                return [("raise", throw_first)] if throw_first is not None else None
            if k in ("send_nowait", "send"):
                return [("raise", throw_second)] if throw_second is not None else None
            return None

        it = Interp(prog, reg, call_hook=hook)
        return it.run()

    ok = True
    n = 0
    excs = dict(SHUTDOWN_EXCS)
    if not closes:
        excs.pop("trio.ClosedResourceError")
        chk.notes.append("the trio runner never closes its submit channel itself: ClosedResourceError not required to be tolerated")
    scenarios = []
    for label, e in excs.items():
        scenarios.append(("%s raised by the cross-thread send" % label, e, None))
        scenarios.append(("%s raised by the in-thread send_nowait fallback" % label, BARE_RUNTIME, e))
    for label, first, second in scenarios:
        if second is not None and second[1] != "ext:trio.ClosedResourceError":
            continue  # send_nowait only raises WouldBlock / ClosedResourceError / BrokenResourceError
        outs = run(first, second)
        n += len(outs)
        chk.count(len(outs))
        for o in outs:
            reached_second = any(e[0] == "call" and is_send_site(e[1]) in ("send_nowait", "send") for e in o.path.events)
            if second is not None and not reached_second:
                continue
            if o.kind == "raise":
                site = "send_nowait" if second is not None else "trio.from_thread.run(send)"
                chk.bad(
                    rule,
                    name,
                    "%s escapes register_payload -- and with it adopt() -- while the trio runner is shutting down (the runner closes the channel itself in %s; "
                    "trio payloads may still be in shielded cleanup then): adopt must discard, not raise" % (label, ", ".join(sorted({f.name for f, _n in closes})) or "?"),
                    node=reg.node,
                    stmt="%s escapes %s" % (show(o.value).split("@")[0], site),
                    input=label,
                )
                ok = False
    if ok:
        chk.ok(rule, name, "every send into the submit channel tolerates the shutdown exceptions %s by discarding" % sorted(excs), node=reg.node, input="%d paths" % n)
    return attr



def meta_register(chk):
    """O3.1 / O3.2 in MetaRunner.register_payload, _unqueue_payloads, _launch_runners"""
    prog = chk.program
    fi = prog.method(META, "register_payload")
    name = fi.qual
    a = fi.node.args
    if a.vararg is None or "flavour" not in [x.arg for x in a.kwonlyargs + a.args]:
        chk.undecided("O3.1", name, "signature is not (*payloads, flavour)", node=fi.node)
        return
    PAYLOADS = ("sym", a.vararg.arg)
    FL = ("sym", "flavour")
    RUNNERS = ("attr", SELF, slots.runners_map(prog))
    QUEUES = ("attr", SELF, slots.queues_map(prog))
    KEYERR = exc_value("ext:builtins.KeyError", "no-runner")
    ok = True
    for have_runner in (True, False):
        for running in (True, False):

            def sub_hook(it, path, base, idx, node, have_runner=have_runner):
                if base == RUNNERS:
                    if idx != FL:
                        path.ev("wrong-key", idx)
                    return [("value", ("sym", "the_runner"))] if have_runner else [("raise", KEYERR)]
                return None

            def decide(it, path, term, running=running):
                if term[0] == "call" and term[1][0] == "attr" and term[1][2] == "is_set":
                    return running
                return None

            outs = Interp(prog, fi, sub_hook=sub_hook, decide=decide, unroll=2, inline=lambda f, ct: f.cls is fi.cls and not f.is_async and f.name != fi.name).run()
            chk.count(len(outs))
            label = "runner %s, runtime %s" % ("exists" if have_runner else "missing", "running" if running else "not running")
            for o in outs:
                evs = o.path.events
                if any(e[0] == "wrong-key" for e in evs):
                    chk.bad("O3.2", name, "the runner is looked up under %s instead of the requested flavour" % show([e[1] for e in evs if e[0] == "wrong-key"][0]), node=fi.node, stmt="runner-key", input=label)
                    ok = False
                forks = [e for e in evs if e[0] in ("branch", "fork") and e[-1] == "forked"]
                if forks:
                    chk.bad("O3.1", name, "whether a payload is registered depends on %s: payloads can be lost or duplicated" % show(forks[0][1]), node=fi.node, stmt="extra-condition %s" % show(strip_sites(forks[0][1]))[:80], input=label)
                    ok = False
                    continue
                regs = [e[1] for e in evs if e[0] == "call" and e[1][1] == ("attr", ("sym", "the_runner"), "register_payload")]
                queued = [e[1] for e in evs if e[0] == "call" and e[1][1][0] == "attr" and e[1][1][2] in ("extend", "append", "insert", "add") and QUEUES in list(subterms(e[1][1][1]))]
                if have_runner:
                    iters = [e for e in evs if e[0] == "loop-iter"]
                    if o.kind not in ("normal", "return") or queued:
                        chk.bad("O3.1", name, "with a live runner the payloads are %s" % ("queued instead of registered" if queued else "not registered (%s)" % o.kind), node=fi.node, stmt="live-not-registered", input=label)
                        ok = False
                        continue
                    if len(regs) != len(iters):
                        chk.bad("O3.1", name, "%d payloads but %d registrations with the runner" % (len(iters), len(regs)), node=fi.node, stmt="register-count", input=label)
                        ok = False
                        continue
                    for k, r in enumerate(regs):
                        if list(r[2]) != [("item", PAYLOADS, k)] or r[3]:
                            chk.bad("O3.1", name, "registration %d hands %s to the runner instead of payload %d" % (k, [show(x) for x in r[2]], k), node=fi.node, stmt="register-arg", input=label)
                            ok = False
                elif running:
                    if o.kind != "raise":
                        chk.bad("O3.1", name, "a flavour without a runner is silently accepted while the runtime is running: the payload is queued forever", node=fi.node, stmt="unknown-flavour-silent", input=label)
                        ok = False
                else:
                    if o.kind not in ("normal", "return") or regs:
                        chk.bad("O3.1", name, "before start the payloads are not queued (%s)" % o.kind, node=fi.node, stmt="not-queued", input=label)
                        ok = False
                        continue
                    if len(queued) != 1:
                        chk.bad("O3.1", name, "before start the payloads are queued %d times" % len(queued), node=fi.node, stmt="queue-count", input=label)
                        ok = False
                        continue
                    q = queued[0]
                    if q[1][2] != "extend" or list(q[2]) != [PAYLOADS]:
                        chk.bad(
                            "O3.1",
                            name,
                            "before start the queue receives %s(%s) instead of exactly all given payloads: payloads are filtered, de-duplicated or transformed, so some are never started" % (q[1][2], ", ".join(show(strip_sites(x)) for x in q[2])),
                            node=fi.node,
                            stmt="queue-filtered",
                            input=label,
                        )
                        ok = False
                    qsrc = q[1][1]
                    if not (qsrc[0] == "call" and qsrc[1] == ("attr", QUEUES, "setdefault") and qsrc[2] and qsrc[2][0] == FL) and not (qsrc[0] == "sub" and qsrc[1] == QUEUES and qsrc[2] == FL):
                        chk.bad("O3.2", name, "the payloads are queued under %s instead of the requested flavour" % show(strip_sites(qsrc)), node=fi.node, stmt="queue-key", input=label)
                        ok = False
    if ok:
        chk.ok("O3.1", name, "live runner: each payload registered exactly once, in order; before start: all payloads queued under the flavour; unknown flavour while running: raises", node=fi.node, input="runner exists/missing x running/not")
    # ---- the flush
    uq = slots.unqueuer(prog)
    outs = Interp(prog, uq, unroll=2, decide=lambda it, p, t: True if (t[0] == "call" and t[1][0] == "attr" and t[1][2] == "is_set") else None, inline=lambda f, ct: f.cls is uq.cls and not f.is_async and f.name.startswith("_") and f.name != "register_payload").run()
    chk.count(len(outs))
    ok = True
    for o in outs:
        if o.kind not in ("normal", "return"):
            continue
        evs = o.path.events
        iters = [e for e in evs if e[0] == "loop-iter"]
        regs = [(i, e[1]) for i, e in enumerate(evs) if e[0] == "call" and e[1][1] == ("attr", SELF, "register_payload")]
        if len(regs) != len(iters):
            chk.bad("O3.1", uq.qual, "%d queues but %d re-registrations" % (len(iters), len(regs)), node=uq.node, stmt="flush-count")
            ok = False
            continue
        swapped = []
        for k, (i, r) in enumerate(regs):
            item = None
            for e in evs:
                if e[0] == "bind" and e[2][0] == "proj" and e[2][1][0] == "item" and e[2][1][2] == k:
                    item = e[2][1]
            if item is None:
                chk.undecided("O3.1", uq.qual, "flush loop target is not (flavour, queue)", node=uq.node)
                return
            key, queue = ("proj", item, 0), ("proj", item, 1)
            if list(r[2]) != [("star", queue)]:
                chk.bad("O3.1", uq.qual, "a queue is re-registered as %s instead of all of its payloads" % [show(x) for x in r[2]], node=uq.node, stmt="flush-args")
                ok = False
            if dict((kk, v) for kk, v in r[3] if kk).get("flavour") != key:
                chk.bad("O3.2", uq.qual, "a queue is re-registered under flavour %s instead of its own key" % show(dict((kk, v) for kk, v in r[3] if kk).get("flavour")), node=uq.node, stmt="flush-flavour")
                ok = False
            QATTR = ("attr", SELF, slots.queues_map(prog))
            # the flushed mapping is the queue attribute itself, or a local it was swapped into ( q, self.Q = self.Q, {} )
            swapped = [e for e in evs if e[0] == "store" and e[1] == QATTR and strip_sites(e[2]) in (("dict", ()), ("call", ("glob", "ext:builtins.dict"), (), ()))]
            dom = strip_sites(item[1])
            if dom != ("call", ("attr", QATTR, "items"), (), ()):
                chk.bad("O3.1", uq.qual, "the flush ranges over %s" % show(item[1]), node=uq.node, stmt="flush-domain")
                ok = False
        # a registration can fail (a queued flavour without a runner raises once the runtime is running): what was handed to
        # a runner before must not stay queued -- each queue is emptied before the next one is registered, or the whole
        # mapping was swapped out before the loop
        if len(regs) >= 2 and not swapped:
            for k, (i, r) in enumerate(regs[:-1]):
                nxt = regs[k + 1][0]
                between = [e for e in evs[i + 1 : nxt] if e[0] == "call" and e[1][1][0] == "attr" and e[1][1][2] in ("clear", "pop", "popitem")]
                if not between:
                    chk.bad(
                        "O3.1",
                        uq.qual,
                        "a flushed queue is not emptied before the next queue is registered: when that registration fails (a payload queued for a flavour without a runner), the payloads already handed to their runners stay queued and are started a second time by the next run",
                        node=uq.node,
                        stmt="flush-clear-deferred",
                    )
                    ok = False
                    break
        cleared = [e for e in evs if e[0] == "call" and e[1][1] == ("attr", ("attr", SELF, slots.queues_map(prog)), "clear")]
        cleared = cleared or [e for e in evs if e[0] == "store" and e[1] == ("attr", SELF, slots.queues_map(prog)) and strip_sites(e[2]) in (("dict", ()), ("call", ("glob", "ext:builtins.dict"), (), ()))]
        if iters and not cleared and not all(any(e[0] == "call" and e[1][1][0] == "attr" and e[1][1][2] == "clear" for e in evs) for _ in [0]):
            chk.bad("O3.1", uq.qual, "flushed payloads stay queued: they are started again on the next run", node=uq.node, stmt="flush-not-cleared")
            ok = False
    mr = slots.supervisor(prog)
    n_flush = len([n for n in ast.walk(mr.node) if isinstance(n, ast.Call) and util.dotted(n.func) == "self." + slots.unqueuer(prog).name])
    if n_flush != 1:
        chk.bad("O3.1", mr.qual, "the queue is flushed %d times per run (required: exactly once)" % n_flush, node=mr.node, stmt="flush-per-run")
        ok = False
    if ok:
        chk.ok("O3.1", uq.qual, "each queue is re-registered once, completely, under its own flavour, then cleared; one flush per run", node=uq.node)
    # ---- runners keyed by their class's flavour
    launch = slots.launcher(prog)
    ok = False
    for n in ast.walk(launch.node):
        if isinstance(n, ast.Assign):
            for t in n.targets:
                if isinstance(t, ast.Subscript) and util.dotted(t.value) == "self." + slots.runners_map(prog):
                    chk.count()
                    key = util.unparse(t.slice)
                    ctor = util.unparse(n.value.func) if isinstance(n.value, ast.Call) else None
                    if ctor and key == ctor + ".flavour":
                        ok = True
                    else:
                        chk.bad("O3.2", launch.qual, "a runner is stored under %s, not under its own class's flavour" % key, node=n, stmt="runner-key %s" % key)
                        ok = None
    if ok:
        chk.ok("O3.2", launch.qual, "every runner is keyed by its class's flavour", node=launch.node)
    elif ok is False:
        chk.undecided("O3.2", launch.qual, "runner mapping construction not recognised", node=launch.node)


def runner_forwards(chk):
    """O3.1: each runner forwards a registered payload exactly once; the monitor invokes it once"""
    prog = chk.program
    from . import c01

    for cls in util.concrete_runners(prog):
        reg = prog.lookup_method(cls, "register_payload")
        pay = ("sym", reg.params()[0])
        facts = common.runner_facts(prog, cls)
        ch = facts.get("submit_channel")
        fl = prog.resolve(cls.module, cls.class_attrs.get("flavour"))

        def forward_kind(ct):
            if ct[0] != "call":
                return None
            f = ct[1]
            flat = list(ct[2]) + [v for _k, v in ct[3]]
            inner = []
            for x in flat:
                if x[0] in ("tuple", "list"):
                    inner.extend(x[1])
                if x[0] == "dict":
                    inner.extend(v for _k, v in x[1])
                if x[0] == "call":
                    inner.extend(x[2])
                    inner.extend(v for _k, v in x[3])
            if pay not in flat + inner:
                return None
            if f[0] == "attr" and f[2] in ("call_soon_threadsafe", "create_task", "start_soon", "send_nowait", "send"):
                return f[2]
            if f == ("glob", "ext:threading.Thread"):
                return "Thread"
            if f == FROM_THREAD_RUN:
                return "from_thread.run"
            return None

        scenarios = [("plain", None, None)]
        if ch:
            scenarios = [("cross-thread send succeeds", None, None), ("called inside the trio thread", BARE_RUNTIME, None)]
        ok = True
        for label, first, second in scenarios:

            def hook(it, path, ct, node, first=first):
                if ct[0] == "call" and ct[1] == FROM_THREAD_RUN and first is not None:
                    return [("raise", first)]
                return None

            helper = lambda f, ct, cls=cls, reg=reg, facts=facts: f.cls is not None and f is not reg and not f.is_async and f.name not in facts["monitors"] and f.name not in ("run_payload", "register_payload", "stop", "aclose") and ct[1][0] == "attr" and ct[1][1] == SELF  # noqa: E731
            outs = Interp(prog, reg, call_hook=hook, inline=helper).run()
            chk.count(len(outs))
            for o in outs:
                if o.kind == "raise":
                    chk.bad("O3.1", reg.qual, "register_payload raises %s (%s)" % (show(o.value), label), node=reg.node, stmt="register-raises", input=label)
                    ok = False
                    continue
                fw = [forward_kind(e[1]) for e in o.path.events if e[0] == "call" and forward_kind(e[1])]
                raised = [e for e in o.path.events if e[0] == "raised-at-call"]
                n_ok = len(fw) - len(raised)
                if n_ok != 1:
                    chk.bad("O3.1", reg.qual, "a registered payload is forwarded %d times (%s) on a path that is not a shutdown discard (%s)" % (n_ok, fw, label), node=reg.node, stmt="forward-count %d" % n_ok, input=label)
                    ok = False
                if fw and fw[-1] == "Thread":
                    started = [e for e in o.path.events if e[0] == "call" and e[1][1][0] == "attr" and e[1][1][2] == "start"]
                    if len(started) != 1:
                        chk.bad("O3.1", reg.qual, "the payload thread is started %d times" % len(started), node=reg.node, stmt="thread-start")
                        ok = False
        # intermediate hops and the monitor
        monitors, bad = c01.payload_flow(chk, cls)
        for mname in monitors:
            m = common.monitor_fi(prog, cls, mname)
            pp = None
            for n in ast.walk(m.node):
                if isinstance(n, ast.Call) and isinstance(n.func, ast.Name) and n.func.id in m.params():
                    pp = n.func.id
            inv_ok = True
            for o in Interp(prog, m, inline=lambda f, ct: False).run():
                inv = [e[1] for e in o.path.events if e[0] == "call" and e[1][1] == ("sym", pp)]
                chk.count()
                if len(inv) != 1 or inv[0][2] or inv[0][3]:
                    chk.bad("O3.1", m.qual, "the monitor invokes the payload %d times%s (required: exactly once, without arguments)" % (len(inv), " with arguments" if inv and (inv[0][2] or inv[0][3]) else ""), node=m.node, stmt="invoke-count")
                    inv_ok = ok = False
                    break
        for fis in cls.methods.values():
            for f in fis:
                if f is reg or f.name in monitors or f.name in ("run_payload",):
                    continue
                if not any(isinstance(n, ast.Attribute) and n.attr in ("create_task", "start_soon") for n in ast.walk(f.node)):
                    continue
                for o in Interp(prog, f, unroll=1).run():
                    spawns = [e[1] for e in o.path.events if e[0] == "call" and e[1][1][0] == "attr" and e[1][1][2] in ("create_task", "start_soon")]
                    iters = [e for e in o.path.events if e[0] == "loop-iter"]
                    chk.count()
                    want = len(iters) if iters or any(isinstance(n, (ast.AsyncFor, ast.For)) for n in ast.walk(f.node)) else 1
                    if o.kind in ("normal", "return", "cut") and len(spawns) != want:
                        chk.bad("O3.1", f.qual, "a received payload is spawned %d times (required: %d)" % (len(spawns), want), node=f.node, stmt="spawn-count")
                        ok = False
        if ok:
            chk.ok("O3.1", reg.qual, "a registered payload is forwarded exactly once (or discarded during shutdown) and invoked exactly once by %s" % sorted(monitors), node=reg.node)


def adopt_rules(chk):
    prog = chk.program
    adopt = prog.method(SERVICE_RUNNER, "adopt")
    common.binding_rule(chk, "O3.3", adopt, forward_attr="register_payload")
    # O3.4: returns nothing, blocks on nothing
    rule = "O3.4"
    ok = True
    for fi in (adopt, prog.method(META, "register_payload")):
        for n in ast.walk(fi.node):
            if isinstance(n, ast.Return) and n.value is not None and not (isinstance(n.value, ast.Constant) and n.value.value is None):
                chk.bad(rule, fi.qual, "%s returns a value (%s): adopt must return None" % (fi.name, util.unparse(n.value)), node=n, stmt="returns-value")
                ok = False
            if isinstance(n, ast.Call) and isinstance(n.func, ast.Attribute) and n.func.attr in ("run_payload", "result", "join", "wait", "execute"):
                chk.bad(rule, fi.qual, "%s reaches the blocking primitive .%s(): adopt must not wait for the payload" % (fi.name, n.func.attr), node=n, stmt="blocks %s" % n.func.attr)
                ok = False
            chk.count()
    if ok:
        chk.ok(rule, adopt.qual, "adopt and MetaRunner.register_payload return nothing and reach no blocking result primitive", node=adopt.node)


def _eager_formats(node, names):
    """formatting expressions (f-string, "..." % x, str()/repr()/format(), "...".format()) that mention one of `names`"""
    out = []
    for n in ast.walk(node):
        fmt = None
        if isinstance(n, ast.JoinedStr) and any(isinstance(v, ast.FormattedValue) for v in n.values):
            fmt = n
        elif isinstance(n, ast.BinOp) and isinstance(n.op, ast.Mod) and isinstance(n.left, (ast.Constant, ast.JoinedStr)) and isinstance(getattr(n.left, "value", ""), str):
            fmt = n
        elif isinstance(n, ast.Call) and util.dotted(n.func) in ("str", "repr", "format", "ascii"):
            fmt = n
        elif isinstance(n, ast.Call) and isinstance(n.func, ast.Attribute) and n.func.attr == "format" and isinstance(n.func.value, ast.Constant):
            fmt = n
        if fmt is not None and any(isinstance(x, ast.Name) and x.id in names for x in ast.walk(fmt)):
            out.append(fmt)
    return out


def no_eager_formatting(chk):
    """O3.4 (formatting): adopt never formats the payload (or its bound arguments) in the caller -- a `__repr__` that
    raises would escape from adopt and the payload would be lost; lazy logging arguments are not formatting"""
    prog = chk.program
    rule = "O3.4"
    fns = [prog.method(SERVICE_RUNNER, "adopt"), prog.method(META, "register_payload")]
    for r in util.concrete_runners(prog):
        f = prog.lookup_method(r, "register_payload")
        if f is not None:
            fns.append(f)
            # synchronous helpers the registration calls directly in the caller's thread
            for n in ast.walk(f.node):
                if isinstance(n, ast.Call) and isinstance(n.func, ast.Attribute) and util.dotted(n.func.value) == "self":
                    h = prog.lookup_method(r, n.func.attr)
                    if h is not None and not h.is_async and h not in fns and h.name not in ("register_payload",):
                        fns.append(h)
    n_sites = 0
    bad = 0
    for fi in fns:
        a = fi.node.args
        names = {x.arg for x in a.posonlyargs + a.args if x.arg not in ("self", "cls", "flavour")} | ({a.vararg.arg} if a.vararg else set()) | ({a.kwarg.arg} if a.kwarg else set())
        for n in ast.walk(fi.node):
            if isinstance(n, ast.For) and any(isinstance(x, ast.Name) and x.id in names for x in ast.walk(n.iter)):
                names |= {x.id for x in ast.walk(n.target) if isinstance(x, ast.Name)}
        par = util.parents_map(fi.node)
        for fmt in _eager_formats(fi.node, names):
            n_sites += 1
            chk.count()
            # on a path that ends the registration by discarding the payload (shutdown) the payload is lost anyway,
            # but adopt must still not raise
            in_handler = util.enclosing(par, fmt, (ast.ExceptHandler,)) is not None
            bad += 1
            chk.bad(
                rule,
                fi.qual,
                "%s formats the payload eagerly in the caller of adopt (%s)%s: a payload or bound argument whose __repr__/__str__ raises makes adopt raise instead of returning None, and the payload is lost; pass it as a lazy logging argument instead"
                % (fi.name, util.unparse(fmt)[:70], " -- on the discard path taken while the runtime shuts down" if in_handler else ""),
                node=fmt,
                stmt="eager-format %s" % util.unparse(fmt)[:60],
            )
    if not bad:
        chk.ok(rule, "<registration chain>", "none of the %d functions on the registration chain formats the payload eagerly" % len(fns), node=fns[0].node)


def mode_switch_atomic(chk):
    """O3.10: the decision "queue this payload" (runner lookup fails, runtime not running -> append to the queue) is atomic
    with the runtime's switch to direct registration (runners filled -> running.set() -> queue flushed).  Without a common
    lock a submitter that is preempted between its check and its append queues the payload AFTER the flush: the payload
    is lost for this run (or, preempted between lookup and check, is refused as "unknown runner")."""
    prog = chk.program
    rule = "O3.10"
    from . import c11

    cls = prog.cls(META)
    reg = prog.method(META, "register_payload")
    R, Q = slots.runners_map(prog), slots.queues_map(prog)
    sup = slots.supervisor(prog)
    E = None
    for n in ast.walk(sup.node):
        if isinstance(n, ast.Call) and isinstance(n.func, ast.Attribute) and n.func.attr == "set" and util.dotted(n.func.value or n) and (util.dotted(n.func.value) or "").startswith("self."):
            E = util.dotted(n.func.value).split(".", 1)[1]
    if E is None:
        chk.undecided(rule, sup.qual, "the supervising coroutine reports no running event", node=sup.node)
        return

    def accesses(fnode):
        """(kind, node) for the accesses that take part in the protocol"""
        out = []
        for n in ast.walk(fnode):
            d = util.dotted(n) if isinstance(n, ast.Attribute) else None
            if d == "self." + R:
                out.append(("runners", n))
            elif d == "self." + Q:
                out.append(("queues", n))
            elif d == "self." + E:
                out.append(("running", n))
        return out

    # the decider really has the check-then-queue path
    KEYERR = exc_value("ext:builtins.KeyError", "no runner yet")

    def sub_hook(it, path, base, idx, node):
        if base == ("attr", SELF, R):
            return [("raise", KEYERR)]
        return None

    def decide(it, path, term):
        if term[0] == "call" and term[1] == ("attr", ("attr", SELF, E), "is_set"):
            return False
        if term[0] == "cmp" and term[1] == "in" and term[3] == ("attr", SELF, R):
            return False
        return None

    queued = False
    for o in Interp(prog, reg, sub_hook=sub_hook, decide=decide, unroll=1).run():
        chk.count()
        if o.kind in ("normal", "return") and any(e[0] == "call" and ("attr", SELF, Q) in list(subterms(e[1][1])) for e in o.path.events):
            queued = True
    if not queued:
        chk.undecided(rule, reg.qual, "register_payload has no path that queues a payload when the runner lookup fails and the runtime is not running", node=reg.node, aux=True)
        return
    dec = {k for k, _n in accesses(reg.node)}
    # the switch: own coroutines of the supervisor's side that fill the runners / set running / flush the queue
    switchers = {}
    for fis in cls.methods.values():
        for f in fis:
            if f is reg or not f.is_async:
                continue
            acc = accesses(f.node)
            writes = set()
            for k, n in acc:
                par = util.parents_map(f.node)
                up = par.get(id(n))
                if k == "running" and isinstance(up, ast.Attribute) and up.attr in ("set", "clear"):
                    writes.add("running." + up.attr)
                if k == "queues" and (isinstance(up, ast.Attribute) and up.attr in ("clear", "items", "pop", "values") or isinstance(n.ctx, ast.Store)):
                    writes.add("queues-flush")
                if k == "runners" and (isinstance(n.ctx, ast.Store) or isinstance(up, ast.Subscript) and isinstance(up.ctx, ast.Store)):
                    writes.add("runners-fill")
            if writes:
                switchers[f] = writes
    if not ({"running.set", "queues-flush"} <= set().union(*switchers.values()) if switchers else False):
        chk.undecided(rule, cls.qual, "the switch to direct registration (running.set, queue flush) was not found", node=cls.node, aux=True)
        return
    # a common lock around both sides?
    locks, secs = c11.lock_sections(prog, [cls.module])
    by_fn = {}
    for lk, _m, fnode, body in secs:
        by_fn.setdefault(fnode.name, []).append((lk, body))

    def covered(fnode, lk, only=None):
        """the protocol accesses of fnode (all, or those of the kinds in `only`) lie inside with-sections of lock lk"""
        inside = set()
        for l2, body in by_fn.get(fnode.name, []):
            if l2 == lk:
                for st in body:
                    inside |= {id(x) for x in ast.walk(st)}
        par = util.parents_map(fnode)
        todo = []
        for k, n in accesses(fnode):
            up = par.get(id(n))
            tag = k
            if k == "running" and isinstance(up, ast.Attribute):
                tag = "running." + up.attr
            if only is None or tag in only or (k == "queues" and "queues" in only):
                todo.append(n)
        return all(id(n) in inside for n in todo)

    good = [lk for lk in locks if covered(reg.node, lk) and all(covered(f.node, lk, only={"running.set", "queues"}) for f, w in switchers.items() if w & {"running.set", "queues-flush"})]
    chk.count(len(switchers) + 1)
    if good:
        chk.ok(rule, reg.qual, "the queue-or-register decision and the switch to direct registration are both made under the lock %s" % good[0], node=reg.node)
        return
    chk.bad(
        rule,
        reg.qual,
        "register_payload decides to queue (lookup in self.%s fails, self.%s is not set, append to self.%s) without a lock shared with the switch to direct registration (%s): a submitter preempted between the check and the append queues its payload after the queue was flushed -- the payload is not started in this run -- and one preempted between the lookup and the check is refused with RuntimeError('unknown runner')"
        % (R, E, Q, ", ".join("%s: %s" % (f.name, "/".join(sorted(w))) for f, w in sorted(switchers.items(), key=lambda x: x[0].name))),
        node=reg.node,
        stmt="queue-decision-not-atomic",
        input="history: T: runners[flavour] -> KeyError; T: running.is_set() -> False; runtime: launch, running.set(), flush queue; T: queue.extend(payloads)",
    )


def weak_registry(chk):
    """O3.9: service units are held weakly by the registry: a unit that was superseded (an instance of a @service class
    derived from another @service class gets one unit per decorator) disappears instead of being started as well"""
    prog = chk.program
    rule = "O3.9"
    cls = prog.cls(SERVICE_UNIT)
    units = prog.pick(cls.methods.get("units", []))
    reg = None
    if units is not None:
        for n in ast.walk(units.node):
            if isinstance(n, ast.Attribute) and isinstance(n.value, ast.Name) and n.value.id in ("cls", "self", cls.name) and n.attr in cls.class_attrs:
                reg = n.attr
    if reg is None:
        chk.undecided(rule, cls.qual, "the class-level registry read by units() was not found", node=cls.node)
        return
    v = cls.class_attrs[reg]
    chk.count()
    r = prog.resolve(cls.module, v.func) if isinstance(v, ast.Call) else None
    if r == "ext:weakref.WeakSet":
        chk.ok(rule, cls.qual, "the unit registry %s is a weakref.WeakSet" % reg, node=v)
    elif r in ("ext:builtins.set", "ext:builtins.list", "ext:builtins.dict") or isinstance(v, (ast.Set, ast.List, ast.Dict)):
        chk.bad(rule, cls.qual, "the unit registry %s holds the units strongly (%s): a superseded unit of a live service (one unit per @service decorator in the class hierarchy) stays defined and the service's run method is started once per unit" % (reg, util.unparse(v)), node=v, stmt="registry-strong")
    else:
        chk.undecided(rule, cls.qual, "the unit registry is %s" % util.unparse(v), node=v)
    # units are defined on ANY thread (creating a service adds its unit) while the sweep copies the registry on the trio
    # thread: the copy must be one C-level step over the backing set (set(ws.data) / list(...)), never a Python-level
    # iteration of the WeakSet itself (WeakSet.__iter__ is a generator over self.data: "Set changed size during iteration")
    if r == "ext:weakref.WeakSet" and units is not None:
        sites = []  # (function node, alias name or None for the attribute itself)
        for n in ast.walk(units.node):
            if isinstance(n, ast.Call) and not n.keywords and len(n.args) == 1 and isinstance(n.args[0], ast.Attribute) and n.args[0].attr == reg and isinstance(n.func, ast.Name):
                g = prog.functions.get(prog.resolve(units.module, n.func) or "")
                if g is not None and g.cls is None and g.params():
                    sites.append((g, g.params()[0]))
        if not sites:
            sites.append((units, None))
        for g, alias in sites:
            par = util.parents_map(g.node)
            for n in ast.walk(g.node):
                hit = (alias is not None and isinstance(n, ast.Name) and n.id == alias and isinstance(n.ctx, ast.Load)) or (alias is None and isinstance(n, ast.Attribute) and n.attr == reg)
                if not hit:
                    continue
                chk.count()
                up = par.get(id(n))
                if isinstance(up, ast.Attribute) and up.attr == "data":
                    up2 = par.get(id(up))
                    if isinstance(up2, ast.Call) and isinstance(up2.func, ast.Name) and up2.func.id in ("set", "list", "tuple", "frozenset") and up2.args and up2.args[0] is up:
                        continue
                    chk.bad(rule, g.qual, "the backing set of the unit registry is iterated at Python level (%s): a unit defined on another thread meanwhile makes the sweep fail with 'Set changed size during iteration'" % util.unparse(up2)[:60], node=n, stmt="registry-data-iterated")
                    continue
                iterated = (isinstance(up, (ast.For, ast.comprehension)) and up.iter is n) or (isinstance(up, ast.Call) and n in up.args and isinstance(up.func, ast.Name) and up.func.id in ("set", "list", "tuple", "frozenset", "sorted", "iter", "len", "any", "all")) or (isinstance(up, ast.Attribute) and up.attr in ("copy", "__iter__", "union", "difference"))
                if iterated:
                    chk.bad(
                        rule,
                        g.qual,
                        "the unit registry (a WeakSet) is copied by iterating the WeakSet itself (%s): WeakSet.__iter__ walks its backing set in Python code, so a service created on another thread during the copy makes the sweep fail with "
                        "'Set changed size during iteration' and the runtime goes down; copy the backing set in one step (set(ws.data)) and dereference afterwards" % util.unparse(up if not isinstance(up, ast.comprehension) else n)[:60],
                        node=n,
                        stmt="registry-iterated",
                    )


def service_typestate(chk):
    prog = chk.program
    rule = "O3.6"
    unit = prog.cls(SERVICE_UNIT)
    # who writes _started
    ok = True
    n = 0
    for c in prog.classes.values():
        for fis in c.methods.values():
            for f in fis:
                for node in ast.walk(f.node):
                    if isinstance(node, (ast.Assign, ast.AugAssign)):
                        tg = node.targets if isinstance(node, ast.Assign) else [node.target]
                        for t in tg:
                            if isinstance(t, ast.Attribute) and t.attr == slots.started_flag(prog):
                                n += 1
                                chk.count()
                                val = node.value.value if isinstance(node.value, ast.Constant) else "?"
                                if c is unit and f.name == "__init__" and val is False:
                                    continue
                                if c is unit and f.name == "start" and val is True:
                                    continue
                                chk.bad(rule, f.qual, "the started flag of a service unit is written (%s) in %s: a started service can be started again, or an unstarted one skipped" % (util.unparse(node.value), f.qual.split(":")[-1]), node=node, stmt="started-write in %s" % f.name)
                                ok = False
    if n < 2:
        chk.bad(rule, unit.qual, "the started flag is not initialised to False in __init__ and set to True in start", node=unit.node, stmt="started-writes")
        ok = False
    start = prog.method(SERVICE_UNIT, "start")
    for alive in (True, False):
        outs = Interp(prog, start, decide=lambda it, p, t, alive=alive: (not alive) if t[0] == "isnone" else None).run()
        for o in outs:
            chk.count()
            evs = o.path.events
            st = [e for e in evs if e[0] == "store" and e[1] == ("attr", SELF, slots.started_flag(prog))]
            regs = [e[1] for e in evs if e[0] == "call" and e[1][1][0] == "attr" and e[1][1][2] == "register_payload"]
            if alive:
                if len(regs) != 1 or not st or st[-1][2] != ("const", True):
                    chk.bad(rule, start.qual, "starting a live service registers its run method %d times and %s the started flag" % (len(regs), "sets" if st else "does not set"), node=start.node, stmt="start-live")
                    ok = False
                    continue
                r = regs[0]
                kw = dict((k, v) for k, v in r[3] if k)
                if kw.get("flavour") != ("attr", SELF, "flavour"):
                    chk.bad("O3.2", start.qual, "the service is registered under flavour %s instead of the unit's own flavour" % show(kw.get("flavour")), node=start.node, stmt="service-flavour")
                    ok = False
                if not (r[2] and r[2][0][0] == "attr" and r[2][0][2] == "run"):
                    chk.bad(rule, start.qual, "the registered payload is %s, not the service's run method" % [show(x) for x in r[2]], node=start.node, stmt="service-payload")
                    ok = False
            else:
                if regs:
                    chk.bad(rule, start.qual, "a collected service is registered", node=start.node, stmt="start-dead")
                    ok = False
    run_g = prog.pick(unit.methods.get("running", []), "getter")
    if run_g is not None:
        outs = Interp(prog, run_g).run()
        FLAG = ("attr", SELF, slots.started_flag(prog))
        rv = strip_sites(outs[0].value) if len(outs) == 1 and outs[0].kind == "return" and outs[0].value else None
        if rv is not None and rv[0] == "call" and rv[1] == ("glob", "ext:builtins.bool") and list(rv[2]) == [FLAG]:
            rv = FLAG  # bool(flag) of a flag that only ever holds True / False
        if rv != FLAG:
            chk.bad(rule, run_g.qual, "`running` does not report the started flag", node=run_g.node, stmt="running")
            ok = False
    init = prog.method(SERVICE_UNIT, "__init__")
    outs = Interp(prog, init).run()
    for o in outs:
        if o.kind in ("normal", "return"):
            chk.count()
            st = {e[1][2]: e[2] for e in o.path.events if e[0] == "store" and e[1][1] == SELF}
            added = [e for e in o.path.events if e[0] == "call" and e[1][1][0] in ("attr", "glob") and show(e[1][1]).endswith("__active_units__.add") and list(e[1][2]) == [SELF]]
            if len(added) != 1:
                chk.bad(rule, init.qual, "a new service unit is not added to the active set on every path: its service is never started", node=init.node, stmt="unit-not-registered")
                ok = False
            if st.get("flavour") != ("sym", "flavour"):
                chk.bad("O3.2", init.qual, "the unit stores flavour %s instead of the requested one" % show(st.get("flavour")), node=init.node, stmt="unit-flavour")
                ok = False
    # the replaced __new__ creates exactly one unit per instance with the decorator's flavour
    newf = prog.functions.get("cobald.daemon.runners.service:service.service_unit_decorator.__new_service__")
    if newf is None:
        chk.undecided(rule, "service", "replaced __new__ not found", node=None)
        ok = False
    else:
        for o in Interp(prog, newf).run():
            chk.count()
            if o.kind != "return":
                continue
            units = [e[1] for e in o.path.events if e[0] == "call" and e[1][1] == ("glob", SERVICE_UNIT)]
            if len(units) != 1:
                chk.bad(rule, newf.qual, "constructing a service instance creates %d service units (required: exactly one)" % len(units), node=newf.node, stmt="unit-count")
                ok = False
                continue
            uinit = prog.method(SERVICE_UNIT, "__init__")
            uargs = dict(zip(uinit.params(), units[0][2]))
            uargs.update({k: v for k, v in units[0][3] if k})
            up = uinit.params()
            if len(up) < 2 or uargs.get(up[1]) != ("sym", "flavour") or uargs.get(up[0]) != o.value:
                chk.bad("O3.2", newf.qual, "the unit is created as ServiceUnit(%s)" % ", ".join(["%s" % show(x) for x in units[0][2]] + ["%s=%s" % (k, show(v)) for k, v in units[0][3] if k]), node=newf.node, stmt="unit-args")
                ok = False
            stored = [e for e in o.path.events if e[0] == "store" and e[1][0] == "attr" and e[1][1] == o.value and e[2] == units[0]]
            if not stored:
                chk.bad(rule, newf.qual, "the unit is not stored on the instance: nothing keeps it alive, so the service is never started", node=newf.node, stmt="unit-not-stored")
                ok = False
    if ok:
        chk.ok(rule, unit.qual, "started flag written only in __init__ (False) and start (True, exactly when the run method is registered under the unit's flavour); one stored unit per service instance, always added to the active set", node=unit.node)


def sweep_rules(chk):
    prog = chk.program
    rule = "O3.7"
    cls = prog.cls(SERVICE_RUNNER)
    acc = prog.method(SERVICE_RUNNER, "accept")
    outs = Interp(prog, acc).run()
    sweep_name = None
    ok = True
    for o in outs:
        evs = o.path.events
        ad = [(i, e[1]) for i, e in enumerate(evs) if e[0] == "call" and e[1][1] == ("attr", SELF, "adopt")]
        rn = [i for i, e in enumerate(evs) if e[0] == "call" and e[1][1] == ("attr", ("attr", SELF, slots.service_meta(prog)), "run")]
        chk.count()
        if len(ad) != 1 or len(rn) != 1 or ad[0][0] > rn[0]:
            chk.bad(rule, acc.qual, "accept does not adopt the service sweep exactly once before running the meta runner", node=acc.node, stmt="accept-order")
            ok = False
            continue
        c = ad[0][1]
        if dict((k, v) for k, v in c[3] if k).get("flavour") != ("glob", "ext:trio"):
            chk.undecided(rule, acc.qual, "the sweep is adopted with an unexpected flavour", node=acc.node)
            ok = False
        if c[2] and c[2][0][0] == "attr" and c[2][0][1] == SELF:
            sweep_name = c[2][0][2]
    if sweep_name is None:
        chk.undecided(rule, acc.qual, "sweep coroutine not identified", node=acc.node)
        return
    sw = prog.lookup_method(cls, sweep_name)
    loop = next((n for n in ast.walk(sw.node) if isinstance(n, ast.While)), None)
    loop_fi = sw
    if loop is None:
        # the polling loop may live in an own coroutine the sweep awaits
        for n in ast.walk(sw.node):
            if isinstance(n, ast.Await) and isinstance(n.value, ast.Call) and isinstance(n.value.func, ast.Attribute) and util.dotted(n.value.func.value) == "self":
                h = prog.lookup_method(cls, n.value.func.attr)
                hl = next((x for x in ast.walk(h.node) if isinstance(x, ast.While)), None) if h is not None and h.is_async else None
                if hl is not None:
                    loop, loop_fi = hl, h
    step_name = None
    if loop is None:
        chk.bad(rule, sw.qual, "the sweep does not loop: services created after start are never started", node=sw.node, stmt="no-loop")
        return
    it = Interp(prog, loop_fi, unroll=1)
    for o in it.exec_block(loop.body, Path()):
        evs = o.path.events
        if o.kind not in ("normal", "continue"):
            continue  # the cycle that leaves the loop (shutdown requested) need not adopt
        def looks_at_units(nm):
            # (pure helpers of the loop -- the next delay, a log line -- are not the adopt step)
            g = prog.lookup_method(cls, nm)
            if g is None:
                return True
            return any((isinstance(x, (ast.Name, ast.Attribute)) and prog.resolve(g.module, x) == SERVICE_UNIT) or (isinstance(x, ast.Attribute) and x.attr in ("units", "start")) for x in ast.walk(g.node))

        steps = [(i, e[1]) for i, e in enumerate(evs) if e[0] == "call" and e[1][1][0] == "attr" and e[1][1][1] == SELF and e[1][1][2] not in (sweep_name, loop_fi.name) and looks_at_units(e[1][1][2])]
        sleeps = [i for i, e in enumerate(evs) if e[0] == "call" and e[1][1] == ("glob", "ext:trio.sleep")]
        chk.count()
        if len(steps) != 1 or not sleeps or steps[0][0] > sleeps[0]:
            chk.bad(rule, sw.qual, "one polling cycle does not perform the adopt step exactly once before sleeping (%d steps)%s" % (len(steps), "; condition: " + "; ".join(show(e[1]) for e in evs if e[0] == "branch" and e[4] == "forked") if any(e[0] == "branch" and e[4] == "forked" for e in evs) else ""), node=loop, stmt="cycle-step")
            ok = False
        elif steps:
            step_name = steps[0][1][1][2]
    if step_name is None:
        return
    # a failure of the adopt step (a service whose flavour has no runner, a failing registration) ends the sweep BY
    # RAISING: it is then a background failure that stops the runtime.  Swallowed, the sweep is gone while the daemon
    # stays up -- services created later are never started and nobody notices
    for label in ("AnyException", "OtherBase"):
        e = interp_mod.REPRESENTATIVES[label]

        def failing(it_, path, ct, node, e=e):
            if ct[0] == "call" and ct[1] == ("attr", SELF, step_name):
                return [("raise", e)]
            return None

        for o in Interp(prog, sw, unroll=1, call_hook=failing, inline=lambda f, ct: f.cls is cls and f.is_async and f is not sw and f.name == loop_fi.name).run():
            chk.count()
            if not any(ev[0] == "raised-at-call" for ev in o.path.events):
                continue
            if o.kind != "raise" or o.value != e:
                chk.bad(rule, sw.qual, "a failure of the adopt step (%s) does not leave the service sweep by raising (path ends: %s): the sweep is gone while the runtime keeps running, so services created later are never started and the failure never stops the daemon" % (label, show(o.value) if o.kind == "raise" else o.kind), node=sw.node, stmt="sweep-failure-swallowed", input=label)
                ok = False
                break
    st = prog.lookup_method(cls, step_name)
    # the adopt step: every path examines every unit; not running => started exactly once with the meta runner
    seen = set()
    for running in (True, False):

        def decide(it, path, term, running=running):
            if term[0] == "attr" and term[2] == "running" and term[1][0] == "item":
                return running
            if term[0] == "truthy" and term[1][0] == "attr" and term[1][2] == "running":
                return running
            return None

        denv = util.unsupplied_defaults(prog, st)
        outs = Interp(prog, st, decide=decide, unroll=1).run(env=denv) if denv else Interp(prog, st, decide=decide, unroll=1).run()
        chk.count(len(outs))
        for o in outs:
            evs = o.path.events
            loops = [e for e in evs if e[0] in ("loop-iter", "loop-exit", "loop-cut")]
            if o.kind in ("normal", "return") and not loops:
                chk.bad(
                    "O3.6",
                    st.qual,
                    "the adopt step can finish without looking at the service units (condition: %s): a service created while that condition holds is never started" % "; ".join("%s is %s" % (show(e[1]), e[2]) for e in evs if e[0] == "branch"),
                    node=st.node,
                    stmt="units-not-examined",
                )
                ok = False
                continue
            iters = [e for e in evs if e[0] == "loop-iter"]
            if len(iters) != 1:
                continue
            unit = [e[2] for e in evs if e[0] == "bind" and e[2][0] == "item"][0]
            if "units" not in show(unit[1]):
                chk.bad("O3.6", st.qual, "the adopt step ranges over %s instead of all defined units" % show(unit[1]), node=st.node, stmt="units-domain")
                ok = False
            starts = [e[1] for e in evs if e[0] == "call" and e[1][1] == ("attr", unit, "start")]
            extra = [e for e in evs if e[0] == "branch" and e[4] == "forked"]
            if extra:
                chk.bad("O3.6", st.qual, "whether a unit is started depends on %s" % show(extra[0][1]), node=st.node, stmt="start-extra-condition")
                ok = False
                continue
            seen.add((running, len(starts)))
            if starts and (list(starts[0][2]) + [v for k_, v in starts[0][3] if k_]) != [("attr", SELF, slots.service_meta(prog))]:
                chk.bad("O3.6", st.qual, "units are started with %s instead of the runtime's meta runner" % [show(x) for x in starts[0][2]], node=st.node, stmt="start-arg")
                ok = False
    if seen != {(True, 0), (False, 1)}:
        chk.bad("O3.6", st.qual, "adopt step decisions: %s (required: a unit is started exactly once iff it is not running yet)" % sorted(seen), node=st.node, stmt="start-decisions", input=sorted(seen))
        ok = False
    if ok:
        chk.ok(rule, sw.qual, "accept adopts the sweep before running; every cycle runs the adopt step before sleeping; the step examines every unit and starts exactly those not running", node=sw.node)


def channel_writers(chk):
    """O3.5b: the submit channel and the trio token are bound in the constructor (None) and inside the trio run only;
    register_payload asserts both are set, so re-binding them (e.g. to None on close) makes adopt raise during shutdown"""
    prog = chk.program
    rule = "O3.5"
    cls = prog.cls(TRIO_RUNNER)
    attrs = [a for a in (common.runner_facts(prog, cls).get("submit_channel"),) if a]
    try:
        from .. import slots

        attrs.append(slots.trio_token(prog, cls))
    except Undecided:
        pass
    entry = None
    for fis in cls.methods.values():
        for fi in fis:
            if any(isinstance(n, ast.Call) and prog.resolve(cls.module, n.func) == "ext:trio.open_memory_channel" for n in ast.walk(fi.node)):
                entry = fi
    ok = True
    n_w = 0
    for fis in cls.methods.values():
        for fi in fis:
            for n in ast.walk(fi.node):
                tg = n.targets if isinstance(n, ast.Assign) else ([n.target] if isinstance(n, (ast.AnnAssign, ast.AugAssign)) else [])
                flat = []
                for t in tg:
                    flat.extend(t.elts if isinstance(t, (ast.Tuple, ast.List)) else [t])
                for t in flat:
                    if isinstance(t, ast.Attribute) and util.dotted(t.value) == "self" and t.attr in attrs:
                        n_w += 1
                        chk.count()
                        if fi.name == "__init__" or fi is entry:
                            continue
                        chk.bad(
                            rule,
                            fi.qual,
                            "self.%s is re-bound in %s (%s): register_payload asserts it is set, so a registration that arrives afterwards -- e.g. while trio payloads are still in shielded cleanup -- raises AssertionError out of adopt() instead of being discarded"
                            % (t.attr, fi.name, util.unparse(n)[:60]),
                            node=n,
                            stmt="rebinds %s in %s" % (t.attr, fi.name),
                        )
                        ok = False
    # leaving a `with` / `async with` block on the channel closes it (trio.MemorySendChannel.__exit__ / __aexit__ -> close):
    # outside the trio run that ends the hand-over after the first use
    ch = attrs[0] if attrs and attrs[0] == common.runner_facts(prog, cls).get("submit_channel") else None
    if ch:
        for fis in cls.methods.values():
            for fi in fis:
                if fi is entry:
                    continue
                aliases = {"self." + ch}
                for n in ast.walk(fi.node):
                    if isinstance(n, ast.Assign) and len(n.targets) == 1 and isinstance(n.targets[0], ast.Name) and util.dotted(n.value) in aliases:
                        aliases.add(n.targets[0].id)
                for n in ast.walk(fi.node):
                    if isinstance(n, (ast.With, ast.AsyncWith)):
                        for item in n.items:
                            ce = item.context_expr
                            if util.dotted(ce) in aliases:
                                chk.count()
                                chk.bad(
                                    rule,
                                    fi.qual,
                                    "%s uses the submit channel as a context manager (%s): leaving the block closes the channel, so every later registration -- from any thread -- is discarded or fails although the runner is still running"
                                    % (fi.name, util.unparse(ce)),
                                    node=n,
                                    stmt="with-closes %s in %s" % (ch, fi.name),
                                )
                                ok = False
    if ok and n_w:
        chk.ok(rule, cls.qual, "the submit channel and the trio token are bound only in the constructor and inside the trio run (%d writes); the channel is not used as a context manager outside the run" % n_w, node=cls.node)


def fallback_checks_own_run(chk):
    """O3.11: trio.from_thread.run raises its bare RuntimeError in ANY thread that is running a trio task (library fact), not
    only in the runner's own trio thread.  The in-thread fallback (channel.send_nowait, not thread-safe) is only right in the
    runner's OWN run: before it touches the channel the handler must compare trio.lowlevel.current_trio_token() with the
    runner's token -- a payload that hosts its own trio.run (threading flavour) and adopts from inside it otherwise sends
    from a foreign thread: adopt raises AssertionError and the runtime's trio loop is wedged"""
    prog = chk.program
    rule = "O3.11"
    cls = prog.cls(TRIO_RUNNER)
    attr, _closes = submit_channel(prog, cls)
    reg = prog.lookup_method(cls, "register_payload")
    if attr is None or reg is None:
        raise Undecided("submit channel / register_payload not found", cls.node)
    n = 0
    ok = True
    for t in ast.walk(reg.node):
        if not isinstance(t, ast.Try):
            continue
        for h in t.handlers:
            names = [util.unparse(x) for x in (h.type.elts if isinstance(h.type, ast.Tuple) else [h.type])] if h.type is not None else ["BaseException"]
            if not any(x in ("RuntimeError", "Exception", "BaseException") for x in names):
                continue
            sends = [c for b in h.body for c in ast.walk(b) if isinstance(c, ast.Call) and isinstance(c.func, ast.Attribute) and c.func.attr in ("send_nowait", "send") and util.dotted(c.func.value) == "self." + attr]
            if not sends:
                continue
            n += 1
            chk.count()
            tested = any("current_trio_token" in util.unparse(x) and ("_trio_token" in util.unparse(x) or "trio_token" in util.unparse(x)) for b in h.body for x in ast.walk(b) if isinstance(x, (ast.Compare, ast.If, ast.Assert)))
            if not tested:
                chk.bad(
                    rule,
                    reg.qual,
                    "register_payload takes the bare RuntimeError of trio.from_thread.run to mean 'this is the runner's own trio thread' and sends into the submit channel directly, without comparing trio.lowlevel.current_trio_token() with the runner's token: from a thread that runs ANOTHER trio run (a threading payload hosting its own trio.run) "
                    "the channel is used from a foreign thread -- adopt raises AssertionError instead of returning None, the payload is not started and the runtime's trio loop is wedged",
                    node=h,
                    stmt="fallback-without-own-run-test",
                    input="adopt(..., flavour=trio) from inside trio.run() of a threading payload",
                )
                ok = False
    if ok:
        chk.ok(rule, reg.qual, "%d in-thread fallbacks, each compares the current trio token with the runner's before it touches the channel" % n, node=reg.node)


def channel_capacity(chk):
    """O3.8: the hand-over channel never makes a registration block or fail (unbounded buffer)"""
    prog = chk.program
    rule = "O3.8"
    cls = prog.cls(TRIO_RUNNER)
    n = 0
    for fis in cls.methods.values():
        for fi in fis:
            for node in ast.walk(fi.node):
                if isinstance(node, ast.Call) and prog.resolve(cls.module, node.func) == "ext:trio.open_memory_channel":
                    n += 1
                    chk.count()
                    cap = None
                    for kw in node.keywords:
                        if kw.arg == "max_buffer_size":
                            cap = kw.value
                    if cap is None and node.args:
                        cap = node.args[0]
                    if isinstance(cap, ast.Name) and cap.id in fi.params() + [x.arg for x in fi.node.args.kwonlyargs]:
                        # a defaulted parameter nothing in the package supplies
                        dflt = util.unsupplied_default_nodes(prog, fi).get(cap.id)
                        if dflt is not None and not any(isinstance(x, ast.Name) and x.id == cap.id and isinstance(x.ctx, (ast.Store, ast.Del)) for x in ast.walk(fi.node)):
                            cap = dflt
                    if isinstance(cap, (ast.Name, ast.Attribute)):
                        mc = prog.module_constant(prog.resolve(cls.module, cap))
                        if mc is not None:
                            cap = mc[1]  # a named module-level constant
                    txt = util.unparse(cap) if cap is not None else None
                    if txt in ("float('inf')", 'float("inf")', "math.inf", "inf", "infinity"):
                        chk.ok(rule, fi.qual, "the submit channel is unbounded: send_nowait never raises WouldBlock and a cross-thread send never waits for capacity", node=node)
                    elif cap is None or isinstance(cap, ast.Constant):
                        chk.bad(
                            rule,
                            fi.qual,
                            "the submit channel has capacity %s: once it is full, registering a payload from inside the trio thread raises trio.WouldBlock out of adopt(), and a registration from another thread blocks" % (txt or "0 (default)"),
                            node=node,
                            stmt="bounded-channel %s" % txt,
                        )
                    else:
                        chk.undecided(rule, fi.qual, "channel capacity %s is not a recognised constant" % txt, node=node)
    if n != 1:
        chk.undecided(rule, cls.qual, "%d memory channels opened" % n, node=cls.node)


def run(chk):
    from .. import libfacts

    chk.facts.update({k: v for k, v in libfacts.cross_read().items() if "trio" in k})
    chk.guard("O3.8", TRIO_RUNNER, channel_capacity, chk)
    chk.guard("O3.5", TRIO_RUNNER, channel_writers, chk)
    chk.guard("O3.5", TRIO_RUNNER, send_after_close, chk)
    chk.guard("O3.11", TRIO_RUNNER, fallback_checks_own_run, chk)
    chk.guard("O3.1", META, meta_register, chk)
    chk.guard("O3.1", "<runners>", runner_forwards, chk)
    chk.guard("O3.3", SERVICE_RUNNER + ".adopt", adopt_rules, chk)
    chk.guard("O3.4", "<registration chain>", no_eager_formatting, chk)
    chk.guard("O3.9", SERVICE_UNIT, weak_registry, chk)
    chk.guard("O3.10", META, mode_switch_atomic, chk)
    chk.guard("O3.6", SERVICE_UNIT, service_typestate, chk)
    chk.guard("O3.7", SERVICE_RUNNER, sweep_rules, chk)
    from . import c12

    chk.guard("O3.7", SERVICE_RUNNER, c12.flag_writers, chk, "O3.7")
    # "adopt still does not raise while the runtime is finishing its payloads' cleanup": the runner mapping is only
    # emptied after close-all has closed and joined the runners (O2.2, shared with C02)
    from . import c02

    chk.guard("O2.1", META, c02.supervisor, chk)
