"""C03 -- every adopted payload and every service is started exactly once."""
import ast

from .. import util
from ..interp import Interp, Path, exc_value, is_exc, show, strip_sites, subterms, NONE, abs_value
from ..report import Undecided, AnchorMissing

SELF = ("sym", "self")
TRIO_RUNNER = "cobald.daemon.runners.trio_runner:TrioRunner"
META = "cobald.daemon.runners.meta_runner:MetaRunner"
SERVICE_RUNNER = "cobald.daemon.runners.service:ServiceRunner"
SERVICE_UNIT = "cobald.daemon.runners.service:ServiceUnit"
FROM_THREAD_RUN = ("glob", "ext:trio.from_thread.run")

SHUTDOWN_EXCS = {
    "trio.RunFinishedError": exc_value("ext:trio.RunFinishedError", "injected"),
    "trio.Cancelled": exc_value("ext:trio.Cancelled", "injected"),
    "trio.ClosedResourceError": exc_value("ext:trio.ClosedResourceError", "injected"),
}
BARE_RUNTIME = exc_value("ext:builtins.RuntimeError", "in-trio-thread")


def submit_channel(prog, cls):
    """the attribute holding the send side of open_memory_channel, and whether the class closes it"""
    attr = None
    for fis in cls.methods.values():
        for fi in fis:
            for n in ast.walk(fi.node):
                if isinstance(n, ast.Assign) and isinstance(n.value, ast.Call) and prog.resolve(cls.module, n.value.func) == "ext:trio.open_memory_channel":
                    t = n.targets[0]
                    if isinstance(t, ast.Tuple) and isinstance(t.elts[0], ast.Attribute) and util.dotted(t.elts[0].value) == "self":
                        attr = t.elts[0].attr
    closes = []
    if attr:
        for fis in cls.methods.values():
            for fi in fis:
                for n in ast.walk(fi.node):
                    if isinstance(n, ast.Call) and isinstance(n.func, ast.Attribute) and n.func.attr in ("aclose", "close") and util.dotted(n.func.value) == "self." + attr:
                        closes.append((fi, n))
    return attr, closes


def send_after_close(chk):
    prog = chk.program
    rule = "O3.5"
    cls = prog.cls(TRIO_RUNNER)
    attr, closes = submit_channel(prog, cls)
    if attr is None:
        chk.undecided(rule, cls.qual, "no submit channel (open_memory_channel pair) found", node=cls.node)
        return
    reg = prog.lookup_method(cls, "register_payload")
    name = reg.qual
    CH = ("attr", SELF, attr)

    def is_send_site(ct):
        if ct[0] != "call":
            return None
        f = ct[1]
        if f == FROM_THREAD_RUN and ct[2] and ct[2][0] == ("attr", CH, "send"):
            return "from_thread.run(send)"
        if f == ("attr", CH, "send_nowait"):
            return "send_nowait"
        if f == ("attr", CH, "send"):
            return "send"
        return None

    # enumerate the send sites first
    it = Interp(prog, reg)
    sites = set()
    for o in it.run():
        for e in o.path.events:
            if e[0] == "call" and is_send_site(e[1]):
                sites.add(is_send_site(e[1]))
    # a fallback site is only reached when the first one raises the bare RuntimeError
    def run(throw_first, throw_second):
        def hook(it, path, ct, node):
            k = is_send_site(ct)
            if k == "from_thread.run(send)":
                return [("raise", throw_first)] if throw_first is not None else None
            if k in ("send_nowait", "send"):
                return [("raise", throw_second)] if throw_second is not None else None
            return None

        it = Interp(prog, reg, call_hook=hook)
        return it.run()

    ok = True
    n = 0
    excs = dict(SHUTDOWN_EXCS)
    if not closes:
        excs.pop("trio.ClosedResourceError")
        chk.notes.append("the trio runner never closes its submit channel itself: ClosedResourceError not required to be tolerated")
    scenarios = []
    for label, e in excs.items():
        scenarios.append(("%s raised by the cross-thread send" % label, e, None))
        scenarios.append(("%s raised by the in-thread send_nowait fallback" % label, BARE_RUNTIME, e))
    for label, first, second in scenarios:
        if second is not None and second[1] != "ext:trio.ClosedResourceError":
            continue  # send_nowait only raises WouldBlock / ClosedResourceError / BrokenResourceError
        outs = run(first, second)
        n += len(outs)
        chk.count(len(outs))
        for o in outs:
            reached_second = any(e[0] == "call" and is_send_site(e[1]) in ("send_nowait", "send") for e in o.path.events)
            if second is not None and not reached_second:
                continue
            if o.kind == "raise":
                site = "send_nowait" if second is not None else "trio.from_thread.run(send)"
                chk.bad(
                    rule,
                    name,
                    "%s escapes register_payload -- and with it adopt() -- while the trio runner is shutting down (the runner closes the channel itself in %s; "
                    "trio payloads may still be in shielded cleanup then): adopt must discard, not raise" % (label, ", ".join(sorted({f.name for f, _n in closes})) or "?"),
                    node=reg.node,
                    stmt="%s escapes %s" % (show(o.value).split("@")[0], site),
                    input=label,
                )
                ok = False
    if ok:
        chk.ok(rule, name, "every send into the submit channel tolerates the shutdown exceptions %s by discarding" % sorted(excs), node=reg.node, input="%d paths" % n)
    return attr


def run(chk):
    chk.guard("O3.5", TRIO_RUNNER, send_after_close, chk)
