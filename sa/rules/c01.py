"""C01 -- background failures always stop the daemon (error discipline of the whole failure chain)."""
import ast

from .. import libfacts, util
from ..callgraph import CallGraph, LOOP, TRIO, NEWTHREAD, EXECUTOR, ANY
from ..interp import Interp, Path, abs_value, exc_value, is_exc, show, strip_sites, subterms, NONE, REPRESENTATIVES
from .. import slots
from ..report import Undecided
from . import common

SELF = ("sym", "self")
META = "cobald.daemon.runners.meta_runner:MetaRunner"
SERVICE_RUNNER = "cobald.daemon.runners.service:ServiceRunner"
SERVICE_UNIT = "cobald.daemon.runners.service:ServiceUnit"
ORPHANED = "cobald.daemon.runners.base_runner:OrphanedReturn"
GATHER = ("glob", "ext:asyncio.gather")
INVALID_STATE = exc_value("ext:asyncio.InvalidStateError", "future already done")

OUTCOMES = {
    "return None": ("value", abs_value("none", "result")),
    "return a falsy non-None value": ("value", abs_value("falsy", "result")),
    "return a truthy value": ("value", abs_value("truthy", "result")),
    "raise an Exception subclass": ("raise", exc_value("rep:AnyException", "payload")),
    "raise a BaseException (not Exception)": ("raise", exc_value("rep:OtherBase", "payload")),
    "raise KeyboardInterrupt": ("raise", exc_value("ext:builtins.KeyboardInterrupt", "payload")),
    "raise asyncio.CancelledError": ("raise", exc_value("ext:asyncio.CancelledError", "payload")),
    "raise trio.Cancelled": ("raise", exc_value("ext:trio.Cancelled", "payload")),
}
# which exceptions escaping a monitor still reach the runner, per way the monitor was spawned (frozen library facts)
PROPAGATES = {
    "nursery": lambda q: True,  # a trio nursery re-raises every child failure
    "task": lambda q: q in ("ext:builtins.KeyboardInterrupt", "ext:builtins.SystemExit", "ext:asyncio.CancelledError"),
    "thread": lambda q: False,  # an exception escaping a thread target is printed and lost
}


# ------------------------------------------------------------------ O1.1 callable flow
def payload_flow(chk, cls):
    """follow the payload from register_payload to the method(s) that invoke it"""
    prog = chk.program
    g = CallGraph(prog)
    reg = prog.lookup_method(cls, "register_payload")
    monitors = {}  # method name -> spawn kind
    bad = []
    seen = set()
    todo = [(reg, reg.params()[0], "caller")]
    facts = common.runner_facts(prog, cls)
    ch = facts.get("submit_channel")
    while todo:
        fi, pname, kind = todo.pop()
        if (fi.qual, pname) in seen:
            continue
        seen.add((fi.qual, pname))
        uses = 0
        handed_ids = set()
        for c in util.walk_no_nested(fi.node):
            if isinstance(c, ast.Call) and g._primitive(fi, c)[0] is not None:
                for a in g._primitive(fi, c)[2]:
                    if isinstance(a, ast.Call):
                        handed_ids.add(id(a))
        for c in util.walk_no_nested(fi.node):
            if not isinstance(c, ast.Call) or id(c) in handed_ids:
                continue
            # direct invocation
            if isinstance(c.func, ast.Name) and c.func.id == pname:
                monitors[fi.name] = kind
                uses += 1
                continue
            argnodes = list(c.args) + [k.value for k in c.keywords]
            flat = []
            for a in argnodes:
                if isinstance(a, (ast.Tuple, ast.List)):
                    flat.extend(a.elts)
                elif isinstance(a, ast.Dict):
                    flat.extend(a.values)
                elif isinstance(a, ast.Call):
                    flat.append(a)
                    for x in list(a.args) + [k.value for k in a.keywords]:
                        flat.append(x)
                        if isinstance(x, (ast.Tuple, ast.List)):
                            flat.extend(x.elts)  # args=tuple((payload,))
                else:
                    flat.append(a)
            if not any(isinstance(a, ast.Name) and a.id == pname for a in flat):
                continue
            prim, ctx, carried = g._primitive(fi, c)
            d = util.dotted(c.func) or ""
            if prim is not None:
                uses += 1
                # the payload itself as the spawned callable: unmonitored
                spawned_is_payload = False
                for a in carried:
                    inner = a
                    if isinstance(inner, ast.Call):
                        inner = inner.func
                    if isinstance(inner, ast.Name) and inner.id == pname:
                        spawned_is_payload = True
                if spawned_is_payload:
                    bad.append((fi, c, "the payload itself is handed to %s as the spawned callable: it runs unmonitored, its exception or return value is lost" % (prim if ":" not in prim else prim.split(":")[-1])))
                    continue
                # carried callable = own method; which of its parameters receives the payload
                sk = {"create_task": "task", "ext:threading.Thread": "thread", "start_soon": "nursery", "start": "nursery"}.get(prim, kind)
                for a in carried:
                    callee = a.func if isinstance(a, ast.Call) else a
                    partial_args, partial_kw = None, {}
                    if isinstance(a, ast.Call) and prog.resolve(fi.module, a.func) == "ext:functools.partial" and a.args:
                        # partial(self.m, payload): the callable is m, the bound arguments are handed over
                        callee, partial_args = a.args[0], list(a.args[1:])
                        partial_kw = {k.arg: k.value for k in a.keywords if k.arg}
                    dd = util.dotted(callee) or ""
                    # channel send: the payload re-appears as the loop variable of the receiving side
                    if ch and dd == "self.%s.send" % ch:
                        recv = receiving_side(prog, cls, ch)
                        if recv is None:
                            bad.append((fi, c, "the payload is sent into a channel nobody receives from"))
                        else:
                            todo.append((recv[0], recv[1], kind))
                        continue
                    m = None
                    if dd.startswith("self."):
                        m = prog.lookup_method(cls, dd.split(".")[1])
                    elif isinstance(callee, ast.Name):
                        r_ = prog.resolve(fi.module, callee)
                        m = prog.functions.get(r_) if r_ else None
                        if m is not None and m.cls is not None:
                            m = None
                    if m is not None:
                        if True:
                            # position (or keyword) of the payload among the arguments handed over
                            handed_kw = dict(partial_kw)
                            if partial_args is not None:
                                handed = partial_args + [x for x in c.args if x is not a]
                            elif isinstance(a, ast.Call):
                                handed = list(a.args)
                                handed_kw.update({k.arg: k.value for k in a.keywords if k.arg})
                            elif prim == "ext:threading.Thread":
                                handed = []
                                for k in c.keywords:
                                    kv = k.value
                                    if k.arg == "args" and isinstance(kv, ast.Call) and util.dotted(kv.func) in ("tuple", "list") and len(kv.args) == 1 and not kv.keywords:
                                        kv = kv.args[0]  # args=tuple((payload,))
                                    if k.arg == "args" and isinstance(kv, (ast.Tuple, ast.List)):
                                        handed = list(kv.elts)
                                    if k.arg == "kwargs" and isinstance(k.value, ast.Dict):
                                        handed_kw.update({kk.value: vv for kk, vv in zip(k.value.keys, k.value.values) if isinstance(kk, ast.Constant)})
                                    if k.arg == "kwargs" and isinstance(k.value, ast.Call) and util.dotted(k.value.func) == "dict":
                                        handed_kw.update({kw2.arg: kw2.value for kw2 in k.value.keywords if kw2.arg})
                            else:
                                handed = [x for x in c.args if x is not a]
                                if prim == "run_in_executor":
                                    handed = handed[1:]
                            sk2 = sk if prim in ("create_task", "ext:threading.Thread", "start_soon", "start") else kind
                            for i, h in enumerate(handed):
                                if isinstance(h, ast.Name) and h.id == pname and i < len(m.params()):
                                    todo.append((m, m.params()[i], sk2))
                                elif isinstance(h, ast.Name) and h.id == pname and m.node.args.vararg is not None:
                                    # collected by *payloads: it re-appears as the variable of the loops over that name
                                    for lp in ast.walk(m.node):
                                        if isinstance(lp, (ast.For, ast.AsyncFor)) and isinstance(lp.iter, ast.Name) and lp.iter.id == m.node.args.vararg.arg and isinstance(lp.target, ast.Name):
                                            todo.append((m, lp.target.id, sk2))
                                # handed over inside a display, e.g. (payload,): it re-appears as the variable of the
                                # loops over that parameter
                                if isinstance(h, (ast.Tuple, ast.List, ast.Set)) and any(isinstance(x, ast.Name) and x.id == pname for x in h.elts) and i < len(m.params()):
                                    coll = m.params()[i]
                                    for lp in ast.walk(m.node):
                                        if isinstance(lp, (ast.For, ast.AsyncFor)) and isinstance(lp.iter, ast.Name) and lp.iter.id == coll and isinstance(lp.target, ast.Name):
                                            todo.append((m, lp.target.id, sk2))
                            for kname, h in handed_kw.items():
                                if isinstance(h, ast.Name) and h.id == pname and kname in m.params():
                                    todo.append((m, kname, sk2))
                continue
            if ch and d == "self.%s.send_nowait" % ch or (ch and d == "self.%s.send" % ch):
                uses += 1
                recv = receiving_side(prog, cls, ch)
                if recv is not None:
                    todo.append((recv[0], recv[1], kind))
                continue
            if d.startswith("self.") and d.count(".") == 1:
                m = prog.lookup_method(cls, d.split(".")[1])
                if m is not None:
                    uses += 1
                    for i, h in enumerate(c.args):
                        if isinstance(h, ast.Name) and h.id == pname and i < len(m.params()):
                            todo.append((m, m.params()[i], kind))
                    continue
    return monitors, bad


def receiving_side(prog, cls, ch):
    """(function, variable) that carries a received payload: the target of `async for x in <receive side>` or of
    `x = await <receive side>.receive()`, in the function that opens the channel or in a helper (own method or
    module-level function, any depth) the receive side is handed to"""
    start = None
    for fis in cls.methods.values():
        for fi in fis:
            for n in ast.walk(fi.node):
                if isinstance(n, ast.Assign) and isinstance(n.value, ast.Call) and prog.resolve(cls.module, n.value.func) == "ext:trio.open_memory_channel":
                    t = n.targets[0]
                    if isinstance(t, ast.Tuple) and len(t.elts) == 2 and isinstance(t.elts[1], ast.Name):
                        start = (fi, t.elts[1].id)
    if start is None:
        return None
    seen, todo = set(), [start]
    while todo:
        fi, name = todo.pop()
        if (fi.qual, name) in seen:
            continue
        seen.add((fi.qual, name))
        for n in ast.walk(fi.node):
            if isinstance(n, (ast.AsyncFor, ast.For)) and isinstance(n.iter, ast.Name) and n.iter.id == name and isinstance(n.target, ast.Name):
                return fi, n.target.id
            if isinstance(n, ast.Assign) and len(n.targets) == 1 and isinstance(n.targets[0], ast.Name):
                v = n.value.value if isinstance(n.value, ast.Await) else n.value
                if isinstance(v, ast.Call) and isinstance(v.func, ast.Attribute) and v.func.attr in ("receive", "receive_nowait") and isinstance(v.func.value, ast.Name) and v.func.value.id == name:
                    return fi, n.targets[0].id
        for c in ast.walk(fi.node):
            if not isinstance(c, ast.Call):
                continue
            idx = [i for i, a in enumerate(c.args) if isinstance(a, ast.Name) and a.id == name]
            if not idx:
                continue
            h = None
            if isinstance(c.func, ast.Attribute) and util.dotted(c.func.value) == "self":
                h = prog.lookup_method(cls, c.func.attr)
            elif isinstance(c.func, ast.Name):
                r = prog.resolve(fi.module, c.func)
                h = prog.functions.get(r) if r else None
            if h is not None and idx[0] < len(h.params()):
                todo.append((h, h.params()[idx[0]]))
    return None


class FlowFunc:
    """a pseudo FuncInfo whose `params()` yields the loop variable carrying the payload"""


def monitors_and_outcomes(chk):
    prog = chk.program
    runners = util.concrete_runners(prog)
    chk.floor("O1.runners", len(runners), 3)
    found = {}
    for cls in runners:
        name = cls.qual
        monitors, bad = payload_flow(chk, cls)
        chk.count(1 + len(bad))
        for fi, node, why in bad:
            chk.bad("O1.1", fi.qual, why, node=node, stmt="unmonitored %s" % util.unparse(node.func))
        # a loop variable flow (trio) records the function that *starts* the monitor; the monitor itself is found through it
        real = {}
        for m, kind in monitors.items():
            real[m] = kind
        if not real:
            chk.bad("O1.1", name, "no method of %s ever invokes a registered payload" % cls.name, node=cls.node, stmt="payload-never-invoked")
            continue
        if not bad:
            chk.ok("O1.1", name, "registered payloads are invoked only in %s" % sorted("%s (spawned as %s)" % (m, k) for m, k in real.items()), node=cls.node)
        found[cls.qual] = (cls, real)
        for mname, kind in real.items():
            outcome_table(chk, cls, common.monitor_fi(prog, cls, mname), kind)
    return found


def outcome_table(chk, cls, fi, kind):
    """O1.2: 8 outcome classes of the payload through one monitor"""
    prog = chk.program
    rule = "O1.2"
    name = fi.qual
    facts = common.runner_facts(prog, cls)
    ff = facts.get("failure_future")
    F = ("attr", SELF, ff) if ff else None
    pparam = None
    for n in ast.walk(fi.node):
        if isinstance(n, ast.Call) and isinstance(n.func, ast.Name) and n.func.id in fi.params():
            pparam = n.func.id
    if pparam is None:
        chk.undecided(rule, name, "monitor does not invoke a parameter", node=fi.node)
        return
    PAY = ("sym", pparam)
    if kind not in PROPAGATES:
        chk.undecided(rule, name, "the monitor is started in an unknown way (%s)" % kind, node=fi.node)
        return
    ok = True
    table = []
    for label, inj in OUTCOMES.items():
        for done in (False, True):

            def hook(it, path, ct, node, inj=inj, done=done):
                if ct[0] != "call":
                    return None
                if ct[1] == PAY:
                    return [inj]
                f = ct[1]
                if done and F is not None and f in (("attr", F, "set_exception"), ("attr", F, "set_result")):
                    return [("raise", INVALID_STATE)]  # library fact: completing a done future raises
                # call_soon_threadsafe(self.h, x): deferred call of h(x) on the loop
                if f[0] == "attr" and f[2] in ("call_soon_threadsafe", "call_soon") and ct[2] and ((ct[2][0][0] == "attr" and ct[2][0][1] == SELF) or (ct[2][0][0] == "glob" and ct[2][0][1] in prog.functions)):
                    m = prog.lookup_method(cls, ct[2][0][2]) if ct[2][0][0] == "attr" else prog.functions[ct[2][0][1]]
                    if m is not None:
                        path.ev("deferred", m.qual, f[2])
                        res = it.inline(m, ct[2][0], tuple(ct[2][1:]), (), path, node)
                        if res is not None and all(k == "value" for k, _p, _v in res) and len(res) == 1:
                            return [("value", NONE)]
                return None

            def decide(it, path, term, done=done):
                if F is not None and term[0] == "call" and term[1] == ("attr", F, "done"):
                    return done
                return None

            outs = Interp(prog, fi, call_hook=hook, decide=decide, inline=lambda f, ct: f.cls is cls or (f.cls is None and not f.is_async and f.module.name.startswith(cls.module.name.rpartition(".")[0]))).run()
            chk.count(len(outs))
            for o in outs:
                evs = o.path.events
                forks = [e for e in evs if e[0] in ("branch", "fork") and e[-1] == "forked"]
                sigs = [e[1] for e in evs if e[0] == "call" and F is not None and e[1][1] == ("attr", F, "set_exception")]
                results = [e[1] for e in evs if e[0] == "call" and F is not None and e[1][1] == ("attr", F, "set_result")]
                inp = "%s%s" % (label, "; another failure was already recorded" if done else "")
                if forks:
                    chk.bad(rule, name, "the fate of the payload's outcome depends on a condition other than `the failure future is already done`: %s" % show(forks[0][1]), node=fi.node, stmt="extra-condition %s" % show(strip_sites(forks[0][1]))[:80], input=inp)
                    ok = False
                    continue
                k, v = inj
                if label == "return None":
                    if sigs or o.kind == "raise":
                        chk.bad(rule, name, "a payload that returns None is reported as a failure", node=fi.node, stmt="none-is-failure", input=inp)
                        ok = False
                    table.append((label, "completes"))
                    continue
                # what would be the right carried value
                if k == "value":
                    def is_orphan(x):
                        return is_exc(x) and x[1] == ORPHANED and len(x[3]) >= 2 and x[3][1] == v
                    carried_ok = is_orphan
                    what = "an OrphanedReturn carrying the returned value"
                else:
                    carried_ok = lambda x, v=v: x == v  # noqa: E731
                    what = "that very exception"
                if o.kind == "raise" and o.value == INVALID_STATE:
                    chk.bad(rule, name, "set_exception is called on a failure future that is already done and the InvalidStateError is not handled: the second of two nearly simultaneous failures crashes the monitor / the loop callback", node=fi.node, stmt="signal-when-done", input=inp)
                    ok = False
                    continue
                if o.kind == "raise":
                    if carried_ok(o.value) and PROPAGATES[kind](o.value[1]):
                        table.append((label, "propagates"))
                        continue
                    if carried_ok(o.value):
                        chk.bad(
                            rule,
                            name,
                            "when the payload would %s, the failure leaves the monitor as an exception, but a %s does not pass it on to the runner: the failure is %s and the daemon keeps running"
                            % (label, {"task": "bare asyncio task", "thread": "thread target"}.get(kind, kind), "parked on a task nobody awaits" if kind == "task" else "printed and lost"),
                            node=fi.node,
                            stmt="lost %s via %s" % (label, kind),
                            input=inp,
                        )
                    else:
                        chk.bad(rule, name, "when the payload would %s, the monitor raises %s instead of %s" % (label, show(o.value), what), node=fi.node, stmt="wrong-exception %s" % label, input=inp)
                    ok = False
                    continue
                # normal completion: must have signalled (unless a failure was already recorded: first failure wins)
                if done:
                    table.append((label, "first failure wins"))
                    continue
                if not sigs:
                    if k == "raise" and v[1] in ("ext:asyncio.CancelledError", "ext:trio.Cancelled") and False:
                        pass
                    chk.bad(
                        rule,
                        name,
                        "when the payload would %s, the monitor completes normally without signalling a failure%s: the daemon keeps running" % (label, " (the result is tested for truthiness, not for `is None`)" if "falsy" in label else ""),
                        node=fi.node,
                        stmt="silent %s" % label,
                        input=inp,
                    )
                    ok = False
                    continue
                if len(sigs) != 1 or not carried_ok(sigs[0][2][0] if sigs[0][2] else NONE):
                    chk.bad(rule, name, "when the payload would %s, the failure future receives %s instead of %s" % (label, show(sigs[0][2][0]) if sigs[0][2] else "nothing", what), node=fi.node, stmt="wrong-signal %s" % label, input=inp)
                    ok = False
                    continue
                table.append((label, "signals"))
    if ok:
        chk.ok(rule, name, "all 8 payload outcome classes end as required for a monitor spawned as %s" % kind, node=fi.node, input=sorted(set(table)))


# ------------------------------------------------------------------ O1.3 / O1.4
def propagation_to_run(chk, found):
    prog = chk.program
    for q, (cls, monitors) in found.items():
        rule = "O1.3"
        mp = prog.lookup_method(cls, "manage_payloads")
        facts = common.runner_facts(prog, cls)
        ff = facts.get("failure_future")
        name = mp.qual
        ok = True
        n = 0
        for label in ("AnyException", "OtherBase"):
            e = REPRESENTATIVES[label]

            def hook(it, path, ct, node, e=e):
                if ct[0] == "await" and ff and ct[1] == ("attr", SELF, ff):
                    return [("raise", e)]
                if ct[0] == "call" and not ff and ct[1][0] == "attr" and ct[1][2] == "run_in_executor":
                    return [("raise", e)]
                return None

            outs = Interp(prog, mp, call_hook=hook).run()
            chk.count(len(outs))
            for o in outs:
                if not any(ev[0] in ("raised-at-call",) or (ev[0] == "await") for ev in o.path.events):
                    continue
                n += 1
                if o.kind != "raise" or o.value != e:
                    chk.bad(rule, name, "a failure (%s) delivered to manage_payloads does not leave it unchanged (path ends: %s): runner.run() does not fail" % (label, show(o.value) if o.kind == "raise" else o.kind), node=mp.node, stmt="manage-swallows %s" % label, input=label)
                    ok = False
        if not ff:
            # nursery-monitored runner: the failure surfaces at the nursery block of the function run by trio.run,
            # then at trio.run itself; neither function may swallow it
            hops = []
            ts = common.trio_structure(prog, cls)
            for fis in cls.methods.values():
                for f in fis:
                    for node in ast.walk(f.node):
                        if isinstance(node, ast.Call) and prog.resolve(f.module, node.func) == "ext:trio.run":
                            hops.append((f, lambda ct: ct[0] == "call" and ct[1] == ("glob", "ext:trio.run"), "trio.run"))
                        if isinstance(node, ast.Call) and isinstance(node.func, ast.Attribute) and node.func.attr == "start_soon":
                            hops.append((f, lambda ct: ct[0] == "call" and ct[1][0] == "attr" and ct[1][2] == "start_soon", "the nursery block"))
                        # an owned coroutine awaited by another one: the failure passes through the awaiting function
                        if ts is not None and f.name in ts["owned"] and isinstance(node, ast.Call) and isinstance(node.func, ast.Attribute) and util.dotted(node.func.value) == "self" and node.func.attr in ts["owned"] and node.func.attr != f.name:
                            hops.append((f, lambda ct, nm=node.func.attr: ct[0] == "call" and ct[1] == ("attr", SELF, nm), "its await of %s" % node.func.attr))
            # handed form: run_in_executor(None, trio.run, entry) -- the failure surfaces at that await (checked above)
            if len(hops) < (2 if ts is None or ts["form"] == "call" else 1):
                chk.undecided(rule, cls.qual, "propagation path of the trio runner (nursery -> trio.run) not found", node=cls.node)
                ok = False
            for f, site, what in hops:
                for label in ("AnyException", "OtherBase"):
                    e = REPRESENTATIVES[label]

                    def hook2(it, path, ct, node, e=e, site=site):
                        return [("raise", e)] if site(ct) else None

                    for o in Interp(prog, f, call_hook=hook2, unroll=1).run():
                        chk.count()
                        if not any(ev[0] == "raised-at-call" for ev in o.path.events):
                            continue
                        if o.kind != "raise" or o.value != e:
                            chk.bad(
                                rule,
                                f.qual,
                                "a payload failure (%s) surfacing at %s does not leave %s unchanged (path ends: %s): the failure never reaches runner.run() and the daemon keeps running"
                                % (label, what, f.name, show(o.value) if o.kind == "raise" else o.kind),
                                node=f.node,
                                stmt="%s swallows at %s" % (f.name, what),
                                input=label,
                            )
                            ok = False
        if n == 0:
            chk.bad(rule, name, "manage_payloads awaits neither the failure future nor the executor future of the trio run: a recorded failure is never seen", node=mp.node, stmt="no-await")
            ok = False
        if ok:
            chk.ok(rule, name, "awaits %s; a failure thrown there leaves manage_payloads unchanged" % ("self.%s" % ff if ff else "the executor future of trio.run"), node=mp.node)
    # O1.4
    rule = "O1.4"
    run = prog.method(util.BASE_RUNNER, "run")
    ok = True
    for label in ("AnyException", "OtherBase", "KeyboardInterrupt", "asyncio.CancelledError"):
        e = REPRESENTATIVES[label]

        def hook(it, path, ct, node, e=e):
            if ct[0] == "call" and ct[1] == ("attr", SELF, "manage_payloads"):
                return [("raise", e)]
            return None

        for o in Interp(prog, run, call_hook=hook).run():
            chk.count()
            if o.kind != "raise" or o.value != e:
                chk.bad(rule, run.qual, "%s raised by manage_payloads does not leave runner.run() unchanged (%s)" % (label, show(o.value) if o.kind == "raise" else o.kind), node=run.node, stmt="run-swallows %s" % label, input=label)
                ok = False
    if ok:
        chk.ok(rule, run.qual, "every handler of runner.run() re-raises: a failure leaves run() unchanged", node=run.node, input="4 exception classes")


# ------------------------------------------------------------------ O1.5 / O1.6 / O1.7 / O1.8
def meta_chain(chk):
    prog = chk.program
    cls = prog.cls(META)
    rule = "O1.5"
    runners = {c.qual for c in util.concrete_runners(prog)}
    rt = cls.class_attrs.get("runner_types")
    listed = [prog.resolve(cls.module, e) for e in rt.elts] if isinstance(rt, (ast.Tuple, ast.List)) else None
    chk.count()
    if listed is None:
        chk.undecided(rule, cls.qual, "runner_types is not a literal tuple", node=cls.node)
    else:
        miss = runners - set(listed)
        extra = set(listed) - runners
        flav = [prog.resolve(prog.classes[q].module, prog.classes[q].class_attrs.get("flavour")) for q in listed if q in prog.classes]
        if miss or extra or len(set(flav)) != len(flav):
            chk.bad(rule, cls.qual, "runner_types %s: %s" % ([q.split(":")[-1] for q in listed], "; ".join(filter(None, ["missing %s (its payloads are never run)" % sorted(miss) if miss else "", "not concrete runners: %s" % sorted(extra) if extra else "", "duplicate flavours" if len(set(flav)) != len(flav) else ""]))), node=rt, stmt="runner_types")
        else:
            chk.ok(rule, cls.qual, "runner_types = all %d concrete runners with pairwise distinct flavours" % len(listed), node=rt)
    launch = slots.launcher(prog)
    outs = Interp(prog, launch, unroll=2).run()
    ok = True
    for o in outs:
        if o.kind != "return":
            continue
        evs = o.path.events
        iters = [e for e in evs if e[0] == "loop-iter" and e[1] == [n for n in ast.walk(launch.node) if isinstance(n, ast.For)][0].lineno]
        tasks = [e[1] for e in evs if e[0] == "call" and e[1][1][0] == "attr" and e[1][1][2] == "create_task"]
        chk.count()
        if len(tasks) != len(iters):
            chk.bad(rule, launch.qual, "%d runner types but %d runner tasks are created" % (len(iters), len(tasks)), node=launch.node, stmt="task-per-runner")
            ok = False
            continue
        for t in tasks:
            a = t[2][0] if t[2] else None
            if not (a and a[0] == "call" and a[1][0] == "attr" and a[1][2] == "run"):
                chk.bad(rule, launch.qual, "a runner task runs %s instead of runner.run()" % (show(a) if a else "nothing"), node=launch.node, stmt="task-target")
                ok = False
        appended = [e[1] for e in evs if e[0] == "call" and e[1][1][0] == "attr" and e[1][1][2] == "append"]
        if [a[2][0] for a in appended if a[2]] != tasks:
            chk.bad(rule, launch.qual, "not every runner task is collected in the returned list (a failure of the missing runner is never seen)", node=launch.node, stmt="tasks-collected")
            ok = False
        elif appended and o.value != appended[0][1][1]:
            chk.bad(rule, launch.qual, "_launch_runners returns %s instead of the collected tasks" % show(o.value), node=launch.node, stmt="tasks-returned")
            ok = False
    if ok:
        chk.ok(rule, launch.qual, "one task running runner.run() per runner type; all of them returned", node=launch.node)
    # _manage_runners: exception-propagating join over all tasks + the unqueueing coroutine
    mr = slots.supervisor(prog)
    outs = Interp(prog, mr).run()
    ok = True
    joined = False
    for o in outs:
        joins = [e for e in o.path.events if e[0] == "call" and e[1][1] in (GATHER, ("glob", "ext:asyncio.wait"), ("glob", "ext:asyncio.wait_for"))]
        for e in joins:
            ct = e[1]
            chk.count()
            if ct[1] != GATHER:
                chk.undecided(rule, mr.qual, "join idiom %s not recognised" % show(ct[1]), node=mr.node)
                ok = False
                continue
            joined = True
            kw = dict((k, v) for k, v in ct[3] if k)
            rex = kw.get("return_exceptions")
            if rex is not None and rex != ("const", False):
                chk.bad(rule, mr.qual, "the join over the runner tasks uses return_exceptions=%s: a failing runner no longer makes the join raise, the daemon keeps running" % show(rex), node=mr.node, stmt="return_exceptions")
                ok = False
            if not e[3]:
                chk.bad(rule, mr.qual, "the join over the runner tasks is not awaited", node=mr.node, stmt="join-not-awaited")
                ok = False
            launched = [ev[1] for ev in o.path.events if ev[0] == "call" and ev[1][1] == ("attr", SELF, slots.launcher(prog).name)]
            if not launched or ("star", launched[0]) not in ct[2]:
                chk.bad(rule, mr.qual, "the join does not wait for ALL runner tasks returned by _launch_runners (%s)" % [show(a) for a in ct[2]], node=mr.node, stmt="join-subset")
                ok = False
            if not any(a[0] == "call" and a[1] == ("attr", SELF, slots.unqueuer(prog).name) for a in ct[2]):
                chk.bad(rule, mr.qual, "queued payloads are not registered while the runners are being watched (the unqueueing coroutine is not part of the join)", node=mr.node, stmt="unqueue-not-joined")
                ok = False
    if not joined:
        chk.bad(rule, mr.qual, "the supervising coroutine does not join the runner tasks", node=mr.node, stmt="no-join")
        ok = False
    for label in ("AnyException", "OtherBase", "KeyboardInterrupt", "asyncio.CancelledError"):
        e = REPRESENTATIVES[label]

        def hook(it, path, ct, node, e=e):
            if ct[0] == "call" and ct[1] == GATHER:
                return [("raise", e)]
            return None

        for o in Interp(prog, mr, call_hook=hook).run():
            chk.count()
            if not any(ev[0] == "raised-at-call" for ev in o.path.events):
                continue
            if label == "KeyboardInterrupt":
                if o.kind == "raise" and o.value != e:
                    chk.bad(rule, mr.qual, "KeyboardInterrupt is replaced by %s" % show(o.value), node=mr.node, stmt="kbi-replaced")
                    ok = False
                continue
            if o.kind != "raise" or o.value != e:
                chk.bad("O1.5", mr.qual, "a runner failure (%s) at the join does not leave the supervising coroutine unchanged (path ends: %s): only KeyboardInterrupt may end the run without an error" % (label, show(o.value) if o.kind == "raise" else o.kind), node=mr.node, stmt="supervisor-swallows %s" % label, input=label)
                ok = False
    if ok:
        chk.ok(rule, mr.qual, "awaits gather(*all runner tasks, unqueue) without return_exceptions; every handler except the KeyboardInterrupt one re-raises", node=mr.node)
    # O1.6 MetaRunner.run
    rule = "O1.6"
    run = prog.method(META, "run")
    ok = True
    for label in ("AnyException", "OtherBase", "KeyboardInterrupt"):
        e = REPRESENTATIVES[label]

        def hook(it, path, ct, node, e=e):
            if ct[0] == "call" and ct[1] == ("glob", "ext:asyncio.run"):
                return [("raise", e)]
            return None

        for o in Interp(prog, run, call_hook=hook).run():
            chk.count()
            if label == "KeyboardInterrupt":
                if o.kind == "raise" and o.value != e:
                    chk.bad(rule, run.qual, "KeyboardInterrupt is turned into %s" % show(o.value), node=run.node, stmt="kbi-to-error")
                    ok = False
                continue
            if label == "OtherBase":
                if o.kind != "raise" or o.value != e:
                    chk.bad(rule, run.qual, "a BaseException failure ends run() by %s instead of propagating" % (show(o.value) if o.kind == "raise" else o.kind), node=run.node, stmt="base-swallowed")
                    ok = False
                continue
            if o.kind != "raise":
                chk.bad(rule, run.qual, "a background failure makes run() %s instead of raising" % o.kind, node=run.node, stmt="failure-no-raise")
                ok = False
                continue
            v = o.value
            if v[1] != "ext:builtins.RuntimeError":
                chk.bad(rule, run.qual, "a background failure leaves run() as %s instead of RuntimeError" % show(v), node=run.node, stmt="not-runtime-error")
                ok = False
            elif v[4] != ("cause", e):
                chk.bad(rule, run.qual, "the RuntimeError raised by run() has cause %s instead of the original failure (raise ... from err)" % (show(v[4][1]) if v[4] else "None"), node=run.node, stmt="no-cause")
                ok = False
    # asyncio.run runs the supervising coroutine
    calls = [n for n in ast.walk(run.node) if isinstance(n, ast.Call) and prog.resolve(run.module, n.func) == "ext:asyncio.run"]
    if len(calls) != 1 or not (calls[0].args and util.unparse(calls[0].args[0]) == "self.%s()" % slots.supervisor(prog).name):
        chk.bad(rule, run.qual, "run() does not drive the supervising coroutine with asyncio.run", node=run.node, stmt="asyncio-run-target")
        ok = False
    if ok:
        chk.ok(rule, run.qual, "Exception -> RuntimeError(...) from the failure; KeyboardInterrupt ends the run without an error; other BaseExceptions propagate", node=run.node)
    # O1.7 accept / exclusive transparency
    rule = "O1.7"
    acc = prog.method(SERVICE_RUNNER, "accept")
    ok = True
    inject = {k: REPRESENTATIVES[k] for k in ("AnyException", "OtherBase")}
    # one representative per class an except clause of accept names (RuntimeError is what MetaRunner.run raises for a
    # failed payload): such a handler must not swallow it, rewrite it, or run the runtime again
    for h in ast.walk(acc.node):
        if isinstance(h, ast.ExceptHandler) and h.type is not None:
            for ty in h.type.elts if isinstance(h.type, ast.Tuple) else [h.type]:
                q = prog.resolve(acc.module, ty)
                if q and libfacts.is_exception_class(q, prog) and q not in ("ext:builtins.BaseException", "ext:builtins.Exception"):
                    inject["%s (named by a handler in accept)" % q.split(":")[-1].replace("builtins.", "")] = exc_value(libfacts.canon_exc(q), "injected")
    for label, e in inject.items():

        def hook(it, path, ct, node, e=e):
            if ct[0] == "call" and ct[1][0] == "attr" and ct[1][2] == "run" and ct[1][1] == ("attr", SELF, slots.service_meta(prog)):
                return [("raise", e)]
            return None

        outs = Interp(prog, acc, call_hook=hook, unroll=2).run()
        hit = False
        for o in outs:
            chk.count()
            raised = [ev for ev in o.path.events if ev[0] == "raised-at-call"]
            if raised:
                hit = True
                if o.kind != "raise" or o.value != e:
                    chk.bad(rule, acc.qual, "a failure raised by the meta runner does not leave accept() unchanged", node=acc.node, stmt="accept-swallows", input=label)
                    ok = False
                elif len(raised) > 1:
                    chk.bad(
                        rule,
                        acc.qual,
                        "after the meta runner's run() has failed (%s), accept() runs it AGAIN (%d runs on one path): the failure of a background payload is swallowed, the restarted runtime has lost its payloads and accept() keeps blocking" % (label, len(raised)),
                        node=acc.node,
                        stmt="accept-reruns",
                        input=label,
                    )
                    ok = False
                    break
        if not hit:
            chk.bad(rule, acc.qual, "accept() does not run the meta runner", node=acc.node, stmt="accept-no-run")
            ok = False
    if ok:
        chk.ok(rule, acc.qual, "a failure of MetaRunner.run() reaches the caller of accept() unchanged (the exclusive wrapper is checked by C12 O12.1)", node=acc.node)
    # O1.8 services
    rule = "O1.8"
    start = prog.method(SERVICE_UNIT, "start")
    regs = [n for n in ast.walk(start.node) if isinstance(n, ast.Call) and isinstance(n.func, ast.Attribute) and n.func.attr in ("register_payload", "run_payload", "adopt", "execute")]
    chk.count(len(regs))
    if len(regs) != 1 or regs[0].func.attr not in ("register_payload", "adopt"):
        chk.bad(rule, start.qual, "a service's run method is not handed to the monitored registration path (%s)" % [r.func.attr for r in regs], node=start.node, stmt="service-registration")
    else:
        a = regs[0].args[0] if regs[0].args else None
        if not (isinstance(a, ast.Attribute) and a.attr == "run"):
            chk.bad(rule, start.qual, "the registered payload is %s, not the service's run method" % (util.unparse(a) if a is not None else "missing"), node=regs[0], stmt="service-payload")
        else:
            chk.ok(rule, start.qual, "service.run is registered through MetaRunner.register_payload (monitored path)", node=regs[0])


# ------------------------------------------------------------------ O1.9 thread affinity
MUTATORS = {"set_exception", "set_result", "cancel", "set", "clear", "add", "discard", "remove", "add_done_callback"}


def thread_affinity(chk, found):
    prog = chk.program
    rule = "O1.9"
    g = CallGraph(prog)
    chk.facts["call graph"] = g.stats()
    n = 0
    bad = 0
    for q, (cls, _m) in found.items():
        # asyncio objects of the chain: fields created from the loop / asyncio
        fields = set()
        for c in [cls] + [prog.classes[x] for x in cls.mro if x in prog.classes]:
            for attr, nodes in c.fields.items():
                for node in nodes:
                    v = getattr(node, "value", None)
                    if isinstance(v, ast.Call):
                        r = prog.resolve(c.module, v.func) or ""
                        d = util.dotted(v.func) or ""
                        if r.startswith("ext:asyncio.") or d.endswith(".create_future"):
                            fields.add(attr)
        facts = common.runner_facts(prog, cls)
        if facts.get("task_registry"):
            fields.add(facts["task_registry"])
        for fis in cls.methods.values():
            for fi in fis:
                if fi.name == "__init__":
                    continue
                for node in util.walk_no_nested(fi.node):
                    if isinstance(node, ast.Call) and isinstance(node.func, ast.Attribute) and node.func.attr in MUTATORS:
                        d = util.dotted(node.func.value) or ""
                        if d.startswith("self.") and d.split(".")[1] in fields and d.count(".") == 1:
                            n += 1
                            chk.count()
                            ctx = set(g.contexts.get(fi.qual, ()))
                            if not ctx:
                                chk.undecided(rule, fi.qual, "no execution context derived for a function that mutates self.%s" % d.split(".")[1], node=node, aux=True)
                                continue
                            if ctx - {LOOP}:
                                bad += 1
                                chk.bad(
                                    rule,
                                    fi.qual,
                                    "%s.%s() is called in execution context %s: asyncio objects are not thread-safe, a future completed from a foreign thread does not wake the event loop (the failure is recorded but run() is not resumed while the loop is idle); use call_soon_threadsafe"
                                    % (d, node.func.attr, sorted(ctx - {LOOP})),
                                    node=node,
                                    stmt="%s.%s in %s" % (d, node.func.attr, sorted(ctx - {LOOP})),
                                )
    # the loop's own scheduling methods are not thread-safe either: from a foreign thread only call_soon_threadsafe /
    # run_coroutine_threadsafe wake the loop -- loop.call_soon(...) from a payload thread is run whenever the loop next
    # wakes up for another reason, i.e. never while it is idle (the failure or interrupt is recorded but run() sleeps on)
    UNSAFE = ("call_soon", "call_later", "call_at", "create_task")
    for q, (cls, _m) in found.items():
        for fis in cls.methods.values():
            for fi in fis:
                for node in util.walk_no_nested(fi.node):
                    if isinstance(node, ast.Call) and isinstance(node.func, ast.Attribute) and node.func.attr in UNSAFE and (util.dotted(node.func.value) or "").endswith("asyncio_loop"):
                        n += 1
                        chk.count()
                        ctx = set(g.contexts.get(fi.qual, ()))
                        if ctx - {LOOP}:
                            bad += 1
                            chk.bad(
                                rule,
                                fi.qual,
                                "%s.%s(...) is called in execution context %s: the event loop's %s is not thread-safe and does not wake an idle loop -- what it schedules (the report of a failure or interrupt) only runs when the loop wakes up for another reason; use call_soon_threadsafe" % (util.dotted(node.func.value), node.func.attr, sorted(ctx - {LOOP}), node.func.attr),
                                node=node,
                                stmt="%s in %s" % (node.func.attr, sorted(ctx - {LOOP})),
                            )
    # module-level helpers that are handed one of these objects:  helper(self._payload_failure, x)  /
    # call_soon_threadsafe(helper, self._payload_failure, x)  -- the mutation happens in the helper's context
    all_fields = set()
    for q, (cls, _m) in found.items():
        facts = common.runner_facts(prog, cls)
        all_fields |= {a for a in (facts.get("failure_future"), facts.get("task_registry")) if a}
    handed = {}  # helper qual -> {param index}
    for q, (cls, _m) in found.items():
        for fis in cls.methods.values():
            for fi in fis:
                for node in util.walk_no_nested(fi.node):
                    if not isinstance(node, ast.Call):
                        continue
                    callee, args = node.func, list(node.args)
                    if isinstance(callee, ast.Attribute) and callee.attr in ("call_soon_threadsafe", "call_soon") and args:
                        callee, args = args[0], args[1:]
                    r = prog.resolve(fi.module, callee) if isinstance(callee, (ast.Name, ast.Attribute)) else None
                    h = prog.functions.get(r) if r else None
                    if h is None or h.cls is not None:
                        continue
                    for i, a in enumerate(args):
                        d = util.dotted(a) or ""
                        if d.startswith("self.") and d.count(".") == 1 and d.split(".")[1] in all_fields:
                            handed.setdefault(h.qual, set()).add(i)
    for hq, idxs in sorted(handed.items()):
        h = prog.functions[hq]
        hp = h.params()
        names = {hp[i] for i in idxs if i < len(hp)}
        for node in util.walk_no_nested(h.node):
            if isinstance(node, ast.Call) and isinstance(node.func, ast.Attribute) and node.func.attr in MUTATORS and isinstance(node.func.value, ast.Name) and node.func.value.id in names:
                n += 1
                chk.count()
                ctx = set(g.contexts.get(h.qual, ()))
                if not ctx:
                    chk.undecided(rule, h.qual, "no execution context derived for a helper that mutates an asyncio object it is handed", node=node, aux=True)
                    continue
                if ctx - {LOOP}:
                    bad += 1
                    chk.bad(rule, h.qual, "%s.%s() is called in execution context %s on an asyncio object of a runner: asyncio objects are not thread-safe; use call_soon_threadsafe" % (node.func.value.id, node.func.attr, sorted(ctx - {LOOP})), node=node, stmt="%s.%s in %s" % (node.func.value.id, node.func.attr, sorted(ctx - {LOOP})))
    chk.floor(rule, n, 5)
    if not bad:
        chk.ok(rule, "<runners>", "all %d mutations of asyncio futures / events / the task registry happen in functions whose only execution context is the loop thread" % n)


def strong_registry(chk, found):
    """O1.11: asyncio keeps only weak references to tasks; the runner's registry must be what keeps payload tasks alive"""
    prog = chk.program
    rule = "O1.11"
    for q, (cls, _m) in found.items():
        reg = common.runner_facts(prog, cls).get("task_registry")
        if not reg:
            continue
        for n in cls.fields.get(reg, []):
            v = getattr(n, "value", None)
            if v is None:
                continue
            chk.count()
            txt = util.unparse(v)
            r = prog.resolve(cls.module, v.func) if isinstance(v, ast.Call) else None
            if (r or "").startswith("ext:weakref.") or "Weak" in txt:
                chk.bad(rule, cls.qual, "the task registry self.%s is a %s: nothing holds a running payload task strongly, a garbage collection can destroy it while it waits (the payload silently stops, or the runtime fails on a valid configuration)" % (reg, txt), node=n, stmt="weak-registry")
            elif txt in ("set()", "[]", "list()", "{}", "dict()"):
                chk.ok(rule, cls.qual, "payload tasks are held by the strong container self.%s = %s" % (reg, txt), node=n)
            else:
                chk.undecided(rule, cls.qual, "task registry container %s not recognised" % txt, node=n, aux=True)


def orphan_total(chk):
    """O1.12: building the OrphanedReturn for ANY returned value must not itself fail (it happens outside the monitors' try)"""
    prog = chk.program
    rule = "O1.12"
    cls = prog.cls(ORPHANED)
    init = prog.lookup_method(cls, "__init__")
    if init is None:
        chk.ok(rule, cls.qual, "no custom constructor", node=cls.node)
        return
    params = init.params()
    ok = True
    for n in ast.walk(init.node):
        if isinstance(n, ast.BinOp) and isinstance(n.op, ast.Mod) and isinstance(n.left, ast.Constant) and isinstance(n.left.value, str):
            chk.count()
            if not isinstance(n.right, (ast.Tuple, ast.Dict)):
                chk.bad(rule, init.qual, "the message is formatted as `%s %% %s`: a returned tuple is taken as the argument list of the format and raises TypeError, outside the monitors' try block -- the failure of a payload returning () or (1, 2) is lost" % (util.unparse(n.left), util.unparse(n.right)), node=n, stmt="format-operand-not-tuple")
                ok = False
        if isinstance(n, ast.Call) and util.dotted(n.func) in ("len", "iter", "sorted", "int", "float") and any(isinstance(a, ast.Name) and a.id in params for a in n.args):
            chk.bad(rule, init.qual, "%s on the returned value can raise for arbitrary values" % util.unparse(n), node=n, stmt="partial-operation")
            ok = False
    stores = {t.attr: util.unparse(st.value) for st in ast.walk(init.node) if isinstance(st, ast.Assign) for t in st.targets if isinstance(t, ast.Attribute)}
    if stores.get("value") != (params[1] if len(params) > 1 else None):
        chk.bad(rule, init.qual, "the orphaned-return error does not carry the returned value unchanged (value = %s)" % stores.get("value"), node=init.node, stmt="value-not-carried")
        ok = False
    if ok:
        chk.ok(rule, init.qual, "the constructor formats its operands through a tuple and stores the returned value unchanged: it cannot fail on any value", node=init.node)


def handlers_format_lazily(chk):
    """O1.13: on the failure chain (runner monitors, the supervising coroutine, MetaRunner.run, ServiceRunner.accept and the
    service sweep) no handler formats the exception it caught eagerly (f-string, %, str(), .format): a payload's exception
    whose __str__ / __repr__ raises would replace the failure being reported -- logging's lazy arguments swallow that"""
    prog = chk.program
    from . import c03

    rule = "O1.13"
    fns = []
    for q in (META, SERVICE_RUNNER):
        for fis in prog.cls(q).methods.values():
            fns.extend(fis)
    for c in util.concrete_runners(prog):
        for q in c.mro:
            k = prog.classes.get(q)
            if k is not None:
                for fis in k.methods.values():
                    fns.extend(f for f in fis if f not in fns)
    n = 0
    ok = True
    for fi in fns:
        for h in ast.walk(fi.node):
            if isinstance(h, ast.ExceptHandler) and h.name:
                n += 1
                chk.count()
                for fmt in c03._eager_formats(ast.Module(body=h.body, type_ignores=[]), {h.name}):
                    # the message of a NEW exception that is raised from the handler is evaluated before the raise: same hazard
                    chk.bad(rule, fi.qual, "the handler formats the caught exception eagerly (%s): an exception whose __str__ / __repr__ raises replaces the failure that is being reported, so run() no longer ends with RuntimeError from the original" % util.unparse(fmt)[:70], node=fmt, stmt="eager-format in handler of %s" % fi.name)
                    ok = False
    if ok:
        chk.ok(rule, "<failure chain>", "%d handlers that bind the caught exception: none formats it eagerly" % n)


def future_accepts_failure(chk, found):
    """O1.14: asyncio.Future.set_exception refuses a StopIteration (TypeError raised inside the caller -- a loop callback, where
    it is only logged).  A failure caught around a SYNCHRONOUS payload call can be one (inside a coroutine Python turns it into
    RuntimeError first, PEP 479): where such a failure is handed to set_exception it must be tested for / wrapped before"""
    prog = chk.program
    rule = "O1.14"
    n = 0
    ok = True
    for cls in util.concrete_runners(prog):
        facts = common.runner_facts(prog, cls)
        sync_monitors = []
        for mname in facts["monitors"]:
            m = prog.lookup_method(cls, mname)
            if m is not None:
                # a monitor that catches (and names) what the CALL of the payload raises hands it on as it is: `payload()` is
                # evaluated synchronously also in `await payload()`, and an exception caught inside the coroutine is not
                # converted (PEP 479 only converts a StopIteration that LEAVES a coroutine frame)
                pay = (m.params() or [None])[0]
                for t in ast.walk(m.node):
                    if isinstance(t, ast.Try) and any(h.name and (h.type is None or any(x in util.unparse(h.type) for x in ("BaseException", "Exception", "StopIteration"))) for h in t.handlers):
                        if any(isinstance(c, ast.Call) and isinstance(c.func, ast.Name) and c.func.id == pay for b in t.body for c in ast.walk(b)):
                            sync_monitors.append(m)
                            break
        if not sync_monitors:
            continue
        for fis in cls.methods.values():
            for fi in fis:
                for c in ast.walk(fi.node):
                    if not (isinstance(c, ast.Call) and isinstance(c.func, ast.Attribute) and c.func.attr == "set_exception" and c.args and isinstance(c.args[0], ast.Name)):
                        continue
                    n += 1
                    chk.count()
                    arg = c.args[0].id
                    par = util.parents_map(fi.node)
                    guarded = False
                    # (a) an explicit test of the failure for StopIteration before the call
                    for t in ast.walk(fi.node):
                        if isinstance(t, (ast.If, ast.IfExp)) and "StopIteration" in util.unparse(t.test) and arg in util.unparse(t.test) and getattr(t, "lineno", 0) <= c.lineno:
                            guarded = True
                    # (b) the call sits in a try that handles the TypeError by reporting a substitute
                    up = par.get(id(c))
                    while up is not None and not guarded:
                        if isinstance(up, ast.Try) and any(h.type is None or any(x in util.unparse(h.type) for x in ("TypeError", "Exception", "BaseException")) for h in up.handlers) and any(isinstance(x, ast.Attribute) and x.attr == "set_exception" for h in up.handlers for x in ast.walk(h)):
                            guarded = True
                        up = par.get(id(up))
                    if guarded and arg not in fi.params() and fi in sync_monitors:
                        # the monitor sets the failure itself: interpret it with a payload whose call raises StopIteration
                        STOP = exc_value("ext:builtins.StopIteration", "payload")
                        pay = (fi.params() or [None])[0]

                        def hook(it, path, ct, node, pay=pay):
                            if ct[0] == "call" and ct[1] == ("sym", pay):
                                return [("raise", STOP)]
                            return None

                        try:
                            outs = Interp(prog, fi, call_hook=hook, decide=lambda it, p, t: False if (t[0] == "call" and t[1][0] == "attr" and t[1][2] == "done") else None).run()
                        except Undecided:
                            outs = []
                        for o in outs:
                            for ct in [e[1] for e in o.path.events if e[0] == "call" and e[1][1][0] == "attr" and e[1][1][2] == "set_exception"]:
                                given = ct[2][0] if ct[2] else None
                                caused = any(e[0] == "store" and e[1] == ("attr", given, "__cause__") and e[2] == STOP for e in o.path.events) or (is_exc(given) and len(given) > 4 and given[4] == STOP)
                                if given == STOP or (is_exc(given) and "StopIteration" in given[1]):
                                    chk.bad(rule, fi.qual, "%s tests the failure for StopIteration but still hands the StopIteration itself to Future.set_exception: the Future refuses it, the failure is lost" % fi.name, node=c, stmt="set_exception still given StopIteration in %s" % fi.name, input="calling the payload raises StopIteration()")
                                    ok = False
                                elif not caused:
                                    chk.bad(rule, fi.qual, "%s replaces a StopIteration by %s without making the StopIteration its cause" % (fi.name, show(given)), node=c, stmt="StopIteration cause lost in %s" % fi.name, input="calling the payload raises StopIteration()")
                                    ok = False
                    if guarded and arg in fi.params():
                        # what a StopIteration is replaced by: interpret the function with exactly that failure -- the
                        # future must be handed ANOTHER exception that carries the StopIteration as its cause
                        STOP = exc_value("ext:builtins.StopIteration", "payload")
                        try:
                            outs = Interp(prog, fi, decide=lambda it, p, t: False if (t[0] == "call" and t[1][0] == "attr" and t[1][2] == "done") else None).run(env={("sym", arg): STOP})
                        except Undecided:
                            outs = []
                        for o in outs:
                            sets = [e[1] for e in o.path.events if e[0] == "call" and e[1][1][0] == "attr" and e[1][1][2] == "set_exception"]
                            for ct in sets:
                                given = ct[2][0] if ct[2] else None
                                caused = any(e[0] == "store" and e[1] == ("attr", given, "__cause__") and e[2] == STOP for e in o.path.events) or (is_exc(given) and len(given) > 4 and given[4] == STOP)
                                if given == STOP or (is_exc(given) and "StopIteration" in given[1]):
                                    chk.bad(rule, fi.qual, "%s tests the failure for StopIteration but still hands the StopIteration itself to Future.set_exception (%s): the Future refuses it, the failure is lost" % (fi.name, show(given)), node=c, stmt="set_exception still given StopIteration in %s" % fi.name, input="payload raises StopIteration()")
                                    ok = False
                                elif not caused:
                                    chk.bad(rule, fi.qual, "%s replaces a StopIteration by %s without making the StopIteration its cause: run() ends with an error whose cause chain no longer leads to the exception the payload raised" % (fi.name, show(given)), node=c, stmt="StopIteration cause lost in %s" % fi.name, input="payload raises StopIteration()")
                                    ok = False
                    if not guarded:
                        chk.bad(
                            rule,
                            fi.qual,
                            "%s hands a failure caught around the call of a payload (%s) to Future.set_exception without testing it for StopIteration: the Future refuses it with TypeError inside the loop callback, the failure is only logged by the loop and the runtime keeps running although a payload raised"
                            % (fi.name, ", ".join(m.name for m in sync_monitors)),
                            node=c,
                            stmt="set_exception unguarded in %s" % fi.name,
                            input="payload raises StopIteration()",
                        )
                        ok = False
    if ok:
        chk.ok(rule, "<runners>", "%d set_exception sites behind synchronous monitors test the failure for StopIteration first" % n)


def run(chk):
    chk.facts.update({k: v for k, v in libfacts.cross_read().items() if "trio" in k or "asyncio" in k})
    found = chk.guard("O1.1", "<runners>", monitors_and_outcomes, chk) or {}
    chk.guard("O1.3", "<runners>", propagation_to_run, chk, found)
    chk.guard("O1.5", META, meta_chain, chk)
    chk.guard("O1.9", "<runners>", thread_affinity, chk, found)
    chk.guard("O1.11", "<runners>", strong_registry, chk, found)
    chk.guard("O1.12", ORPHANED, orphan_total, chk)
    from . import c02

    chk.guard("O1.10", META, c02.mapping_cleared, chk, "O1.10")
    # "never keeps running": after a failure the run only ends when close-all completes (shared with C02)
    chk.guard("O2.1", META, c02.supervisor, chk)
    chk.guard("O2.3", "<asyncio runner>", c02.asyncio_runner, chk)
    chk.guard("O2.4", "<trio runner>", c02.trio_runner, chk)
    # "queued before the runtime starts, adopted afterwards": a payload that is never handed to its runner cannot
    # end the run when it fails -- every queued / adopted payload reaches exactly one runner (shared with C03)
    from . import c03

    chk.guard("O3.1", META, c03.meta_register, chk)
    chk.guard("O3.1", "<runners>", c03.runner_forwards, chk)
    chk.guard("O3.5", c03.TRIO_RUNNER, c03.send_after_close, chk)
    chk.guard("O3.5", c03.TRIO_RUNNER, c03.channel_writers, chk)
    chk.guard("O1.13", "<failure chain>", handlers_format_lazily, chk)
    # the service sweep is itself a payload: when an adopt step fails the sweep must end by raising (shared with C03)
    chk.guard("O3.7", c03.SERVICE_RUNNER, c03.sweep_rules, chk)
    chk.guard("O1.14", "<runners>", future_accepts_failure, chk, found)
