"""C13 -- the daemon runs its configured pipeline until stopped (wiring the process-level behaviour depends on)."""
import ast

from .. import util
from ..interp import Interp, Path, exc_value, is_exc, show, strip_sites, subterms, NONE
from .. import slots
from ..report import Undecided
from . import c01

MAIN = "cobald.daemon.core.main"
RUN = MAIN + ":run"
CLI_RUN = MAIN + ":cli_run"
LOAD_SERVICES = MAIN + ":_load_services"
LOAD = "cobald.daemon.core.config:load"
YAML_LOAD = "cobald.daemon.config.yaml:load_configuration"
PY_LOAD = "cobald.daemon.config.python:load_configuration"
MAP_LOAD = "cobald.daemon.config.mapping:load_configuration"
LOADER = "cobald.daemon.core.config:COBalDLoader"


def startup(chk):
    prog = chk.program
    rule = "O13.1"
    # __main__ runs cli_run
    mm = prog.module("cobald.daemon.__main__")
    calls = [n for n in ast.walk(mm.tree) if isinstance(n, ast.Call)]
    chk.count(len(calls))
    if not any(prog.resolve(mm, c.func) == CLI_RUN for c in calls):
        chk.bad(rule, "cobald.daemon.__main__", "`python -m cobald.daemon` does not call cli_run()", stmt="main")
    guarded = [n for n in mm.tree.body if isinstance(n, ast.If)]
    if guarded:
        chk.undecided(rule, "cobald.daemon.__main__", "module body is conditional", node=guarded[0])
    # the console script entry point
    cli = prog.func(CLI_RUN)
    runcalls = [n for n in ast.walk(cli.node) if isinstance(n, ast.Call) and prog.resolve(cli.module, n.func) == RUN]
    if len(runcalls) != 1:
        chk.bad(rule, cli.qual, "cli_run does not call run() exactly once", node=cli.node, stmt="cli-run")
    else:
        kw = {k.arg: util.unparse(k.value) for k in runcalls[0].keywords}
        params = prog.func(RUN).params()
        for i, a in enumerate(runcalls[0].args):
            kw[params[i]] = util.unparse(a)
        if not (kw.get("configuration") or "").endswith(".CONFIGURATION"):
            chk.bad(rule, cli.qual, "run() is given %s as the configuration instead of the CONFIGURATION argument" % kw.get("configuration"), node=runcalls[0], stmt="cli-configuration")
        else:
            chk.ok(rule, cli.qual, "__main__ -> cli_run -> run(configuration=options.CONFIGURATION, ...)", node=runcalls[0])
    # the path reaches run() as the user typed it: its extension selects the loader, so a converter on the CONFIGURATION
    # argument that follows symbolic links or edits the text (`config.yaml -> releases/config.yaml.v2`) changes which
    # loader is used for a valid configuration
    KEEP = {"ext:builtins.str", "ext:os.fspath", "ext:os.fsdecode", "ext:pathlib.Path", "ext:pathlib.PurePath", "ext:os.path.abspath", "ext:os.path.expanduser", "ext:os.path.expandvars", "ext:os.path.normpath"}
    CHANGE = {"realpath", "resolve", "readlink", "lower", "upper", "casefold", "strip", "rstrip", "lstrip", "basename", "splitext", "with_suffix", "removesuffix", "stem"}
    climod = prog.modules.get("cobald.daemon.core.cli")
    n_conf = 0
    for c in ast.walk(climod.tree) if climod is not None else []:
        if isinstance(c, ast.Call) and isinstance(c.func, ast.Attribute) and c.func.attr == "add_argument" and c.args and isinstance(c.args[0], ast.Constant) and c.args[0].value == "CONFIGURATION":
            n_conf += 1
            for k in c.keywords:
                if k.arg in ("nargs", "choices", "action", "const"):
                    chk.bad(rule, "cobald.daemon.core.cli", "the CONFIGURATION argument is declared with %s=%s: run() no longer gets the one path the user gave" % (k.arg, util.unparse(k.value)), node=c, stmt="cli-argument-%s" % k.arg)
                if k.arg != "type":
                    continue
                q = prog.resolve(climod, k.value) if isinstance(k.value, (ast.Name, ast.Attribute)) else None
                if q in KEEP:
                    continue
                conv = prog.functions.get(q) if q else None
                used = set()
                if conv is not None:
                    used = {x.attr for x in ast.walk(conv.node) if isinstance(x, ast.Attribute)} | {x.id for x in ast.walk(conv.node) if isinstance(x, ast.Name)}
                elif isinstance(k.value, ast.Lambda):
                    used = {x.attr for x in ast.walk(k.value) if isinstance(x, ast.Attribute)} | {x.id for x in ast.walk(k.value) if isinstance(x, ast.Name)}
                elif q:
                    used = {q.rsplit(".", 1)[-1]}
                if used & CHANGE:
                    chk.bad(
                        rule,
                        "cobald.daemon.core.cli",
                        "the CONFIGURATION argument is converted by %s (%s) before its extension selects the loader: a valid configuration behind a symbolic link or with a differently spelled name is rejected as `Unknown configuration extension`, or the wrong loader is used" % (util.unparse(k.value), ", ".join(sorted(used & CHANGE))),
                        node=c,
                        stmt="cli-path-rewritten",
                    )
                else:
                    chk.undecided(rule, "cobald.daemon.core.cli", "the CONFIGURATION argument is converted by %s" % util.unparse(k.value), node=c)
    if climod is not None and n_conf != 1:
        chk.undecided(rule, "cobald.daemon.core.cli", "%d declarations of the CONFIGURATION argument" % n_conf, node=climod.tree)
    run = prog.func(RUN)
    outs = Interp(prog, run, inline=lambda f, ct: f.cls is None and not f.is_async and f.module is run.module and f.name.startswith("_")).run()
    chk.count(len(outs))
    ok = True
    RUNTIME = ("glob", "cobald.daemon:runtime")
    for o in outs:
        if o.kind == "raise":
            continue
        evs = o.path.events
        ad = [(i, e[1]) for i, e in enumerate(evs) if e[0] == "call" and e[1][1] in (("attr", RUNTIME, "adopt"), ("glob", RUNTIME[1] + ".adopt"))]
        ac = [(i, e[1]) for i, e in enumerate(evs) if e[0] == "call" and e[1][1] in (("attr", RUNTIME, "accept"), ("glob", RUNTIME[1] + ".accept"))]
        if len(ac) != 1:
            chk.bad(rule, run.qual, "run() calls runtime.accept() %d times" % len(ac), node=run.node, stmt="accept-count")
            ok = False
            continue
        if not ad:
            chk.bad(rule, run.qual, "run() adopts nothing before accept(): the configuration is never loaded and the daemon stays up idle without its pipeline", node=run.node, stmt="adopt-nothing")
            ok = False
            continue
        LS = ("glob", slots.load_services(prog).qual)

        def unbind(c):
            """adopt(f, cfg)  or  adopt(partial(f, cfg)) -> (f, [cfg...])"""
            if not c[2]:
                return None, []
            a0 = c[2][0]
            if a0[0] == "call" and a0[1] == ("glob", "ext:functools.partial") and a0[2]:
                return a0[2][0], list(a0[2][1:]) + list(c[2][1:])
            return a0, list(c[2][1:])

        loaders = [(i, c) for i, c in ad if unbind(c)[0] == LS]
        if len(loaders) != 1:
            chk.bad(rule, run.qual, "run() does not adopt the configuration-loading coroutine exactly once (%d): the daemon stays up idle without its pipeline" % len(loaders), node=run.node, stmt="adopt-loader")
            ok = False
            continue
        i, c = loaders[0]
        if i > ac[0][0]:
            chk.bad(rule, run.qual, "the configuration loader is adopted after accept(), which only returns when the daemon stops", node=run.node, stmt="adopt-after-accept")
            ok = False
        fl = dict((k, v) for k, v in c[3] if k).get("flavour")
        if fl != ("glob", "ext:asyncio"):
            chk.bad(rule, run.qual, "the configuration loader is adopted with flavour %s: the configured objects are not constructed inside the running asyncio event loop" % (show(fl) if fl else "missing"), node=run.node, stmt="loader-flavour")
            ok = False
        if unbind(c)[1] != [("sym", run.params()[0])]:
            chk.bad(rule, run.qual, "the loader is given %s instead of the configuration path" % [show(a) for a in unbind(c)[1]], node=run.node, stmt="loader-args")
            ok = False
        # nothing after accept
        after = [e for e in evs[ac[0][0] + 1 :] if e[0] in ("call", "raise")]
        if after:
            chk.bad("O13.4", run.qual, "run() does more after accept() returned (%s): the exit status of a clean stop is no longer decided by accept alone" % show(after[0][1]), node=run.node, stmt="after-accept")
            ok = False
    if ok:
        chk.ok(rule, run.qual, "adopts _load_services(configuration) with flavour=asyncio before calling accept(); accept() is the last action", node=run.node)
    # O13.4: nothing on the way swallows
    rule = "O13.4"
    ok = True
    for fi in (cli, run):
        for t in ast.walk(fi.node):
            if isinstance(t, ast.Try):
                chk.count()
                for h in t.handlers:
                    if not util.handler_reraises_all_paths(prog, fi, h):
                        chk.bad(rule, fi.qual, "an `except %s` handler on the way from the command line to accept() does not re-raise: a failing daemon would exit with status 0" % (util.unparse(h.type) if h.type else ""), node=h, stmt="swallow in %s" % fi.name)
                        ok = False
    acc_wrapped = False
    if ok:
        chk.ok(rule, RUN, "no handler between the command line and accept() swallows", node=run.node)


def keep_alive(chk):
    prog = chk.program
    rule = "O13.2"
    ls = util.flat(prog, slots.load_services(prog))
    name = ls.qual
    ok = True
    if not ls.is_async:
        chk.bad(rule, name, "_load_services is not a coroutine function", node=ls.node, stmt="not-async")
        return
    withs = [n for n in ast.walk(ls.node) if isinstance(n, (ast.With, ast.AsyncWith))]
    load_calls = [n for n in ast.walk(ls.node) if isinstance(n, ast.Call) and prog.resolve(ls.module, n.func) == LOAD]
    chk.count(len(load_calls) + len(withs))
    if len(load_calls) != 1:
        chk.bad(rule, name, "_load_services calls load() %d times" % len(load_calls), node=ls.node, stmt="load-count")
        return
    lc = load_calls[0]
    if [util.unparse(a) for a in lc.args] + [util.unparse(k.value) for k in lc.keywords] != [ls.params()[0]]:
        chk.bad(rule, name, "load() is given %s instead of the configuration path" % util.unparse(lc), node=lc, stmt="load-arg")
        ok = False
    bound_to = {t.id for a in ast.walk(ls.node) if isinstance(a, ast.Assign) and a.value is lc for t in a.targets if isinstance(t, ast.Name)}
    rebound = [a for a in ast.walk(ls.node) if isinstance(a, (ast.Assign, ast.Delete)) and a is not None and any(isinstance(t, ast.Name) and t.id in bound_to for t in (a.targets if hasattr(a, "targets") else [])) and getattr(a, "value", None) is not lc]
    holder = [w for w in withs if any(it.context_expr is lc or (isinstance(it.context_expr, ast.Name) and it.context_expr.id in bound_to and not rebound) for it in w.items)]
    if not holder:
        handed = util.enclosing(util.parents_map(ls.node), lc, (ast.Call,))
        chk.bad(
            rule,
            name,
            "the load(path) context is not entered by a `with` statement in the loading coroutine itself%s: the configured objects are %s"
            % (" (it is handed to %s)" % util.unparse(handed.func) if handed is not None else "", "constructed outside the running event loop's thread (constructors that need the running loop fail) " if handed is not None else "not kept alive"),
            node=lc,
            stmt="load-not-entered-here",
        )
        return
    w = holder[0]
    if isinstance(w, ast.AsyncWith):
        chk.undecided(rule, name, "load is entered by `async with`", node=w)
        return
    # the body parks forever on an awaited never-completing call, inside the with
    parks = []
    for n in ast.walk(w):
        if isinstance(n, ast.Await) and isinstance(n.value, ast.Call):
            r = prog.resolve(ls.module, n.value.func)
            txt = util.unparse(n.value)
            forever = "inf" in txt
            arg0 = n.value.args[0] if n.value.args else None
            if r == "ext:asyncio.sleep" and isinstance(arg0, ast.Name) and not forever:
                # a named duration: a module constant, or a defaulted parameter nothing in the package supplies
                mc = prog.module_constant(prog.resolve(ls.module, arg0) or "")
                dflt = util.unsupplied_default_nodes(prog, ls).get(arg0.id)
                rebinds = [x for x in ast.walk(ls.node) if isinstance(x, ast.Name) and x.id == arg0.id and isinstance(x.ctx, (ast.Store, ast.Del))]
                if dflt is not None and not rebinds and "inf" in util.unparse(dflt):
                    forever = True
                elif mc is not None and arg0.id not in ls.params() and not rebinds and "inf" in util.unparse(mc[1]):
                    forever = True
            if (r == "ext:asyncio.sleep" and forever) or r in ("ext:trio.sleep_forever",) or txt.endswith("Event().wait()") or txt.endswith("Future()"):
                parks.append(n)
            elif r == "ext:asyncio.sleep":
                chk.bad(rule, name, "the loader sleeps for %s instead of forever: afterwards the configuration is released and its services can be collected" % util.unparse(n.value.args[0]), node=n, stmt="finite-park")
                ok = False
    last = w.body[-1]
    if not parks:
        if ok:
            chk.bad(rule, name, "inside `with load(path)` nothing parks the coroutine forever: the loaded configuration is released as soon as loading is done (and returning makes it an orphaned return / the pipeline is collected)", node=w, stmt="no-park")
        ok = False
    elif not any(p is getattr(last, "value", None) or any(x is p for x in ast.walk(last)) for p in parks):
        chk.bad(rule, name, "statements follow the parking await inside the with block", node=last, stmt="after-park")
        ok = False
    idx = ls.node.body.index(w) if w in ls.node.body else None
    trailing = [st for st in (ls.node.body[idx + 1 :] if idx is not None else []) if not (isinstance(st, ast.Return) and (st.value is None or (isinstance(st.value, ast.Constant) and st.value.value is None))) and not isinstance(st, ast.Pass)]
    if idx is None or trailing:
        chk.bad(rule, name, "the loading coroutine continues after the `with load(path)` block", node=ls.node, stmt="after-with")
        ok = False
    for st in w.body:
        for n in ast.walk(st):
            if isinstance(n, (ast.Return, ast.Break)):
                chk.bad(rule, name, "the with block can be left by %s" % type(n).__name__.lower(), node=n, stmt="with-exit")
                ok = False
    if ok:
        chk.ok(rule, name, "enters load(path) itself (inside the event loop) and parks forever inside the with block", node=w)
    # ---- load(): dispatch totality (O13.3) and keeping the result bound at the yield
    load = prog.func(LOAD)
    if "contextmanager" not in [(d or "").split(".")[-1] for d in load.decorator_names()]:
        chk.bad(rule, load.qual, "load is not a context manager", node=load.node, stmt="no-contextmanager")
        return
    cp = ("sym", load.params()[0])
    table = {}
    ok3 = True
    # splitext(path) is (root, extension): any other index is the root or an IndexError for every configuration
    for n in ast.walk(load.node):
        if isinstance(n, ast.Subscript) and isinstance(n.value, ast.Call) and (prog.resolve(load.module, n.value.func) or "").endswith("path.splitext") and isinstance(n.slice, ast.Constant) and n.slice.value not in (1, -1):
            chk.bad("O13.3", load.qual, "the loader is chosen by os.path.splitext(path)[%r], which is %s, not the extension" % (n.slice.value, "the path without its extension" if n.slice.value in (0, -2) else "an IndexError for every path"), node=n, stmt="splitext-index %r" % (n.slice.value,))
            ok3 = False
    for ext in (".yaml", ".yml", ".py", ".txt", "", ".pyc", ".json"):

        def is_ext(t):
            """the extension of the configuration path: splitext(p)[1], `_, ext = splitext(p)`, Path(p).suffix"""
            if t[0] == "sub" and "splitext" in show(t[1]):
                return t[2] in (("const", 1), ("const", -1))
            if t[0] == "proj" and "splitext" in show(t[1]):
                return t[2] in (1, -1)
            return t[0] == "attr" and t[2] == "suffix"

        def decide(it, path, term, ext=ext):
            if term[0] == "cmp" and term[1] in ("==", "!=") and is_ext(term[3]) and term[2][0] == "const":
                term = ("cmp", term[1], term[3], term[2])
            if term[0] == "cmp" and is_ext(term[2]):
                if term[1] == "in" and term[3][0] in ("tuple", "list", "set"):
                    return ext in [x[1] for x in term[3][1] if x[0] == "const"]
                if term[1] == "==" and term[3][0] == "const":
                    return ext == term[3][1]
                if term[1] == "!=" and term[3][0] == "const":
                    return ext != term[3][1]
            if term[0] == "call" and term[1][0] == "attr" and term[1][2] in ("endswith",) and term[1][1] == cp and term[2] and term[2][0][0] in ("const", "tuple"):
                suf = term[2][0]
                sufs = [suf[1]] if suf[0] == "const" else [x[1] for x in suf[1]]
                return any(("x" + ext).endswith(s) for s in sufs)
            return None

        def dispatch_helper(f, ct):
            """a module-level helper of the same module that wraps one of the two loaders"""
            return f.cls is None and f.module is load.module and f is not load and any(isinstance(c, ast.Call) and prog.resolve(f.module, c.func) in (YAML_LOAD, PY_LOAD) for c in ast.walk(f.node))

        outs = Interp(prog, load, decide=decide, inline=dispatch_helper).run()
        chk.count(len(outs))
        for o in outs:
            forks = [e for e in o.path.events if e[0] in ("branch", "fork") and e[-1] == "forked"]
            if forks:
                chk.undecided("O13.3", load.qual, "extension dispatch depends on %s" % show(forks[0][1]), node=load.node)
                ok3 = False
                continue
            ys = [e for e in o.path.events if e[0] == "yield"]
            calls = [e[1] for e in o.path.events if e[0] == "call" and e[1][1][0] == "glob" and e[1][1][1] in (YAML_LOAD, PY_LOAD)]
            if ext in (".yaml", ".yml", ".py"):
                want = YAML_LOAD if ext != ".py" else PY_LOAD
                if o.kind == "raise" or len(calls) != 1 or calls[0][1][1] != want:
                    chk.bad("O13.3", load.qual, "a %r configuration is %s" % (ext, "rejected" if o.kind == "raise" else "loaded by %s" % [c[1][1].split(":")[0].split(".")[-1] for c in calls]), node=load.node, stmt="dispatch %s" % ext, input=ext)
                    ok3 = False
                    continue
                args = list(calls[0][2]) + [v for _k, v in calls[0][3]]
                if cp not in args:
                    chk.bad("O13.3", load.qual, "the %s loader is not given the configuration path" % ext, node=load.node, stmt="loader-path %s" % ext)
                    ok3 = False
                if len(ys) != 1 or ys[0][1] != calls[0]:
                    chk.bad(
                        rule,
                        load.qual,
                        "for a %r configuration load() yields %s; the loader's result must stay bound to a local at the yield (that reference is what keeps the pipeline alive while the daemon runs)" % (ext, show(strip_sites(ys[0][1])) if ys else "nothing"),
                        node=load.node,
                        stmt="yield-not-result %s" % ext,
                        input=ext,
                    )
                    ok = False
                else:
                    # still bound at the yield: some local holds the result
                    holders = [k for k, v in o.path.env.items() if k[0] == "sym" and v == calls[0]]
                    if not holders:
                        chk.bad(rule, load.qual, "the loader's result is no longer bound to a local when load() yields", node=load.node, stmt="result-unbound %s" % ext)
                        ok = False
                if ext != ".py":
                    kw = dict((k, v) for k, v in calls[0][3] if k)
                    if kw.get("loader") != ("glob", LOADER):
                        pass  # C18 O18.2
                    if "plugins" not in kw and len(calls[0][2]) < 3:
                        chk.bad("O13.3", load.qual, "the YAML loader is not given the section plugins: the pipeline section is rejected as unknown", node=load.node, stmt="no-plugins")
                        ok3 = False
            else:
                if o.kind != "raise":
                    chk.bad("O13.3", load.qual, "a configuration with the unknown extension %r does not make loading raise (%s)" % (ext, "it is loaded by %s" % [c[1][1] for c in calls] if calls else o.kind), node=load.node, stmt="unknown-extension %r" % ext, input=ext)
                    ok3 = False
    if ok3:
        chk.ok("O13.3", load.qual, ".yaml/.yml -> YAML loader, .py -> Python loader, anything else raises", node=load.node, input="7 extensions")
    if ok:
        chk.ok(rule, load.qual, "the loader's result is bound to a local and yielded", node=load.node)
    # ---- the loaders return what they built
    yl = prog.func(YAML_LOAD)
    outs = Interp(prog, yl).run()
    good = False
    for o in outs:
        chk.count()
        if o.kind == "return":
            v = o.value
            if v[0] == "call" and v[1] == ("glob", MAP_LOAD):
                good = True
                kw = dict((k, val) for k, val in v[3] if k)
                if kw.get("plugins", v[2][1] if len(v[2]) > 1 else None) != ("sym", "plugins"):
                    chk.bad(rule, yl.qual, "the section plugins are not handed on to the mapping loader", node=yl.node, stmt="plugins-dropped")
                    good = False
            else:
                chk.bad(rule, yl.qual, "the YAML loader returns %s instead of the mapping loader's result (the digested sections are dropped and can be collected)" % show(strip_sites(v)), node=yl.node, stmt="yaml-return")
                good = None
    if good:
        chk.ok(rule, yl.qual, "returns load_mapping_configuration(config_data, plugins)", node=yl.node)
    elif good is False and not any(ob.construct == yl.qual for ob in chk.obs):
        chk.bad(rule, yl.qual, "the YAML loader does not return the mapping loader's result", node=yl.node, stmt="yaml-return")
    pl = prog.func(PY_LOAD)
    outs = Interp(prog, pl, decide=lambda it, p, t: False if t[0] == "isnone" else None, inline=lambda f, ct: f.cls is None and not f.is_async and f.module is pl.module and f.name.startswith("_")).run()
    for o in outs:
        chk.count()
        if o.kind != "return":
            continue
        v = o.value
        execd = [e[1] for e in o.path.events if e[0] == "call" and e[1][1][0] == "attr" and e[1][1][2] == "exec_module"]
        if not (v[0] == "call" and "module_from_spec" in show(v[1])):
            chk.bad(rule, pl.qual, "the Python loader returns %s instead of the module it executed" % show(strip_sites(v)), node=pl.node, stmt="py-return")
        elif len(execd) != 1 or list(execd[0][2]) != [v]:
            chk.bad(rule, pl.qual, "the configuration module is not executed exactly once before it is returned", node=pl.node, stmt="py-exec")
        else:
            chk.ok(rule, pl.qual, "executes the module once and returns it", node=pl.node)


def runtime_log(chk):
    """O13.6: a `logging` section must not silence the runtime loggers that already exist (errors go to the runtime log)"""
    prog = chk.program
    rule = "O13.6"
    fi = prog.func("cobald.daemon.config.mapping:configure_logging")
    m = ("sym", fi.params()[0])
    KEY = ("const", "disable_existing_loggers")
    ok = False
    for o in Interp(prog, fi, inline=lambda f, ct, fi=fi: f.cls is None and not f.is_async and f.module is fi.module and f.name.startswith("_")).run():
        chk.count()
        cfg = [i for i, e in enumerate(o.path.events) if e[0] == "call" and e[1][1] == ("glob", "ext:logging.config.dictConfig")]
        if not cfg:
            chk.bad(rule, fi.qual, "the logging section is not applied", node=fi.node, stmt="no-dictConfig")
            return
        before = o.path.events[: cfg[0]]
        for e in before:
            if e[0] == "store" and e[1] == ("sub", m, KEY):
                v = strip_sites(e[2])
                if v == ("call", ("attr", m, "get"), (KEY, ("const", False)), ()):
                    ok = True
                elif v == ("const", False):
                    ok = True  # always keeps them (stricter than needed, but never silences)
            if e[0] == "call" and e[1][1] == ("attr", m, "setdefault") and list(e[1][2]) == [KEY, ("const", False)]:
                ok = True
    if ok:
        chk.ok(rule, fi.qual, "disable_existing_loggers defaults to False before dictConfig: the runtime loggers created earlier keep reporting", node=fi.node)
    else:
        chk.bad(
            rule,
            fi.qual,
            "the logging section is applied without defaulting disable_existing_loggers to False: dictConfig then disables every logger that already exists, including the runtime loggers, so the error of a failing service never reaches the log",
            node=fi.node,
            stmt="existing-loggers-disabled",
        )


def read_while_open(chk):
    """O13.7: the YAML document is read while its stream is open (PyYAML reads lazily in 4096-character chunks: a
    document that is parsed after the `with open(...)` block has ended fails as soon as it is longer than one chunk)"""
    prog = chk.program
    rule = "O13.7"
    fi = prog.func(YAML_LOAD)
    inline = lambda f, ct: f.cls is None and f.module is fi.module and f is not fi  # noqa: E731
    n = 0
    ok = True
    for o in Interp(prog, fi, inline=inline).run():
        evs = o.path.events
        opens = [i for i, e in enumerate(evs) if e[0] == "with-enter" and strip_sites(e[1])[0] == "call" and strip_sites(e[1])[1] == ("glob", "ext:builtins.open")]
        if not opens:
            # no `with open`: a stream that is opened and never closed by this function is read while open
            continue
        i0 = opens[0]
        closes = [i for i, e in enumerate(evs) if e[0] == "with-exit" and i > i0]
        i1 = closes[0] if closes else len(evs)
        stream = ("enter", evs[i0][1])
        for i, e in enumerate(evs):
            if e[0] != "call" or e[1][1][0] != "attr":
                continue
            recv = e[1][1][1]
            if stream not in list(subterms(recv)) or e[1][1][2] in ("dispose", "close"):
                continue
            n += 1
            chk.count()
            if not (i0 < i < i1):
                chk.bad(rule, fi.qual, "%s is called after the `with open(...)` block of its stream has ended: the document is parsed from a closed file (fails for every configuration longer than PyYAML's 4096-character read chunk)" % show(strip_sites(e[1][1])), node=fi.node, stmt="read-after-close %s" % e[1][1][2])
                ok = False
    if ok and n:
        chk.ok(rule, fi.qual, "every read through the loader instance lies inside the with-block that keeps its stream open (%d reads)" % n, node=fi.node)
    elif ok:
        chk.undecided(rule, fi.qual, "no read through a loader built on a `with open(...)` stream found", node=fi.node, aux=True)


ROOT_LOG_CALLS = {"ext:logging." + n for n in ("debug", "info", "warning", "warn", "error", "critical", "exception", "log")}


def logging_initialised_first(chk):
    """O13.8: nothing logs through the ROOT logger functions (logging.debug(...), logging.info(...), ...) before
    logging.basicConfig has run: those functions install a default stderr handler when the root logger has none, after
    which basicConfig(level=..., handlers=...) is a no-op (library fact, cross-read) -- the configured log target and
    level are then ignored and the error of a failing service does not reach the runtime log"""
    prog = chk.program
    rule = "O13.8"
    run = prog.func(RUN)
    fi = None
    for n in ast.walk(run.node):
        if isinstance(n, ast.Call):
            r = prog.resolve(run.module, n.func)
            f = prog.functions.get(r) if r else None
            if f is not None and any(isinstance(c, ast.Call) and prog.resolve(f.module, c.func) == "ext:logging.basicConfig" for c in ast.walk(f.node)):
                fi = f
    if fi is None:
        chk.undecided(rule, run.qual, "run() calls no function that configures logging through logging.basicConfig", node=run.node, aux=True)
        return
    # library fact
    import os
    import sysconfig

    std = sysconfig.get_paths().get("stdlib")
    confirmed = None
    try:
        with open(os.path.join(std, "logging", "__init__.py")) as f:
            tree = ast.parse(f.read())
        for n in tree.body:
            if isinstance(n, ast.FunctionDef) and n.name == "debug":
                confirmed = any(isinstance(c, ast.Call) and getattr(c.func, "id", None) == "basicConfig" for c in ast.walk(n))
    except (OSError, SyntaxError, TypeError):
        pass
    chk.facts["logging.debug()/info()/... call basicConfig() when the root logger has no handlers"] = confirmed
    inline = lambda f, ct: f.cls is None and f.module is fi.module and f is not fi  # noqa: E731
    ok = True
    n_paths = 0
    for o in Interp(prog, fi, inline=inline).run():
        evs = o.path.events
        cfg = [i for i, e in enumerate(evs) if e[0] == "call" and e[1][1] == ("glob", "ext:logging.basicConfig")]
        if not cfg:
            continue
        n_paths += 1
        chk.count()
        early = [e[1] for e in evs[: cfg[0]] if e[0] == "call" and e[1][1][0] == "glob" and e[1][1][1] in ROOT_LOG_CALLS]
        kw = dict((k, v) for k, v in evs[cfg[0]][1][3] if k)
        if early and kw.get("force") != ("const", True):
            chk.bad(rule, fi.qual, "%s runs before logging.basicConfig: it installs a default stderr handler, so the configured handler / level of basicConfig are ignored and the runtime log stays empty" % show(strip_sites(early[0][1])), node=fi.node, stmt="root-log-before-basicConfig")
            ok = False
    # ... and run() itself calls it before it logs anything or starts the runtime
    body_calls = [n for n in ast.walk(run.node) if isinstance(n, ast.Call)]
    first_cfg = min((n.lineno for n in body_calls if prog.resolve(run.module, n.func) == fi.qual), default=None)
    for n in body_calls:
        r = prog.resolve(run.module, n.func) or ""
        if first_cfg is not None and n.lineno < first_cfg and (r in ROOT_LOG_CALLS or (isinstance(n.func, ast.Attribute) and n.func.attr in ("debug", "info", "warning", "error", "critical", "exception") and "log" in util.unparse(n.func.value).lower())):
            chk.bad(rule, run.qual, "run() logs (%s) before logging is initialised" % util.unparse(n.func), node=n, stmt="log-before-init")
            ok = False
    if ok and n_paths:
        chk.ok(rule, fi.qual, "no root-logger call precedes logging.basicConfig on any of the %d configuring paths; run() initialises logging first" % n_paths, node=fi.node)


def module_registered_before_exec(chk):
    """O13.9: a Python configuration is registered in sys.modules under its name BEFORE its source is executed (what the
    import system does): code in the configuration that looks its own module up while executing -- dataclasses under
    `from __future__ import annotations`, pickling, sys.modules[__name__] -- otherwise fails and the daemon exits"""
    prog = chk.program
    rule = "O13.9"
    fi = prog.func(PY_LOAD)
    ok = True
    n = 0
    for o in Interp(prog, fi, inline=lambda f, ct, fi=fi: f.cls is None and not f.is_async and f.module is fi.module and f.name.startswith("_")).run():
        evs = o.path.events
        ex = [i for i, e in enumerate(evs) if e[0] == "call" and e[1][1][0] == "attr" and e[1][1][2] == "exec_module"]
        if not ex:
            continue
        n += 1
        chk.count()
        mod = evs[ex[0]][1][2][0] if evs[ex[0]][1][2] else None
        reg = [i for i, e in enumerate(evs) if e[0] == "store" and e[1][0] == "sub" and e[1][1] == ("glob", "ext:sys.modules") and e[2] == mod]
        if not reg:
            chk.bad(rule, fi.qual, "the configuration module is executed without being registered in sys.modules", node=fi.node, stmt="module-not-registered")
            ok = False
        elif reg[0] > ex[0]:
            chk.bad(rule, fi.qual, "the configuration module is registered in sys.modules only AFTER it has been executed: a configuration that looks up its own module while it runs fails to load", node=fi.node, stmt="module-registered-late")
            ok = False
    if ok and n:
        chk.ok(rule, fi.qual, "sys.modules[name] = module precedes exec_module(module)", node=fi.node)
    elif ok:
        chk.undecided(rule, fi.qual, "no exec_module call found in the Python configuration loader", node=fi.node, aux=True)


def run(chk):
    chk.guard("O13.8", "initialise_logging", logging_initialised_first, chk)
    chk.guard("O13.9", PY_LOAD, module_registered_before_exec, chk)
    chk.guard("O13.7", YAML_LOAD, read_while_open, chk)
    chk.guard("O13.6", "configure_logging", runtime_log, chk)
    chk.guard("O13.1", RUN, startup, chk)
    # "with any valid YAML configuration": the optional logging section is taken out before unknown sections are
    # rejected, plugins see exactly their sections (O14.1 / O14.2, shared with C14)
    from . import c14

    chk.guard("O14.1", c14.MAPPING_LOAD, c14.mapping_rules, chk)
    chk.guard("O13.2", LOAD_SERVICES, keep_alive, chk)
    # a failing service / failing load is a failing payload: the fail-stop chain (shared with C01)
    c01.run(chk)
    # "starts every service among them exactly once": the unit typestate and the sweep (shared with C03)
    from . import c03

    chk.guard("O3.6", c03.SERVICE_UNIT, c03.service_typestate, chk)
    chk.guard("O3.7", c03.SERVICE_RUNNER, c03.sweep_rules, chk)
    # the sweep hands every service to its runner from INSIDE the trio thread (send_nowait): the hand-over must never block or fail
    chk.guard("O3.8", c03.TRIO_RUNNER, c03.channel_capacity, chk)
    from . import c12

    chk.guard("O3.7", c03.SERVICE_RUNNER, c12.flag_writers, chk, "O3.7")
    # "any valid configuration" / "an invalid configuration makes it exit": names of legacy elements resolve at any depth, and no
    # handler in the configuration modules mistakes a constructor's TypeError / KeyError for "not a pipeline" (shared with C19, C05)
    from . import c05, c19

    chk.guard("O19.5", "Translator.construct", c19.construct_rules, chk)
    chk.guard("O5.4", "<config modules>", c05.narrow_try, chk)
    from . import c18

    chk.guard("O18.10", "COBalDLoader", c18.loader_overrides_keep_valid_documents, chk)
