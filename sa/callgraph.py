"""
E2 -- resolved call graph, spawn table and execution contexts.

Edges are (caller qual, callee qual, context) with context in
  SAME | LOOP | TRIO | NEW-THREAD | EXECUTOR
Calling an ``async def`` without awaiting it only creates a coroutine and is *not* an execution edge:
its body inherits the context of whoever awaits it or of the primitive it is handed to.
"""
import ast
from collections import defaultdict

from . import util
from .index import FuncInfo, FuncNode, Program, dotted

LOOP, TRIO, NEWTHREAD, EXECUTOR, SAME, ANY = "LOOP", "TRIO", "NEW-THREAD", "EXECUTOR", "SAME", "ANY-CALLER"

# attribute-suffix spawn primitives: name -> (context, index of the callable / coroutine argument)
ATTR_SPAWN = {
    "call_soon_threadsafe": (LOOP, 0),
    "call_soon": (LOOP, 0),
    "create_task": (LOOP, 0),
    "run_in_executor": (EXECUTOR, 1),
    "start_soon": (TRIO, 0),
    "start": (TRIO, 0),  # nursery.start
}
# resolved-name spawn primitives
NAME_SPAWN = {
    "ext:asyncio.run": (LOOP, 0),
    "ext:asyncio.run_coroutine_threadsafe": (LOOP, 0),
    "ext:asyncio.ensure_future": (LOOP, 0),
    "ext:asyncio.create_task": (LOOP, 0),
    "ext:asyncio.shield": (SAME, 0),
    "ext:asyncio.wait_for": (SAME, 0),
    "ext:trio.run": (TRIO, 0),
    "ext:trio.from_thread.run": (TRIO, 0),
    "ext:trio.from_thread.run_sync": (TRIO, 0),
    "ext:trio.to_thread.run_sync": (NEWTHREAD, 0),
    "ext:trio.lowlevel.spawn_system_task": (TRIO, 0),
}
FLAVOUR_CONTEXT = {"ext:asyncio": LOOP, "ext:trio": TRIO, "ext:threading": NEWTHREAD}
PUBLIC_API = [
    "cobald.daemon.runners.service:ServiceRunner.accept",
    "cobald.daemon.runners.service:ServiceRunner.adopt",
    "cobald.daemon.runners.service:ServiceRunner.execute",
    "cobald.daemon.runners.service:ServiceRunner.shutdown",
    "cobald.daemon.runners.meta_runner:MetaRunner.run",
    "cobald.daemon.runners.meta_runner:MetaRunner.stop",
    "cobald.daemon.runners.meta_runner:MetaRunner.register_payload",
    "cobald.daemon.runners.meta_runner:MetaRunner.run_payload",
    "cobald.daemon.runners.base_runner:BaseRunner.stop",
]


class CallGraph:
    def __init__(self, program: Program, package_prefix="cobald"):
        self.p = program
        self.edges = defaultdict(set)  # caller qual -> {(callee qual, ctx)}
        self.spawn_sites = []  # (caller FuncInfo, node, primitive, ctx, [callee quals])
        self.unresolved = []  # (caller qual, text)
        self.funcs = [f for f in program.functions.values() if f.module.name.startswith(package_prefix)]
        for fi in self.funcs:
            self._scan(fi)
        self.contexts = self._contexts()

    # ------------------------------------------------------------------ type inference
    def _value_type(self, mod, ann):
        """Dict[K, V] / List[V] / Set[V] annotation -> class qual of V"""
        if isinstance(ann, ast.Constant) and isinstance(ann.value, str):
            try:
                ann = ast.parse(ann.value, mode="eval").body
            except SyntaxError:
                return None
        if isinstance(ann, ast.Subscript):
            sl = ann.slice
            elts = sl.elts if isinstance(sl, ast.Tuple) else [sl]
            r = self.p.resolve(mod, elts[-1])
            return r if r in self.p.classes else None
        return None

    def _field_value_type(self, cls, attr):
        for q in cls.mro:
            c = self.p.classes.get(q)
            if c is None:
                continue
            for n in c.fields.get(attr, []):
                if isinstance(n, ast.AnnAssign):
                    t = self._value_type(c.module, n.annotation)
                    if t:
                        return t
        return None

    def _class_tuple_attr(self, cls, attr):
        """class attribute that is a tuple of classes: runner_types = (A, B, C)"""
        for q in cls.mro:
            c = self.p.classes.get(q)
            if c is not None and attr in c.class_attrs and isinstance(c.class_attrs[attr], (ast.Tuple, ast.List)):
                out = [self.p.resolve(c.module, e) for e in c.class_attrs[attr].elts]
                if all(o in self.p.classes for o in out):
                    return out
        return None

    def local_types(self, fi: FuncInfo):
        """name -> [class quals] for locals of fi whose type is evident"""
        types = {}
        cls = self._cls_of(fi)
        a = fi.node.args
        for x in a.posonlyargs + a.args + a.kwonlyargs:
            if x.annotation is not None:
                t = self.p._type_of_annotation(fi.module, x.annotation)
                if t:
                    types[x.arg] = [t]
        class_vars = {}
        for _ in range(2):
            for n in ast.walk(fi.node):
                if isinstance(n, (ast.For, ast.AsyncFor, ast.comprehension)):
                    it, tgt = n.iter, n.target
                    if isinstance(tgt, ast.Name):
                        d = dotted(it.func) if isinstance(it, ast.Call) else dotted(it)
                        if d and d.startswith("self.") and cls is not None:
                            parts = d.split(".")
                            if len(parts) == 3 and parts[2] == "values":
                                t = self._field_value_type(cls, parts[1])
                                if t:
                                    types[tgt.id] = [t]
                            elif len(parts) == 2:
                                ct = self._class_tuple_attr(cls, parts[1])
                                if ct:
                                    class_vars[tgt.id] = ct
                        elif isinstance(it, ast.Call):
                            # for x in f(...): element type from f's return annotation  Set[X] / List[X]
                            for callee in self.targets(fi, it.func, types):
                                if callee.node.returns is not None:
                                    t = self._value_type(callee.module, callee.node.returns)
                                    if t:
                                        types[tgt.id] = [t]
                elif isinstance(n, ast.Assign):
                    v = n.value
                    tys = None
                    if isinstance(v, ast.Call):
                        r = self.p.resolve(fi.module, v.func)
                        if r in self.p.classes:
                            tys = [r]
                        elif isinstance(v.func, ast.Name) and v.func.id in class_vars:
                            tys = class_vars[v.func.id]
                    elif isinstance(v, ast.Subscript):
                        d = dotted(v.value)
                        if d and d.startswith("self.") and cls is not None and d.count(".") == 1:
                            t = self._field_value_type(cls, d.split(".")[1])
                            if t:
                                tys = [t]
                    elif isinstance(v, ast.Name) and v.id in types:
                        tys = types[v.id]
                    if tys:
                        for t in n.targets:
                            if isinstance(t, ast.Name):
                                types[t.id] = tys
        return types

    def _cls_of(self, fi):
        f = fi
        while f is not None and f.cls is None:
            f = f.parent
        return f.cls if f is not None else None

    # ------------------------------------------------------------------ resolution
    def _dispatch(self, cls_qual, name):
        """implementations `obj.name` may dispatch to when obj is an instance of cls_qual (or a subclass)"""
        out = []
        c = self.p.classes.get(cls_qual)
        if c is None:
            return out
        m = self.p.lookup_method(c, name)
        if m is not None:
            out.append(m)
        for sub in self.p.subclasses(cls_qual):
            defs = sub.methods.get(name)
            if defs:
                m2 = self.p.pick(defs)
                if m2 is not None and m2 not in out:
                    out.append(m2)
        return out

    def targets(self, fi: FuncInfo, expr, ltypes=None):
        """resolve a callable-valued expression to FuncInfos"""
        ltypes = ltypes if ltypes is not None else self.local_types(fi)
        cls = self._cls_of(fi)
        if isinstance(expr, ast.Call):
            d = self.p.resolve(fi.module, expr.func)
            if d in ("ext:functools.partial",) and expr.args:
                return self.targets(fi, expr.args[0], ltypes)
            return self.targets(fi, expr.func, ltypes)  # c(...) creates the coroutine of c
        if isinstance(expr, ast.Lambda):
            out = []
            for n in ast.walk(expr.body):
                if isinstance(n, ast.Call):
                    out.extend(self.targets(fi, n.func, ltypes))
            return out
        if isinstance(expr, ast.Name):
            # nested function, module function, or imported
            f = fi
            while f is not None:
                q = f.qual + "." + expr.id
                if q in self.p.functions:
                    return [self.p.functions[q]]
                f = f.parent
            r = self.p.resolve(fi.module, expr)
            if r in self.p.functions:
                return [self.p.functions[r]]
            if r in self.p.classes:
                init = self.p.lookup_method(self.p.classes[r], "__init__")
                return [init] if init is not None else []
            return []
        if isinstance(expr, ast.Attribute):
            base = expr.value
            if isinstance(base, ast.Name) and base.id in ("self", "cls") and cls is not None:
                return self._dispatch(cls.qual, expr.attr)
            if isinstance(base, ast.Call) and dotted(base.func) == "super" and cls is not None and len(cls.mro) > 1:
                for q in cls.mro[1:]:
                    c = self.p.classes.get(q)
                    if c is not None and expr.attr in c.methods:
                        m = self.p.pick(c.methods[expr.attr])
                        return [m] if m else []
                return []
            if isinstance(base, ast.Attribute) and isinstance(base.value, ast.Name) and base.value.id == "self" and cls is not None:
                for q in cls.mro:
                    c = self.p.classes.get(q)
                    if c is not None and base.attr in c.field_types:
                        return self._dispatch(c.field_types[base.attr], expr.attr)
                return []
            if isinstance(base, ast.Subscript):
                d = dotted(base.value)
                if d and d.startswith("self.") and cls is not None and d.count(".") == 1:
                    t = self._field_value_type(cls, d.split(".")[1])
                    if t:
                        return self._dispatch(t, expr.attr)
            if isinstance(base, ast.Name) and base.id in ltypes:
                out = []
                for t in ltypes[base.id]:
                    out.extend(m for m in self._dispatch(t, expr.attr) if m not in out)
                return out
            r = self.p.resolve(fi.module, expr)
            if r in self.p.functions:
                return [self.p.functions[r]]
            if r and ":" in r:
                cq, _, meth = r.rpartition(".")
                if cq in self.p.classes:
                    return self._dispatch(cq, meth)
        return []

    # ------------------------------------------------------------------ scanning
    def _scan(self, fi: FuncInfo):
        ltypes = self.local_types(fi)
        awaited = {id(n.value) for n in util.walk_no_nested(fi.node) if isinstance(n, ast.Await)}
        handed = set()  # call nodes that are arguments of spawn primitives (coroutine creation)
        calls = [n for n in util.walk_no_nested(fi.node) if isinstance(n, ast.Call)]
        # lambdas: their bodies execute wherever the lambda is called; handled when passed to a primitive
        for c in calls:
            prim, ctx, carried = self._primitive(fi, c)
            if prim is None:
                continue
            tg_all = []
            for arg in carried:
                inner = arg.value if isinstance(arg, ast.Starred) else arg
                if isinstance(inner, ast.Call):
                    handed.add(id(inner))
                # partial(<spawn primitive>, f, ...) composes
                if isinstance(inner, ast.Call) and self.p.resolve(fi.module, inner.func) == "ext:functools.partial" and inner.args:
                    r0 = self.p.resolve(fi.module, inner.args[0])
                    if r0 in NAME_SPAWN and len(inner.args) > 1:
                        c2 = NAME_SPAWN[r0][0]
                        for t in self.targets(fi, inner.args[1], ltypes):
                            self.edges[fi.qual].add((t.qual, c2))
                            tg_all.append(t.qual)
                        continue
                r1 = self.p.resolve(fi.module, inner) if not isinstance(inner, ast.Call) else None
                if r1 in NAME_SPAWN:
                    # run_in_executor(None, trio.run, f): the next argument runs in that context
                    idx = carried.index(arg)
                    continue
                for t in self.targets(fi, inner, ltypes):
                    self.edges[fi.qual].add((t.qual, ctx))
                    tg_all.append(t.qual)
            self.spawn_sites.append((fi, c, prim, ctx, tg_all))
        for c in calls:
            if id(c) in handed:
                continue
            prim, _ctx, _carried = self._primitive(fi, c)
            if prim is not None:
                continue
            tgs = self.targets(fi, c.func, ltypes)
            if not tgs:
                d = dotted(c.func)
                if d and not (self.p.resolve(fi.module, c.func) or "").startswith("ext:"):
                    self.unresolved.append((fi.qual, d))
            for t in tgs:
                if t.is_async and id(c) not in awaited:
                    continue  # creating a coroutine is not an execution edge
                self.edges[fi.qual].add((t.qual, SAME))

    def _primitive(self, fi, c: ast.Call):
        """(primitive name, context, [carried callable argument nodes]) or (None, None, None)"""
        r = self.p.resolve(fi.module, c.func)
        if r in NAME_SPAWN:
            ctx, idx = NAME_SPAWN[r]
            return r, ctx, list(c.args[idx : idx + 1])
        if r == "ext:asyncio.gather":
            return r, LOOP, list(c.args)
        if r == "ext:threading.Thread":
            carried = [kw.value for kw in c.keywords if kw.arg == "target"]
            if not carried and len(c.args) > 1:
                carried = [c.args[1]]
            return r, NEWTHREAD, carried
        if isinstance(c.func, ast.Attribute) and c.func.attr in ATTR_SPAWN and not (r or "").startswith("cobald"):
            ctx, idx = ATTR_SPAWN[c.func.attr]
            if c.func.attr == "start" and not any(w in (dotted(c.func.value) or "") for w in ("nursery",)):
                return None, None, None
            return c.func.attr, ctx, list(c.args[idx : idx + 1])
        # derived primitives: adopt / register_payload / execute with a literal flavour
        if isinstance(c.func, ast.Attribute) and c.func.attr in ("adopt", "register_payload", "execute", "run_payload"):
            fl = None
            for kw in c.keywords:
                if kw.arg == "flavour":
                    fl = self.p.resolve(fi.module, kw.value)
            if fl in FLAVOUR_CONTEXT and c.args:
                ctx = FLAVOUR_CONTEXT[fl]
                if c.func.attr in ("execute", "run_payload") and ctx == NEWTHREAD:
                    ctx = SAME
                n = len(c.args) if c.func.attr == "register_payload" else 1
                return c.func.attr + "(flavour=%s)" % fl.split(":")[-1], ctx, list(c.args[:n])
        return None, None, None

    # ------------------------------------------------------------------ contexts
    def _contexts(self):
        ctx = defaultdict(set)
        for q in PUBLIC_API:
            if q in self.p.functions:
                ctx[q].add(ANY)
        changed = True
        while changed:
            changed = False
            for caller, outs in self.edges.items():
                for callee, c in outs:
                    if c == SAME:
                        new = set(ctx[caller])
                    else:
                        new = {c}
                    if new and not new <= ctx[callee]:
                        ctx[callee] |= new
                        changed = True
        return ctx

    def reachable(self, start_quals, follow=lambda ctx: True):
        seen = set()
        todo = list(start_quals)
        while todo:
            q = todo.pop()
            if q in seen:
                continue
            seen.add(q)
            for callee, c in self.edges.get(q, ()):
                if follow(c):
                    todo.append(callee)
        return seen

    def stats(self):
        return {
            "functions": len(self.funcs),
            "edges": sum(len(v) for v in self.edges.values()),
            "spawn_sites": len(self.spawn_sites),
            "unresolved_calls": len(self.unresolved),
        }
