"""
Semantics-preserving normalisation of the parsed program, applied before indexing.

One pattern only -- the *bulk helper*:

    def _release_children(self, children):        # a private method whose whole body is one loop over its
        for child in children:                    # only parameter, with no break / continue / return / yield
            BODY

is read as

    def _release_children(self, children):
        for child in children:
            self._release_children__each(child)

    def _release_children__each(self, child):
        BODY

and, inside the same class, a call statement that hands it a one-element display or a (lazily consumed) generator
expression is read as the loop it is:

    self._release_children((child,))                          ->   self._release_children__each(child)
    self._release_children(c for c in src if cond)            ->   for c in src:
                                                                       if cond:
                                                                           self._release_children__each(c)

Both readings execute the same statements in the same order on the same objects (a generator handed to a function whose
body is exactly `for x in arg: ...` is advanced once per iteration, its filter evaluated right before the body), so the
rules, which are written for the per-element helper, decide the same behaviour.  New nodes carry the positions of the
nodes they come from, so reports still point into the file.
"""

import ast
import copy

SUFFIX = "__each"


def _no_escape(body):
    """no break / continue / return / yield that would leave the loop body (nested loops may break for themselves)"""

    def walk(stmts, in_loop):
        for st in stmts:
            for n in ast.iter_child_nodes(st):
                pass
            if isinstance(st, (ast.Return,)):
                return False
            if isinstance(st, (ast.Break, ast.Continue)) and not in_loop:
                return False
            if isinstance(st, (ast.FunctionDef, ast.AsyncFunctionDef, ast.ClassDef)):
                continue
            for x in ast.walk(st) if not isinstance(st, (ast.For, ast.While, ast.If, ast.With, ast.Try)) else []:
                if isinstance(x, (ast.Yield, ast.YieldFrom, ast.Await)):
                    return False
            for field in ("body", "orelse", "finalbody"):
                sub = getattr(st, field, None)
                if isinstance(sub, list) and sub and isinstance(sub[0], ast.stmt):
                    if not walk(sub, in_loop or isinstance(st, (ast.For, ast.While))):
                        return False
            for h in getattr(st, "handlers", []) or []:
                if not walk(h.body, in_loop):
                    return False
        return True

    if any(isinstance(x, (ast.Yield, ast.YieldFrom, ast.Await)) for st in body for x in ast.walk(st)):
        return False
    return walk(body, False)


def _bulk_helper(fn):
    """(loop, parameter name) when fn is a bulk helper, else None"""
    if not isinstance(fn, ast.FunctionDef) or not fn.name.startswith("_") or fn.name.startswith("__") or fn.decorator_list:
        return None
    a = fn.args
    if a.vararg or a.kwarg or a.kwonlyargs or a.posonlyargs or a.defaults or len(a.args) != 2 or a.args[0].arg != "self":
        return None
    body = list(fn.body)
    if body and isinstance(body[0], ast.Expr) and isinstance(body[0].value, ast.Constant) and isinstance(body[0].value.value, str):
        body = body[1:]
    if len(body) != 1 or not isinstance(body[0], ast.For) or body[0].orelse:
        return None
    loop = body[0]
    p = a.args[1].arg
    if not (isinstance(loop.iter, ast.Name) and loop.iter.id == p) or not isinstance(loop.target, ast.Name):
        return None
    if any(isinstance(n, ast.Name) and n.id == p for st in loop.body for n in ast.walk(st)):
        return None
    if loop.target.id in ("self", p) or not _no_escape(loop.body):
        return None
    # the loop variable is not rebound in the body (the per-element function gets it as its parameter)
    if any(isinstance(n, ast.Name) and n.id == loop.target.id and isinstance(n.ctx, (ast.Store, ast.Del)) for st in loop.body for n in ast.walk(st)):
        return None
    return loop, p


def _each_call(at, name, arg):
    call = ast.Call(func=ast.Attribute(value=ast.Name(id="self", ctx=ast.Load()), attr=name + SUFFIX, ctx=ast.Load()), args=[arg], keywords=[])
    st = ast.Expr(value=call)
    for n in ast.walk(st):
        ast.copy_location(n, at)
    return st


def normalise_class(cls_node):
    """rewrite the bulk helpers of one class in place; returns the names of the helpers that were split"""
    helpers = {}
    for st in cls_node.body:
        found = _bulk_helper(st) if isinstance(st, ast.FunctionDef) else None
        if found and not any(isinstance(o, ast.FunctionDef) and o.name == st.name + SUFFIX for o in cls_node.body):
            helpers[st.name] = (st, found[0], found[1])
    if not helpers:
        return []
    # the helper must only ever be CALLED (a reference handed around could be called with anything)
    for name in list(helpers):
        for n in ast.walk(cls_node):
            if isinstance(n, ast.Attribute) and n.attr == name:
                pass
        calls = {id(n.func) for n in ast.walk(cls_node) if isinstance(n, ast.Call) and isinstance(n.func, ast.Attribute) and n.func.attr == name}
        refs = [n for n in ast.walk(cls_node) if isinstance(n, ast.Attribute) and n.attr == name and id(n) not in calls]
        if refs:
            del helpers[name]
    new_defs = []
    for name, (fn, loop, _p) in helpers.items():
        each = ast.FunctionDef(
            name=name + SUFFIX,
            args=ast.arguments(posonlyargs=[], args=[ast.arg(arg="self"), ast.arg(arg=loop.target.id)], vararg=None, kwonlyargs=[], kw_defaults=[], kwarg=None, defaults=[]),
            body=loop.body,
            decorator_list=[],
            returns=None,
            type_comment=None,
        )
        if hasattr(each, "type_params"):
            each.type_params = []
        ast.copy_location(each, loop)
        for a in each.args.args:
            ast.copy_location(a, loop)
        loop.body = [_each_call(loop, name, ast.copy_location(ast.Name(id=loop.target.id, ctx=ast.Load()), loop))]
        new_defs.append((fn, each))
    for fn, each in new_defs:
        cls_node.body.insert(cls_node.body.index(fn) + 1, each)

    # call statements inside the class
    class Sites(ast.NodeTransformer):
        def visit_Expr(self, st):
            c = st.value
            if not (isinstance(c, ast.Call) and isinstance(c.func, ast.Attribute) and c.func.attr in helpers and isinstance(c.func.value, ast.Name) and c.func.value.id == "self" and len(c.args) == 1 and not c.keywords):
                return st
            name = c.func.attr
            arg = c.args[0]
            if isinstance(arg, (ast.Tuple, ast.List)) and len(arg.elts) == 1 and not isinstance(arg.elts[0], ast.Starred):
                return _each_call(st, name, arg.elts[0])
            if isinstance(arg, ast.GeneratorExp) and not any(g.is_async for g in arg.generators):
                inner = [_each_call(st, name, arg.elt)]
                for g in reversed(arg.generators):
                    for cond in reversed(g.ifs):
                        inner = [ast.copy_location(ast.If(test=cond, body=inner, orelse=[]), st)]
                    inner = [ast.copy_location(ast.For(target=copy.deepcopy(g.target), iter=g.iter, body=inner, orelse=[], type_comment=None), st)]
                    for n in ast.walk(inner[0].target):
                        if isinstance(n, (ast.Name, ast.Tuple, ast.List, ast.Starred)):
                            n.ctx = ast.Store()
                return inner[0]
            return st

    for st in cls_node.body:
        if isinstance(st, (ast.FunctionDef, ast.AsyncFunctionDef)) and not st.name.endswith(SUFFIX):
            # the generator's variables become locals of the enclosing function: only when nothing else there has their name
            gen_names = {
                n.id
                for c in ast.walk(st)
                if isinstance(c, ast.Call) and isinstance(c.func, ast.Attribute) and c.func.attr in helpers and len(c.args) == 1 and isinstance(c.args[0], ast.GeneratorExp)
                for g in c.args[0].generators
                for n in ast.walk(g.target)
                if isinstance(n, ast.Name)
            }
            inside = {id(n) for c in ast.walk(st) if isinstance(c, ast.GeneratorExp) for n in ast.walk(c)}
            clash = any(isinstance(n, ast.Name) and n.id in gen_names and id(n) not in inside for n in ast.walk(st)) or any(a.arg in gen_names for a in ast.walk(st) if isinstance(a, ast.arg))
            if not clash:
                Sites().visit(st)
    return sorted(helpers)


def normalise_module(tree):
    done = ["record " + r for r in denormalise_records(tree)] + denormalise_enums(tree)
    k = normalise_while_true(tree)
    if k:
        done.append("%d while-True loops" % k)
    for n in ast.walk(tree):
        if isinstance(n, ast.ClassDef):
            done += ["%s.%s" % (n.name, h) for h in normalise_class(n)]
    if done:
        ast.fix_missing_locations(tree)
    return done


# ---------------------------------------------------------------------------------------------------------------------
# Records: state gathered into one private NamedTuple / dataclass attribute is read as the attributes it replaced
#
#     class _Access(NamedTuple): token: ... = None; channel: ... = None
#     self._access = _Access()                              ->   self._trio_token = None; self._submit_tasks = None
#     self._access = self._access._replace(token=t)         ->   self._trio_token = t
#     self._link.token = t          (dataclass)             ->   self._trio_token = t
#     self._access.token  /  link = self._link; link.token  ->   self._trio_token
#     token, channel = self._access                         ->   token, channel = self._trio_token, self._submit_tasks
#     @property def _trio_token(self): return self._access.token      (dropped: it is the plain attribute again)
#
# A field the class publishes as the property `p: return self.<rec>.<field>` becomes the attribute p, any other field
# the attribute <rec>__<field>.  Applied only when EVERY use of self.<rec> in the module has one of the shapes above;
# the record object itself (its identity, one-snapshot reads) is not something any rule talks about.


def _record_classes(tree):
    out = {}
    for st in tree.body:
        if not isinstance(st, ast.ClassDef):
            continue
        named = any((isinstance(b, ast.Name) and b.id == "NamedTuple") or (isinstance(b, ast.Attribute) and b.attr == "NamedTuple") for b in st.bases)
        data = False
        for d in st.decorator_list:
            f = d.func if isinstance(d, ast.Call) else d
            if (isinstance(f, ast.Name) and f.id == "dataclass") or (isinstance(f, ast.Attribute) and f.attr == "dataclass"):
                data = True
        if not (named or data):
            # a tiny holder class: only __slots__ and an __init__(self) that sets each field to a constant
            if st.bases or st.decorator_list or not st.name.startswith("_"):
                continue
            init = None
            plain = True
            for b in st.body:
                if isinstance(b, ast.FunctionDef) and b.name == "__init__":
                    init = b
                elif isinstance(b, ast.Assign) and len(b.targets) == 1 and isinstance(b.targets[0], ast.Name) and b.targets[0].id == "__slots__":
                    continue
                elif isinstance(b, ast.Expr) and isinstance(b.value, ast.Constant):
                    continue
                else:
                    plain = False
            a = init.args if init is not None else None
            if not plain or init is None or len(a.args) != 1 or a.vararg or a.kwarg or a.kwonlyargs:
                continue
            flds = []
            for b in init.body:
                tg = b.targets[0] if isinstance(b, ast.Assign) and len(b.targets) == 1 else b.target if isinstance(b, ast.AnnAssign) else None
                v = getattr(b, "value", None)
                if tg is not None and _is_self_attr(tg) and isinstance(v, ast.Constant):
                    flds.append((tg.attr, v))
                elif isinstance(b, ast.Expr) and isinstance(b.value, ast.Constant):
                    continue
                else:
                    flds = None
                    break
            if flds:
                out[st.name] = {"fields": flds, "named": False}
            continue
        fields = []
        ok = True
        for b in st.body:
            if isinstance(b, ast.AnnAssign) and isinstance(b.target, ast.Name):
                if b.value is not None and not isinstance(b.value, ast.Constant):
                    ok = False
                fields.append((b.target.id, b.value))
            elif isinstance(b, ast.Expr) and isinstance(b.value, ast.Constant):
                continue
            elif isinstance(b, ast.Pass):
                continue
            else:
                ok = False  # methods, plain assignments: not a pure record
        if ok and fields:
            out[st.name] = {"fields": fields, "named": named}
    return out


def _is_self_attr(n, name=None):
    return isinstance(n, ast.Attribute) and isinstance(n.value, ast.Name) and n.value.id == "self" and (name is None or n.attr == name)


def _denormalise_class(cls_node, recs, tree):
    done = []
    # candidates: self.X = R(...)
    cands = {}
    for n in ast.walk(cls_node):
        if isinstance(n, ast.Assign) and len(n.targets) == 1 and _is_self_attr(n.targets[0]) and isinstance(n.value, ast.Call) and isinstance(n.value.func, ast.Name) and n.value.func.id in recs:
            cands.setdefault(n.targets[0].attr, set()).add(n.value.func.id)
    for X, rnames in cands.items():
        if len(rnames) != 1 or not X.startswith("_"):
            continue
        R = recs[next(iter(rnames))]
        fnames = [f for f, _d in R["fields"]]
        # nobody outside the class touches the record
        inside = {id(n) for n in ast.walk(cls_node)}
        if any(isinstance(n, ast.Attribute) and n.attr == X and id(n) not in inside for n in ast.walk(tree)):
            continue
        # views
        views, droppable = {}, []
        bail = False
        for st in cls_node.body:
            if not isinstance(st, ast.FunctionDef):
                continue
            decos = [d for d in st.decorator_list]
            body = [b for b in st.body if not (isinstance(b, ast.Expr) and isinstance(b.value, ast.Constant))]
            if any(isinstance(d, ast.Name) and d.id == "property" for d in decos) and len(body) == 1 and isinstance(body[0], ast.Return) and isinstance(body[0].value, ast.Attribute) and _is_self_attr(body[0].value.value, X) and body[0].value.attr in fnames:
                views.setdefault(body[0].value.attr, st.name)
                droppable.append(st)
            elif any(isinstance(d, ast.Attribute) and d.attr == "setter" for d in decos) and len(body) == 1 and len(st.args.args) == 2:
                v = st.args.args[1].arg
                b = body[0]
                f = None
                if isinstance(b, ast.Assign) and len(b.targets) == 1 and _is_self_attr(b.targets[0], X) and isinstance(b.value, ast.Call) and isinstance(b.value.func, ast.Attribute) and b.value.func.attr == "_replace" and _is_self_attr(b.value.func.value, X) and len(b.value.keywords) == 1 and not b.value.args and isinstance(b.value.keywords[0].value, ast.Name) and b.value.keywords[0].value.id == v:
                    f = b.value.keywords[0].arg
                elif isinstance(b, ast.Assign) and len(b.targets) == 1 and isinstance(b.targets[0], ast.Attribute) and _is_self_attr(b.targets[0].value, X) and isinstance(b.value, ast.Name) and b.value.id == v:
                    f = b.targets[0].attr
                if f is not None and f in fnames:
                    droppable.append(st)
        # ... or as a class-level  p = property(lambda self: self.<rec>.<field>)
        for st in cls_node.body:
            if isinstance(st, ast.Assign) and len(st.targets) == 1 and isinstance(st.targets[0], ast.Name) and isinstance(st.value, ast.Call) and isinstance(st.value.func, ast.Name) and st.value.func.id == "property" and len(st.value.args) == 1 and not st.value.keywords and isinstance(st.value.args[0], ast.Lambda):
                lam = st.value.args[0]
                if len(lam.args.args) == 1 and isinstance(lam.body, ast.Attribute) and isinstance(lam.body.value, ast.Attribute) and isinstance(lam.body.value.value, ast.Name) and lam.body.value.value.id == lam.args.args[0].arg and lam.body.value.attr == X and lam.body.attr in fnames:
                    views.setdefault(lam.body.attr, st.targets[0].id)
                    droppable.append(st)
        name_of = {f: views.get(f, "%s__%s" % (X, f)) for f in fnames}
        # a view setter is only dropped together with the getter of the same name and field
        getter_names = set(views.values())
        droppable = [st for st in droppable if (st.name if isinstance(st, ast.FunctionDef) else st.targets[0].id) in getter_names]
        drop_ids = {id(n) for st in droppable for n in ast.walk(st)}
        # the new attribute names must be free
        taken = {n.attr for n in ast.walk(cls_node) if _is_self_attr(n) and isinstance(n.ctx, (ast.Store, ast.Del)) and id(n) not in drop_ids} | {st.name for st in cls_node.body if isinstance(st, (ast.FunctionDef, ast.AsyncFunctionDef)) and not any(st is d for d in droppable)}
        if any(nm in taken for nm in name_of.values()):
            continue
        # every use has a known shape
        plans = []  # (function, aliases)
        for fn in [st for st in cls_node.body if isinstance(st, (ast.FunctionDef, ast.AsyncFunctionDef)) and not any(st is d for d in droppable)]:
            par = {}
            for p in ast.walk(fn):
                for c in ast.iter_child_nodes(p):
                    par[id(c)] = p
            aliases = set()
            for n in ast.walk(fn):
                if isinstance(n, ast.Assign) and len(n.targets) == 1 and isinstance(n.targets[0], ast.Name) and _is_self_attr(n.value, X):
                    aliases.add(n.targets[0].id)
            for a in aliases:
                binds = [n for n in ast.walk(fn) if isinstance(n, ast.Name) and n.id == a and isinstance(n.ctx, (ast.Store, ast.Del))]
                if len(binds) != 1 or any(x.arg == a for x in ast.walk(fn) if isinstance(x, ast.arg)):
                    bail = True
            for n in ast.walk(fn):
                is_rec = _is_self_attr(n, X) or (isinstance(n, ast.Name) and n.id in aliases and isinstance(n.ctx, ast.Load))
                if not is_rec:
                    continue
                up = par.get(id(n))
                if isinstance(up, ast.Attribute) and up.value is n and up.attr in fnames:
                    continue  # self.X.f / alias.f  (load or store)
                if isinstance(up, ast.Attribute) and up.value is n and up.attr == "_replace":
                    call = par.get(id(up))
                    asg = par.get(id(call))
                    if isinstance(call, ast.Call) and call.func is up and not call.args and all(k.arg in fnames for k in call.keywords) and isinstance(asg, ast.Assign) and len(asg.targets) == 1 and _is_self_attr(asg.targets[0], X):
                        continue
                    bail = True
                    continue
                if isinstance(up, ast.Assign) and len(up.targets) == 1 and up.targets[0] is n:
                    v = up.value
                    if isinstance(v, ast.Call) and isinstance(v.func, ast.Name) and v.func.id in rnames and not any(isinstance(a, ast.Starred) for a in v.args) and all(k.arg in fnames for k in v.keywords) and len(v.args) <= len(fnames):
                        continue
                    if isinstance(v, ast.Call) and isinstance(v.func, ast.Attribute) and v.func.attr == "_replace" and _is_self_attr(v.func.value, X):
                        continue
                    bail = True
                    continue
                if isinstance(up, ast.Assign) and up.value is n and len(up.targets) == 1:
                    t = up.targets[0]
                    if isinstance(t, ast.Name) and t.id in aliases and _is_self_attr(n, X):
                        continue
                    if R["named"] and isinstance(t, (ast.Tuple, ast.List)) and len(t.elts) == len(fnames) and not any(isinstance(e, ast.Starred) for e in t.elts):
                        continue
                bail = True
            plans.append((fn, aliases))
        if bail:
            continue

        def field_ref(f, at, ctx):
            return ast.copy_location(ast.Attribute(value=ast.copy_location(ast.Name(id="self", ctx=ast.Load()), at), attr=name_of[f], ctx=ctx), at)

        class Rewrite(ast.NodeTransformer):
            def __init__(self, aliases, fn):
                self.aliases = aliases
                # `a, b = self.X` with a, b bound nowhere else in the function: a and b ARE the fields
                self.unpacked = {}
                for n in ast.walk(fn):
                    if isinstance(n, ast.Assign) and len(n.targets) == 1 and isinstance(n.targets[0], (ast.Tuple, ast.List)) and self.is_rec(n.value) and all(isinstance(e, ast.Name) for e in n.targets[0].elts):
                        names = [e.id for e in n.targets[0].elts]
                        once = all(len([x for x in ast.walk(fn) if isinstance(x, ast.Name) and x.id == nm and isinstance(x.ctx, (ast.Store, ast.Del))]) == 1 and not any(a.arg == nm for a in ast.walk(fn) if isinstance(a, ast.arg)) for nm in names)
                        if once and len(names) == len(fnames):
                            self.unpacked.update(dict(zip(names, fnames)))

            def is_rec(self, n):
                return _is_self_attr(n, X) or (isinstance(n, ast.Name) and n.id in self.aliases)

            def visit_Name(self, node):
                if isinstance(node.ctx, ast.Load) and node.id in self.unpacked:
                    return field_ref(self.unpacked[node.id], node, ast.Load())
                return node

            def visit_Attribute(self, node):
                if self.is_rec(node.value) and node.attr in fnames:
                    return field_ref(node.attr, node, node.ctx)
                return self.generic_visit(node)

            def visit_Assign(self, node):
                if len(node.targets) == 1 and _is_self_attr(node.targets[0], X):
                    v = node.value
                    pairs = []
                    if isinstance(v.func, ast.Name):  # R(a, b, f=c)
                        given = {}
                        order = []
                        for f, a in zip(fnames, v.args):
                            given[f] = a
                            order.append(f)
                        for k in v.keywords:
                            given[k.arg] = k.value
                            order.append(k.arg)
                        for f, d in R["fields"]:
                            if f not in given:
                                if d is None:
                                    return node  # (a missing argument: TypeError at run time; leave it)
                                given[f] = copy.deepcopy(d)
                                order.append(f)
                        pairs = [(f, self.visit(given[f])) for f in order]
                    else:  # self.X._replace(f=v)
                        pairs = [(k.arg, self.visit(k.value)) for k in v.keywords]
                    return [ast.copy_location(ast.Assign(targets=[field_ref(f, node, ast.Store())], value=val, type_comment=None), node) for f, val in pairs] or ast.copy_location(ast.Pass(), node)
                if len(node.targets) == 1 and isinstance(node.targets[0], ast.Name) and node.targets[0].id in self.aliases and _is_self_attr(node.value, X):
                    return ast.copy_location(ast.Pass(), node)
                if len(node.targets) == 1 and isinstance(node.targets[0], (ast.Tuple, ast.List)) and self.is_rec(node.value):
                    if all(isinstance(e, ast.Name) and e.id in self.unpacked for e in node.targets[0].elts):
                        return ast.copy_location(ast.Pass(), node)
                    node.value = ast.copy_location(ast.Tuple(elts=[field_ref(f, node, ast.Load()) for f in fnames], ctx=ast.Load()), node)
                    return node
                return self.generic_visit(node)

        for fn, aliases in plans:
            Rewrite(aliases, fn).visit(fn)
        cls_node.body = [st for st in cls_node.body if not any(st is d for d in droppable)]
        for st in cls_node.body:
            if isinstance(st, ast.Assign) and any(isinstance(t, ast.Name) and t.id == "__slots__" for t in st.targets) and isinstance(st.value, (ast.Tuple, ast.List)):
                elts = []
                for e in st.value.elts:
                    if isinstance(e, ast.Constant) and e.value == X:
                        elts.extend(ast.copy_location(ast.Constant(value=name_of[f]), e) for f in fnames)
                    else:
                        elts.append(e)
                st.value.elts = elts
        done.append("%s.%s" % (cls_node.name, X))
    return done


def denormalise_records(tree):
    recs = _record_classes(tree)
    if not recs:
        return []
    done = []
    for st in tree.body:
        if isinstance(st, ast.ClassDef) and st.name not in recs:
            done += _denormalise_class(st, recs, tree)
    if done:
        ast.fix_missing_locations(tree)
    return done


# ---------------------------------------------------------------------------------------------------------------------
# Value enums: a string / bool flag kept as a member of a private Enum is read as the value it stands for
#
#     class _Weight(enum.Enum): SUPPLY = "supply"; ...
#     self._weight = _Weight(weight)          ->   self._weight = weight        (the membership check stays the caller's)
#     self._weight.value                      ->   self._weight
#     self._weight is _Weight.SUPPLY  / ==    ->   self._weight == "supply"
#
# only when every use of the attribute and of the enum in the module has one of these shapes.


def _value_enums(tree):
    out = {}
    for st in tree.body:
        if isinstance(st, ast.ClassDef) and st.name.startswith("_") and any((isinstance(b, ast.Name) and b.id in ("Enum", "StrEnum")) or (isinstance(b, ast.Attribute) and b.attr in ("Enum", "StrEnum")) for b in st.bases):
            members = {}
            ok = True
            for b in st.body:
                if isinstance(b, ast.Assign) and len(b.targets) == 1 and isinstance(b.targets[0], ast.Name) and isinstance(b.value, ast.Constant):
                    members[b.targets[0].id] = b.value
                elif isinstance(b, ast.Expr) and isinstance(b.value, ast.Constant):
                    continue
                else:
                    ok = False
            if ok and members and len({repr(v.value) for v in members.values()}) == len(members):
                out[st.name] = members
    return out


def denormalise_enums(tree):
    enums = _value_enums(tree)
    done = []
    if not enums:
        return done
    par = {}
    for p in ast.walk(tree):
        for c in ast.iter_child_nodes(p):
            par[id(c)] = p

    def member_of(n, E):
        return isinstance(n, ast.Attribute) and isinstance(n.value, ast.Name) and n.value.id == E and n.attr in enums[E]

    for E, members in enums.items():
        # attributes holding a member:  self.X = E(expr)  /  self.X = E.MEMBER
        attrs = set()
        for n in ast.walk(tree):
            if isinstance(n, ast.Assign) and len(n.targets) == 1 and _is_self_attr(n.targets[0]):
                v = n.value
                if (isinstance(v, ast.Call) and isinstance(v.func, ast.Name) and v.func.id == E and len(v.args) == 1 and not v.keywords) or member_of(v, E):
                    attrs.add(n.targets[0].attr)
        if not attrs:
            continue
        ok = True
        for n in ast.walk(tree):
            if isinstance(n, ast.Name) and n.id == E:
                up = par.get(id(n))
                if isinstance(up, ast.ClassDef):
                    continue
                if isinstance(up, ast.Call) and up.func is n:
                    asg = par.get(id(up))
                    if isinstance(asg, ast.Assign) and len(asg.targets) == 1 and _is_self_attr(asg.targets[0]) and asg.targets[0].attr in attrs:
                        continue
                if member_of(up, E):
                    ctx = par.get(id(up))
                    if isinstance(ctx, ast.Compare) and len(ctx.ops) == 1 and isinstance(ctx.ops[0], (ast.Is, ast.IsNot, ast.Eq, ast.NotEq)) and any(_is_self_attr(x) and x.attr in attrs for x in [ctx.left] + ctx.comparators):
                        continue
                    if isinstance(ctx, ast.Assign) and ctx.value is up and len(ctx.targets) == 1 and _is_self_attr(ctx.targets[0]) and ctx.targets[0].attr in attrs:
                        continue
                ok = False
            if _is_self_attr(n) and n.attr in attrs:
                up = par.get(id(n))
                if isinstance(n.ctx, ast.Store):
                    v = getattr(up, "value", None)
                    if not (isinstance(up, ast.Assign) and ((isinstance(v, ast.Call) and isinstance(v.func, ast.Name) and v.func.id == E) or member_of(v, E))):
                        ok = False
                    continue
                if isinstance(up, ast.Attribute) and up.value is n and up.attr == "value":
                    continue
                if isinstance(up, ast.Compare) and len(up.ops) == 1 and isinstance(up.ops[0], (ast.Is, ast.IsNot, ast.Eq, ast.NotEq)):
                    other = [x for x in [up.left] + up.comparators if x is not n]
                    if len(other) == 1 and member_of(other[0], E):
                        continue
                ok = False
        if any(isinstance(n, ast.Attribute) and n.attr in attrs and not _is_self_attr(n) for n in ast.walk(tree)):
            ok = False  # somebody else's attribute of that name
        if not ok:
            continue
        # a two-state enum behind a bool property  p: return self.X is E.M   is the bool flag p
        flag = {}  # attr -> (property name, member that means True, property node, class node)
        if len(members) == 2:
            for cls_node in [c for c in ast.walk(tree) if isinstance(c, ast.ClassDef)]:
                for st in cls_node.body:
                    if isinstance(st, ast.FunctionDef) and any(isinstance(d, ast.Name) and d.id == "property" for d in st.decorator_list):
                        body = [b for b in st.body if not (isinstance(b, ast.Expr) and isinstance(b.value, ast.Constant))]
                        if len(body) == 1 and isinstance(body[0], ast.Return) and isinstance(body[0].value, ast.Compare) and len(body[0].value.ops) == 1 and isinstance(body[0].value.ops[0], (ast.Is, ast.Eq)):
                            c = body[0].value
                            if _is_self_attr(c.left) and c.left.attr in attrs and member_of(c.comparators[0], E):
                                only_member_stores = all(member_of(n.value, E) for n in ast.walk(tree) if isinstance(n, ast.Assign) and len(n.targets) == 1 and _is_self_attr(n.targets[0], c.left.attr))
                                taken = any(_is_self_attr(n, st.name) and isinstance(n.ctx, ast.Store) for n in ast.walk(cls_node))
                                if only_member_stores and not taken:
                                    flag[c.left.attr] = (st.name, c.comparators[0].attr, st, cls_node)

        def const(node, value):
            return ast.copy_location(ast.Constant(value=value), node)

        class Rewrite(ast.NodeTransformer):
            def visit_Assign(self, node):
                if len(node.targets) == 1 and _is_self_attr(node.targets[0]) and node.targets[0].attr in attrs:
                    X = node.targets[0].attr
                    v = node.value
                    if X in flag:
                        node.targets[0].attr = flag[X][0]
                        node.value = const(v, v.attr == flag[X][1])
                        return node
                    node.value = self.visit(v.args[0]) if isinstance(v, ast.Call) else const(v, members[v.attr].value)
                    return node
                return self.generic_visit(node)

            def visit_Attribute(self, node):
                if node.attr == "value" and _is_self_attr(node.value) and node.value.attr in attrs and node.value.attr not in flag:
                    return node.value
                return self.generic_visit(node)

            def visit_Compare(self, node):
                sides = [node.left] + node.comparators
                if len(node.ops) == 1 and any(_is_self_attr(x) and x.attr in attrs for x in sides) and any(member_of(x, E) for x in sides):
                    me = next(x for x in sides if _is_self_attr(x) and x.attr in attrs)
                    mem = next(x for x in sides if member_of(x, E))
                    positive = isinstance(node.ops[0], (ast.Is, ast.Eq))
                    if me.attr in flag:
                        ref = ast.copy_location(ast.Attribute(value=me.value, attr=flag[me.attr][0], ctx=ast.Load()), me)
                        same = (mem.attr == flag[me.attr][1]) == positive
                        return ref if same else ast.copy_location(ast.UnaryOp(op=ast.Not(), operand=ref), node)
                    return ast.copy_location(ast.Compare(left=me, ops=[ast.Eq() if positive else ast.NotEq()], comparators=[const(mem, members[mem.attr].value)]), node)
                return self.generic_visit(node)

        for X, (_p, _m, prop, cls_node) in flag.items():
            cls_node.body = [st for st in cls_node.body if st is not prop]
        Rewrite().visit(tree)
        done.append("enum %s" % E)
    if done:
        ast.fix_missing_locations(tree)
    return done


# ---------------------------------------------------------------------------------------------------------------------
# `while True:` with the exit test as its first statement is the loop with that test:
#
#     while True:                 ->   while C:
#         if not C: break                  BODY
#         BODY
#
# (no `else` clause on the loop; `continue` in BODY jumps to the test in both forms)


def _negate(e):
    if isinstance(e, ast.UnaryOp) and isinstance(e.op, ast.Not):
        return e.operand
    return ast.copy_location(ast.UnaryOp(op=ast.Not(), operand=e), e)


def normalise_while_true(tree):
    done = 0
    for n in ast.walk(tree):
        if isinstance(n, ast.While) and isinstance(n.test, ast.Constant) and n.test.value is True and not n.orelse and len(n.body) >= 2:
            first = n.body[0]
            if isinstance(first, ast.If) and not first.orelse and len(first.body) == 1 and isinstance(first.body[0], ast.Break):
                n.test = _negate(first.test)
                n.body = n.body[1:]
                done += 1
    if done:
        ast.fix_missing_locations(tree)
    return done
